"""Statement-level control-flow graph for one function.

* if/elif/else, for/while (+else, break, continue), try/except/else/finally
  (finally bodies are duplicated per continuation, so no path enters a finally
  normally and leaves it exceptionally), with, return, raise, assert;
* short-circuit expansion of and/or/not/conditional expressions when they are
  an if/while/assert test or the whole value of an assignment / return /
  expression statement; elsewhere the conditionally evaluated operands are
  marked *conditional* (``walk(must=True)`` skips them);
* an exceptional edge (label ``'exc'``) from every node that contains a call,
  raise, failing assert, to the innermost handler dispatch / finally copy /
  the function's EXC-EXIT.

Nodes carry the ast fragment *evaluated at that node*; ``Node.walk()``
yields exactly the ast nodes attributed to it (sub-expressions that were
expanded into operand nodes are not re-reported by the enclosing statement).
"""
from __future__ import annotations

import ast
from typing import Callable, Dict, Iterable, Iterator, List, Optional, Set

from .program import walk_no_nested, unparse


class Node(object):
    __slots__ = ('id', 'kind', 'ast', 'succ', 'pred', 'skip', 'stmt',
                 'region', 'note')

    def __init__(self, nid, kind, astnode=None, stmt=None, note=''):
        self.id = nid
        self.kind = kind
        self.ast = astnode
        self.stmt = stmt if stmt is not None else astnode
        self.succ: List[tuple] = []   # (node, label)
        self.pred: List[tuple] = []
        self.skip: Set[int] = set()
        self.region: tuple = ()       # ids of enclosing Try nodes ('body')
        self.note = note

    # -- attribution ---------------------------------------------------------
    def roots(self) -> List[ast.AST]:
        a = self.ast
        if a is None:
            return []
        k = self.kind
        if k == 'for':
            return [a.target]
        if k == 'iter':
            return [a]
        if k == 'with':
            out = [a.context_expr]
            if a.optional_vars is not None:
                out.append(a.optional_vars)
            return out
        if k == 'except':
            return [a.type] if a.type is not None else []
        if k == 'def':
            out = list(a.decorator_list)
            if isinstance(a, ast.ClassDef):
                out += list(a.bases)
            else:
                out += [d for d in a.args.defaults] + \
                       [d for d in a.args.kw_defaults if d is not None]
            return out
        return [a]

    def walk(self, must=False) -> Iterator[ast.AST]:
        """ast nodes evaluated at this CFG node.  With must=True only those
        evaluated on *every* execution of the node."""
        for root in self.roots():
            stack = [root]
            while stack:
                n = stack.pop()
                if id(n) in self.skip:
                    continue
                if isinstance(n, (ast.FunctionDef, ast.AsyncFunctionDef,
                                  ast.ClassDef, ast.Lambda)) and n is not root:
                    continue
                yield n
                if must:
                    if isinstance(n, ast.BoolOp):
                        stack.append(n.values[0])
                        continue
                    if isinstance(n, ast.IfExp):
                        stack.append(n.test)
                        continue
                    if isinstance(n, (ast.ListComp, ast.SetComp,
                                      ast.GeneratorExp, ast.DictComp)):
                        stack.append(n.generators[0].iter)
                        continue
                stack.extend(reversed(list(ast.iter_child_nodes(n))))

    def calls(self, must=False) -> List[ast.Call]:
        return [n for n in self.walk(must) if isinstance(n, ast.Call)]

    @property
    def lineno(self):
        for a in (self.ast, self.stmt):
            ln = getattr(a, 'lineno', None)
            if ln is None and isinstance(a, ast.withitem):
                ln = getattr(a.context_expr, 'lineno', None)
            if ln is not None:
                return ln
        return 0

    def text(self):
        if self.ast is None:
            return self.kind.upper()
        if self.kind == 'for':
            return 'for %s in ...' % unparse(self.ast.target)
        if self.kind == 'with':
            return 'with %s' % unparse(self.ast.context_expr)
        if self.kind == 'except':
            return 'except %s' % (unparse(self.ast.type)
                                  if self.ast.type is not None else '')
        if self.kind == 'def':
            return 'def %s' % self.ast.name
        s = ' '.join(unparse(self.ast).split())
        return s if len(s) <= 100 else s[:97] + '...'

    def __repr__(self):
        return '<N%d %s L%d %s>' % (self.id, self.kind, self.lineno,
                                    self.text()[:50])


class _Ctx(object):
    __slots__ = ('brk', 'cont', 'exc', 'ret', 'region')

    def __init__(self, brk, cont, exc, ret, region=()):
        self.brk, self.cont, self.exc, self.ret = brk, cont, exc, ret
        self.region = region

    def replace(self, **kw):
        c = _Ctx(self.brk, self.cont, self.exc, self.ret, self.region)
        for k, v in kw.items():
            setattr(c, k, v)
        return c


class _Lazy(object):
    """A continuation built on first use (finally copies)."""

    def __init__(self, thunk):
        self._thunk = thunk
        self._node = None

    def get(self):
        if self._node is None:
            self._node = self._thunk()
        return self._node


def _target(t):
    return t.get() if isinstance(t, _Lazy) else t


_MAY_RAISE = (ast.Call, ast.Raise, ast.Await, ast.Yield, ast.YieldFrom)


class CFG(object):
    def __init__(self, funcnode: ast.AST):
        self.func = funcnode
        self.nodes: List[Node] = []
        self.entry = self._new('entry')
        self.exit = self._new('exit')        # RETURN-EXIT
        self.exc_exit = self._new('raise')   # EXC-EXIT
        ctx = _Ctx(None, None, self.exc_exit, self.exit)
        body = funcnode.body if not isinstance(funcnode, ast.Lambda) else []
        first = self._stmts(body, self.exit, ctx)
        self._edge(self.entry, first, 'next')
        self._prune()

    # -- construction --------------------------------------------------------
    def _new(self, kind, astnode=None, stmt=None, note=''):
        n = Node(len(self.nodes), kind, astnode, stmt, note)
        self.nodes.append(n)
        return n

    def _edge(self, a: Node, b, label='next'):
        b = _target(b)
        if b is None:
            return
        for (x, l) in a.succ:
            if x is b and l == label:
                return
        a.succ.append((b, label))
        b.pred.append((a, label))

    def _exc(self, n: Node, ctx: _Ctx):
        n.region = ctx.region
        for x in n.walk():
            if isinstance(x, _MAY_RAISE):
                self._edge(n, ctx.exc, 'exc')
                return

    def _stmts(self, stmts, nxt, ctx) -> Node:
        cur = nxt
        for st in reversed(stmts):
            cur = self._stmt(st, cur, ctx)
        return _target(cur)

    # expression expansion ---------------------------------------------------
    def _branch(self, expr, t, f, ctx, stmt) -> Node:
        """Build nodes evaluating *expr* as a condition; return entry.
        Conditions of assert statements get kind 'assert' (they are not
        control decisions of the program: rules that enumerate the tests a
        statement depends on must not see them)."""
        if isinstance(expr, ast.BoolOp):
            is_or = isinstance(expr.op, ast.Or)
            nxt_entry = None
            for i, v in reversed(list(enumerate(expr.values))):
                if i == len(expr.values) - 1:
                    nxt_entry = self._branch(v, t, f, ctx, stmt)
                elif is_or:
                    nxt_entry = self._branch(v, t, nxt_entry, ctx, stmt)
                else:
                    nxt_entry = self._branch(v, nxt_entry, f, ctx, stmt)
            return nxt_entry
        if isinstance(expr, ast.UnaryOp) and isinstance(expr.op, ast.Not):
            return self._branch(expr.operand, f, t, ctx, stmt)
        if isinstance(expr, ast.IfExp):
            b = self._branch(expr.body, t, f, ctx, stmt)
            o = self._branch(expr.orelse, t, f, ctx, stmt)
            return self._branch(expr.test, b, o, ctx, stmt)
        n = self._new('assert' if isinstance(stmt, ast.Assert) else 'test',
                      expr, stmt)
        self._edge(n, t, 'T')
        self._edge(n, f, 'F')
        self._exc(n, ctx)
        return n

    def _value(self, expr, join, ctx, stmt, owner: Node) -> Node:
        """Build nodes evaluating *expr* for its value, then go to *join*.
        Operand sub-expressions are removed from *owner*'s attribution."""
        if isinstance(expr, ast.BoolOp):
            is_or = isinstance(expr.op, ast.Or)
            entry = self._value(expr.values[-1], join, ctx, stmt, owner)
            for v in reversed(expr.values[:-1]):
                if is_or:
                    entry = self._branch_value(v, join, entry, ctx, stmt,
                                               owner)
                else:
                    entry = self._branch_value(v, entry, join, ctx, stmt,
                                               owner)
            return entry
        if isinstance(expr, ast.IfExp):
            b = self._value(expr.body, join, ctx, stmt, owner)
            o = self._value(expr.orelse, join, ctx, stmt, owner)
            owner.skip.add(id(expr.test))
            return self._branch(expr.test, b, o, ctx, stmt)
        owner.skip.add(id(expr))
        n = self._new('operand', expr, stmt)
        self._edge(n, join, 'next')
        self._exc(n, ctx)
        return n

    def _branch_value(self, expr, t, f, ctx, stmt, owner) -> Node:
        owner.skip.add(id(expr))
        return self._branch(expr, t, f, ctx, stmt)

    @staticmethod
    def _expandable(expr):
        while isinstance(expr, ast.UnaryOp) and isinstance(expr.op, ast.Not):
            expr = expr.operand
        return isinstance(expr, (ast.BoolOp, ast.IfExp))

    # statements ---------------------------------------------------------------
    def _simple(self, st, nxt, ctx, value=None) -> Node:
        n = self._new('stmt', st)
        self._edge(n, nxt, 'next')
        entry = n
        if value is not None and isinstance(value, (ast.BoolOp, ast.IfExp)):
            entry = self._value(value, n, ctx, st, n)
        self._exc(n, ctx)
        return entry

    def _stmt(self, st, nxt, ctx) -> Node:
        nxt = _target(nxt)
        if isinstance(st, ast.If):
            body = self._stmts(st.body, nxt, ctx)
            orelse = self._stmts(st.orelse, nxt, ctx) if st.orelse else nxt
            return self._branch(st.test, body, orelse, ctx, st)
        if isinstance(st, ast.While):
            head = self._new('loop', None, st, note='while-head')
            after = nxt
            orelse = self._stmts(st.orelse, after, ctx) if st.orelse else after
            bctx = ctx.replace(brk=after, cont=head)
            body = self._stmts(st.body, head, bctx)
            test = self._branch(st.test, body, orelse, ctx, st)
            self._edge(head, test, 'next')
            return head
        if isinstance(st, (ast.For, ast.AsyncFor)):
            it = self._new('iter', st.iter, st)
            head = self._new('for', st, st)
            self._edge(it, head, 'next')
            self._exc(it, ctx)
            after = nxt
            orelse = self._stmts(st.orelse, after, ctx) if st.orelse else after
            bctx = ctx.replace(brk=after, cont=head)
            body = self._stmts(st.body, head, bctx)
            self._edge(head, body, 'T')
            self._edge(head, orelse, 'F')
            head.region = ctx.region
            self._edge(head, ctx.exc, 'exc')  # iterator may raise
            return it
        if isinstance(st, (ast.With, ast.AsyncWith)):
            wexit = self._new('with_exit', None, st)
            self._edge(wexit, nxt, 'next')
            wexit.region = ctx.region
            body = self._stmts(st.body, wexit, ctx)
            cur = body
            for item in reversed(st.items):
                n = self._new('with', item, st)
                self._edge(n, cur, 'next')
                self._exc(n, ctx)
                cur = n
            return cur
        if isinstance(st, ast.Try) or st.__class__.__name__ == 'TryStar':
            return self._try(st, nxt, ctx)
        if isinstance(st, ast.Return):
            n = self._new('stmt', st)
            self._edge(n, ctx.ret, 'next')
            entry = n
            if st.value is not None and self._expandable_value(st.value):
                entry = self._value(st.value, n, ctx, st, n)
            self._exc(n, ctx)
            return entry
        if isinstance(st, ast.Raise):
            n = self._new('stmt', st)
            n.region = ctx.region
            self._edge(n, ctx.exc, 'exc')
            return n
        if isinstance(st, ast.Break):
            n = self._new('stmt', st)
            self._edge(n, ctx.brk, 'next')
            return n
        if isinstance(st, ast.Continue):
            n = self._new('stmt', st)
            self._edge(n, ctx.cont, 'next')
            return n
        if isinstance(st, ast.Assert):
            fail = self._new('stmt', st, st, note='assert-fail')
            fail.skip.add(id(st.test))
            fail.region = ctx.region
            self._edge(fail, ctx.exc, 'exc')
            return self._branch(st.test, nxt, fail, ctx, st)
        if isinstance(st, (ast.FunctionDef, ast.AsyncFunctionDef,
                           ast.ClassDef)):
            n = self._new('def', st)
            self._edge(n, nxt, 'next')
            self._exc(n, ctx)
            return n
        if isinstance(st, ast.Assign):
            return self._simple(st, nxt, ctx, st.value)
        if isinstance(st, ast.AugAssign):
            return self._simple(st, nxt, ctx, st.value)
        if isinstance(st, ast.AnnAssign):
            return self._simple(st, nxt, ctx, st.value)
        if isinstance(st, ast.Expr):
            return self._simple(st, nxt, ctx, st.value)
        return self._simple(st, nxt, ctx)

    @staticmethod
    def _expandable_value(v):
        return isinstance(v, (ast.BoolOp, ast.IfExp))

    def _try(self, st, nxt, ctx) -> Node:
        has_finally = bool(st.finalbody)
        outer = ctx
        if has_finally:
            def fin(cont, label):
                return _Lazy(lambda: self._stmts(st.finalbody, cont, outer)
                             if cont is not None else None)
            after = self._stmts(st.finalbody, nxt, outer)
            inner = outer.replace(
                exc=fin(outer.exc, 'exc'),
                ret=fin(outer.ret, 'ret'),
                brk=fin(outer.brk, 'brk') if outer.brk is not None else None,
                cont=fin(outer.cont, 'cont') if outer.cont is not None
                else None)
        else:
            after = nxt
            inner = outer
        # handlers
        dispatch = inner.exc
        for h in reversed(st.handlers):
            hn = self._new('except', h, st)
            hbody = self._stmts(h.body, after, inner)
            self._edge(hn, hbody, 'T')
            catches_all = h.type is None or (
                isinstance(h.type, ast.Name) and
                h.type.id == 'BaseException')
            if not catches_all:
                self._edge(hn, dispatch, 'F')
            hn.region = inner.region
            dispatch = hn
        orelse = self._stmts(st.orelse, after, inner) if st.orelse else after
        bctx = inner.replace(exc=dispatch, region=inner.region + (id(st),))
        return self._stmts(st.body, orelse, bctx)

    def _prune(self):
        """Drop nodes unreachable from entry (lazy finally copies, dead code)."""
        seen = set()
        work = [self.entry]
        while work:
            n = work.pop()
            if n.id in seen:
                continue
            seen.add(n.id)
            work.extend(s for s, _ in n.succ)
        keep = [n for n in self.nodes if n.id in seen or
                n in (self.exit, self.exc_exit)]
        for n in keep:
            n.pred = [(p, l) for p, l in n.pred if p.id in seen]
        self.dead = [n for n in self.nodes if n.id not in seen and
                     n not in (self.exit, self.exc_exit)]
        self.nodes = keep

    # -- queries ---------------------------------------------------------------
    def find(self, pred: Callable[[ast.AST], bool], must=False) -> List[Node]:
        out = []
        for n in self.nodes:
            for a in n.walk(must):
                if pred(a):
                    out.append(n)
                    break
        return out

    def find_calls(self, name_pred, must=False) -> List[tuple]:
        """[(node, call)] for calls whose dotted callee satisfies name_pred
        (name_pred gets (dotted_or_None, last_component, call))."""
        from .program import dotted, call_name
        out = []
        for n in self.nodes:
            for a in n.walk(must):
                if isinstance(a, ast.Call) and \
                        name_pred(dotted(a.func), call_name(a), a):
                    out.append((n, a))
        return out

    def succs(self, n: Node, follow_exc=True, drop_edges=()):
        for s, l in n.succ:
            if l == 'exc' and not follow_exc:
                continue
            if (n.id, s.id, l) in drop_edges or (n.id, l) in drop_edges:
                continue
            yield s

    def reachable(self, src: Iterable[Node], avoid: Iterable[Node] = (),
                  follow_exc=True, drop_edges=()) -> Set[int]:
        """ids of nodes reachable from any src (src included) without
        *entering* a node in avoid."""
        avoid_ids = {a.id for a in avoid}
        seen: Set[int] = set()
        work = [s for s in src if s.id not in avoid_ids]
        while work:
            n = work.pop()
            if n.id in seen:
                continue
            seen.add(n.id)
            for s in self.succs(n, follow_exc, drop_edges):
                if s.id not in avoid_ids and s.id not in seen:
                    work.append(s)
        return seen

    def path(self, src: Node, dst: Node, avoid: Iterable[Node] = (),
             follow_exc=True, drop_edges=()) -> Optional[List[Node]]:
        """A shortest path src→dst avoiding nodes, or None."""
        avoid_ids = {a.id for a in avoid}
        if src.id in avoid_ids:
            return None
        prev: Dict[int, Optional[Node]] = {src.id: None}
        byid = {n.id: n for n in self.nodes}
        work = [src]
        while work:
            nxt = []
            for n in work:
                if n is dst:
                    out = []
                    cur = n
                    while cur is not None:
                        out.append(cur)
                        cur = prev[cur.id]
                    return list(reversed(out))
                for s in self.succs(n, follow_exc, drop_edges):
                    if s.id in avoid_ids and s is not dst:
                        continue
                    if s.id not in prev:
                        prev[s.id] = n
                        nxt.append(s)
            work = nxt
        return None

    def must_pass(self, src: Node, dst: Node, via: Iterable[Node],
                  follow_exc=True) -> Optional[List[Node]]:
        """None if every path src→dst passes through some node in via;
        otherwise a witness path that avoids them."""
        via = [v for v in via if v is not src and v is not dst]
        return self.path(src, dst, avoid=via, follow_exc=follow_exc)

    def dominators(self, follow_exc=True) -> Dict[int, Set[int]]:
        ids = [n.id for n in self.nodes]
        reach = self.reachable([self.entry], follow_exc=follow_exc)
        dom = {i: set(reach) for i in reach}
        dom[self.entry.id] = {self.entry.id}
        byid = {n.id: n for n in self.nodes}
        changed = True
        order = [i for i in ids if i in reach and i != self.entry.id]
        while changed:
            changed = False
            for i in order:
                n = byid[i]
                preds = [p.id for p, l in n.pred
                         if p.id in reach and (follow_exc or l != 'exc')]
                if not preds:
                    new = {i}
                else:
                    new = set.intersection(*(dom[p] for p in preds)) | {i}
                if new != dom[i]:
                    dom[i] = new
                    changed = True
        return dom

    def path_with_flags(self, src: Node, dst: Node, avoid: Iterable[Node] = (),
                        follow_exc=False, env=None) -> Optional[List[Node]]:
        """Like path(), but tracks local names that are assigned the
        constants True/False/None along the way and prunes the branch of a
        test `if name` / `if not name` / `name is [not] None` that the
        tracked value rules out (boolean flag idiom: the handler sets
        `changed = True`, the statement after the try tests it).  States are
        (node, frozenset(env)); any other assignment to a tracked name makes
        it unknown again."""
        avoid_ids = {a.id for a in avoid}
        if src.id in avoid_ids:
            return None
        start = (src.id, frozenset((env or {}).items()))
        prev = {start: None}
        byid = {n.id: n for n in self.nodes}
        work = [start]

        def transfer(n, e):
            e = dict(e)
            a = n.ast if n.kind == 'stmt' else None
            if isinstance(a, (ast.Assign, ast.AugAssign, ast.AnnAssign)):
                tg = a.targets if isinstance(a, ast.Assign) else [a.target]
                for t in tg:
                    for x in ast.walk(t):
                        if isinstance(x, ast.Name):
                            if isinstance(a, ast.Assign) and t is x and \
                                    isinstance(a.value, ast.Constant) and \
                                    (a.value.value is None or
                                     isinstance(a.value.value, bool)):
                                e[x.id] = a.value.value
                            else:
                                e.pop(x.id, None)
            elif n.kind in ('for', 'with', 'except') and n.ast is not None:
                for r in n.roots():
                    for x in ast.walk(r):
                        if isinstance(x, ast.Name) and \
                                isinstance(x.ctx, ast.Store):
                            e.pop(x.id, None)
            return e

        def verdict(t, e):
            """True/False when the test's outcome is known under e."""
            a = t.ast
            neg = False
            while isinstance(a, ast.UnaryOp) and isinstance(a.op, ast.Not):
                a, neg = a.operand, not neg
            v = None
            if isinstance(a, ast.Name) and a.id in e:
                v = bool(e[a.id])
            elif isinstance(a, ast.Compare) and len(a.ops) == 1 and \
                    isinstance(a.left, ast.Name) and a.left.id in e and \
                    isinstance(a.comparators[0], ast.Constant) and \
                    a.comparators[0].value is None and \
                    isinstance(a.ops[0], (ast.Is, ast.IsNot)):
                v = (e[a.left.id] is None) == isinstance(a.ops[0], ast.Is)
            if v is None:
                return None
            return v != neg

        while work:
            nxt = []
            for st in work:
                nid, fe = st
                n = byid[nid]
                if n is dst:
                    out, cur = [], st
                    while cur is not None:
                        out.append(byid[cur[0]])
                        cur = prev[cur]
                    return list(reversed(out))
                e = transfer(n, dict(fe))
                known = verdict(n, e) if n.kind in ('test', 'operand') \
                    else None
                for s, l in n.succ:
                    if l == 'exc' and not follow_exc:
                        continue
                    if known is True and l == 'F':
                        continue
                    if known is False and l == 'T':
                        continue
                    if s.id in avoid_ids and s is not dst:
                        continue
                    ns = (s.id, frozenset(e.items()))
                    if ns not in prev:
                        prev[ns] = st
                        nxt.append(ns)
            work = nxt
        return None

    def dominates(self, a: Node, b: Node, follow_exc=True) -> bool:
        """Every path entry→b passes through a."""
        if a is b:
            return True
        return self.path(self.entry, b, avoid=[a],
                         follow_exc=follow_exc) is None

    def guarded_by(self, n: Node, test: Node, label: str,
                   follow_exc=True) -> bool:
        """n is reachable only via edge (test --label-->)."""
        drop = {(test.id, label)}
        return n.id not in self.reachable([self.entry], follow_exc=follow_exc,
                                          drop_edges=drop)

    def in_loop(self, n: Node, follow_exc=False) -> bool:
        r = set()
        for s in self.succs(n, follow_exc):
            r |= self.reachable([s], follow_exc=follow_exc)
        return n.id in r

    def dump(self) -> str:
        lines = []
        for n in self.nodes:
            lines.append('%3d %-9s L%-4d %-60s -> %s' % (
                n.id, n.kind, n.lineno, n.text()[:60],
                ', '.join('%d:%s' % (s.id, l) for s, l in n.succ)))
        return '\n'.join(lines)


def fmt_path(path: List[Node]) -> List[str]:
    return ['L%d %s' % (n.lineno, n.text()) for n in path
            if n.kind not in ('loop', 'with_exit')]
