"""Small matchers shared by the rule modules."""
from __future__ import annotations

import ast
from typing import Iterator, List, Optional, Tuple

from .cfg import CFG, Node
from .program import (Func, Program, call_name, const_str, dotted, kwarg,
                      unparse, walk_no_nested)


def calls_named(func_or_node, name: str) -> List[ast.Call]:
    node = func_or_node.node if isinstance(func_or_node, Func) else func_or_node
    return [n for n in walk_no_nested(node, include_lambda=True)
            if isinstance(n, ast.Call) and call_name(n) == name]


def calls_dotted(func_or_node, dotted_name: str) -> List[ast.Call]:
    node = func_or_node.node if isinstance(func_or_node, Func) else func_or_node
    return [n for n in walk_no_nested(node, include_lambda=True)
            if isinstance(n, ast.Call) and dotted(n.func) == dotted_name]


def is_self_attr(node, attr=None, base='self') -> bool:
    return (isinstance(node, ast.Attribute) and
            isinstance(node.value, ast.Name) and node.value.id == base and
            (attr is None or node.attr == attr))


def node_of(cfg: CFG, astnode: ast.AST) -> Optional[Node]:
    """CFG node to which an ast (sub)expression is attributed."""
    for n in cfg.nodes:
        for a in n.walk():
            if a is astnode:
                return n
    return None


def nodes_with_call(cfg: CFG, name: str = None, dotted_name: str = None,
                    must=False) -> List[Tuple[Node, ast.Call]]:
    out = []
    for n in cfg.nodes:
        for a in n.walk(must):
            if isinstance(a, ast.Call):
                if name is not None and call_name(a) != name:
                    continue
                if dotted_name is not None and dotted(a.func) != dotted_name:
                    continue
                out.append((n, a))
    return out


def signal_sends(cfg: CFG, signal: str) -> List[Tuple[Node, ast.Call]]:
    """<signal>.send(...) / send_robust call nodes."""
    out = []
    for n in cfg.nodes:
        for a in n.walk():
            if isinstance(a, ast.Call) and isinstance(a.func, ast.Attribute) \
                    and a.func.attr in ('send', 'send_robust') and \
                    dotted(a.func.value) == signal:
                out.append((n, a))
    return out


def assigns_to_self_attr(cfg: CFG, attr: str) -> List[Node]:
    out = []
    for n in cfg.nodes:
        a = n.ast
        if n.kind == 'stmt' and isinstance(a, ast.Assign):
            for t in a.targets:
                if is_self_attr(t, attr):
                    out.append(n)
    return out


def for_heads(cfg: CFG) -> List[Node]:
    return [n for n in cfg.nodes if n.kind == 'for']


def loop_body_ids(cfg: CFG, head: Node) -> set:
    """Nodes inside the loop of a for-head: reachable from its T successor
    and able to reach the head again (normal edges)."""
    body = set()
    for s, l in head.succ:
        if l == 'T':
            body |= cfg.reachable([s], avoid=[head], follow_exc=False)
    out = set()
    for nid in body:
        n = next(x for x in cfg.nodes if x.id == nid)
        if head.id in cfg.reachable([n], follow_exc=False):
            out.add(nid)
    return out


def str_constants(node) -> Iterator[ast.Constant]:
    for n in ast.walk(node):
        if isinstance(n, ast.Constant) and isinstance(n.value, str):
            yield n


def compare_consts(test: ast.AST, var_pred) -> List[str]:
    """String constants compared with ==/in against an expression accepted
    by var_pred inside a test expression."""
    out = []
    for n in ast.walk(test):
        if isinstance(n, ast.Compare) and len(n.ops) == 1:
            l, r = n.left, n.comparators[0]
            if isinstance(n.ops[0], (ast.Eq, ast.Is)):
                if var_pred(l) and const_str(r) is not None:
                    out.append(const_str(r))
                elif var_pred(r) and const_str(l) is not None:
                    out.append(const_str(l))
            elif isinstance(n.ops[0], ast.In):
                if var_pred(l) and isinstance(r, (ast.Tuple, ast.List,
                                                  ast.Set)):
                    out += [const_str(e) for e in r.elts
                            if const_str(e) is not None]
                elif const_str(l) is not None and var_pred(r):
                    out.append(const_str(l))
    return out


def if_chain(stmts: List[ast.stmt]) -> Iterator[Tuple[ast.expr, List[ast.stmt]]]:
    """Flatten if/elif/else chains in a statement list: yields
    (test or None for else, body)."""
    for st in stmts:
        if isinstance(st, ast.If):
            cur = st
            while True:
                yield cur.test, cur.body
                if len(cur.orelse) == 1 and isinstance(cur.orelse[0], ast.If):
                    cur = cur.orelse[0]
                    continue
                if cur.orelse:
                    yield None, cur.orelse
                break


def dict_literal_keys(d: ast.Dict) -> List[str]:
    return [const_str(k) for k in d.keys if k is not None and
            const_str(k) is not None]


def subscript_const(node) -> Optional[str]:
    """'k' for x['k']"""
    if isinstance(node, ast.Subscript):
        return const_str(node.slice)
    return None


def cursor_execute_calls(cfg: CFG):
    """[(node, call)] for DB-API cursor.execute(...) calls: an .execute()
    whose receiver is (or was bound from) a *cursor* attribute / cursor()."""
    out = []
    bound = set()
    for n in cfg.nodes:
        a = n.ast
        if n.kind == 'stmt' and isinstance(a, ast.Assign):
            v = unparse(a.value)
            if v.endswith('._cursor') or v.endswith('.cursor()') or \
                    v.endswith('.cursor'):
                for t in a.targets:
                    if isinstance(t, ast.Name):
                        bound.add(t.id)
    for n in cfg.nodes:
        for c in n.walk():
            if isinstance(c, ast.Call) and isinstance(c.func, ast.Attribute) \
                    and c.func.attr == 'execute':
                r = c.func.value
                txt = unparse(r)
                if (isinstance(r, ast.Name) and (r.id in bound or
                                                 'cursor' in r.id)) or \
                        txt.endswith('_cursor') or txt.endswith('.cursor'):
                    out.append((n, c))
    return out


# ---------------------------------------------------------------------------
# wrapper summaries: a function together with the private same-class /
# same-module helpers it calls (inlining bound 2).  "Extract method" is the
# most common behaviour-preserving refactoring; rules that look for a
# construct inside an anchored function look inside its unit.
# ---------------------------------------------------------------------------

def unit(ctx, f: Func, depth: int = 2) -> List[Func]:
    out = [f]
    seen = {f.fq}
    frontier = [(f, 0)]
    while frontier:
        cur, d = frontier.pop(0)
        if d >= depth:
            continue
        for c in walk_no_nested(cur.node, include_lambda=True):
            if not isinstance(c, ast.Call):
                continue
            name = call_name(c)
            if not name or not name.startswith('_') or name.startswith('__'):
                continue
            recv_ok = isinstance(c.func, ast.Name) or (
                isinstance(c.func, ast.Attribute) and
                isinstance(c.func.value, ast.Name) and
                c.func.value.id in ('self', 'cls'))
            if not recv_ok:
                continue
            targets, prec = ctx.program.resolve_call(cur, c)
            for t in targets:
                if t.fq in seen or t.module is not f.module:
                    continue
                if f.cls is not None and t.cls is not None and \
                        not (f.cls.is_subclass_of(t.cls) or
                             t.cls.is_subclass_of(f.cls)):
                    continue
                seen.add(t.fq)
                out.append(t)
                frontier.append((t, d + 1))
    return out


def unit_walk(ctx, f: Func, depth: int = 2):
    """(func, ast node) over the unit of f."""
    for g in unit(ctx, f, depth):
        for n in walk_no_nested(g.node, include_lambda=True):
            yield g, n


def helper_contains(ctx, f: Func, call: ast.Call, pred, depth: int = 2) -> bool:
    """Does the private helper invoked by *call* (transitively, bound 2)
    contain an ast node satisfying pred?"""
    name = call_name(call)
    if not name or not name.startswith('_') or name.startswith('__'):
        return False
    targets, prec = ctx.program.resolve_call(f, call)
    for t in targets:
        if t.module is not f.module:
            continue
        for g in unit(ctx, t, depth - 1):
            for n in walk_no_nested(g.node, include_lambda=True):
                if pred(n):
                    return True
    return False


def nodes_emitting(ctx, f: Func, cfg: CFG, pred) -> List[Node]:
    """CFG nodes of f that evaluate an ast node satisfying pred, directly or
    inside a private helper they call."""
    out = []
    for n in cfg.nodes:
        hit = False
        for a in n.walk():
            if pred(a):
                hit = True
                break
            if isinstance(a, ast.Call) and helper_contains(ctx, f, a, pred):
                hit = True
                break
        if hit:
            out.append(n)
    return out


def param_argument(ctx, caller: Func, helper: Func, param: str):
    """The argument expressions passed for *param* at caller's call sites of
    helper."""
    out = []
    params = helper.params
    if helper.cls is not None and params and params[0] in ('self', 'cls'):
        params = params[1:]
    for c in walk_no_nested(caller.node, include_lambda=True):
        if isinstance(c, ast.Call) and call_name(c) == helper.name:
            v = kwarg(c, param)
            if v is None and param in params and \
                    params.index(param) < len(c.args):
                v = c.args[params.index(param)]
            if v is not None:
                out.append(v)
    return out


def single_assignment(func, name: str) -> Optional[ast.AST]:
    """The value of local *name* when it is bound exactly once in func, by a
    plain `name = value` statement (copy propagation for temporaries that a
    refactoring introduces); None otherwise."""
    fn = func.node if hasattr(func, 'node') else func
    stores, value = 0, None
    for n in ast.walk(fn):
        if isinstance(n, ast.Name) and n.id == name and \
                isinstance(n.ctx, (ast.Store, ast.Del)):
            stores += 1
        elif isinstance(n, ast.ExceptHandler) and n.name == name:
            stores += 1
        if isinstance(n, ast.Assign) and len(n.targets) == 1 and \
                isinstance(n.targets[0], ast.Name) and n.targets[0].id == name:
            value = n.value
    if name in getattr(func, 'params', []):
        return None
    return value if stores == 1 else None


def through_copies(func, expr, steps: int = 3):
    """Follow single-assignment local copies: x -> value of `x = value`."""
    for _ in range(steps):
        if isinstance(expr, ast.Name):
            v = single_assignment(func, expr.id)
            if v is None:
                break
            expr = v
        else:
            break
    return expr


class _Expand(ast.NodeTransformer):
    def __init__(self, func, depth):
        self.func, self.depth = func, depth

    def visit_Name(self, node):
        if isinstance(node.ctx, ast.Load) and self.depth > 0:
            v = single_assignment(self.func, node.id)
            if v is not None:
                import copy
                return _Expand(self.func, self.depth - 1).visit(
                    copy.deepcopy(v))
        return node


def expand_expr(func, expr, depth: int = 4):
    """A copy of expr in which every local that is bound exactly once by a
    plain assignment is replaced by its value (recursively, bounded)."""
    import copy
    return _Expand(func, depth).visit(copy.deepcopy(expr))


def none_edges(g, var_text: str):
    """[(test node, label)]: the CFG edges on which the expression whose
    source text is var_text is known to be None / falsy (`x is None` true
    edge, `x is not None` / `x` false edge, with any number of `not`)."""
    out = []
    for t in g.nodes:
        if t.kind not in ('test', 'operand') or t.ast is None:
            continue
        a, neg = t.ast, False
        while isinstance(a, ast.UnaryOp) and isinstance(a.op, ast.Not):
            a, neg = a.operand, not neg
        if isinstance(a, ast.Compare) and len(a.ops) == 1 and \
                ast.unparse(a.left) == var_text and \
                ast.unparse(a.comparators[0]) == 'None' and \
                isinstance(a.ops[0], (ast.Is, ast.IsNot, ast.Eq, ast.NotEq)):
            is_none = isinstance(a.ops[0], (ast.Is, ast.Eq))
            out.append((t, 'T' if is_none != neg else 'F'))
        elif ast.unparse(a) == var_text:
            out.append((t, 'T' if neg else 'F'))
    return out
