"""Loader, symbol tables, class hierarchy and call resolution.

Everything here *parses* source; nothing is imported or executed.
"""
from __future__ import annotations

import ast
import os
from typing import Dict, Iterable, Iterator, List, Optional, Tuple

PACKAGE = 'django_evolution'


class AnalysisError(Exception):
    """The analysis itself is broken (anchor vanished, floor not met)."""


class AnchorMissing(AnalysisError):
    pass


# ---------------------------------------------------------------------------
# helpers over ast
# ---------------------------------------------------------------------------

def dotted(node) -> Optional[str]:
    """Return 'a.b.c' for Name/Attribute chains, else None."""
    parts = []
    while isinstance(node, ast.Attribute):
        parts.append(node.attr)
        node = node.value
    if isinstance(node, ast.Name):
        parts.append(node.id)
        return '.'.join(reversed(parts))
    return None


def call_name(call: ast.Call) -> Optional[str]:
    """Last component of the callee ('f' for f(), 'm' for x.y.m())."""
    f = call.func
    if isinstance(f, ast.Name):
        return f.id
    if isinstance(f, ast.Attribute):
        return f.attr
    return None


def const_str(node) -> Optional[str]:
    if isinstance(node, ast.Constant) and isinstance(node.value, str):
        return node.value
    return None


def unparse(node) -> str:
    try:
        return ast.unparse(node)
    except Exception:  # pragma: no cover
        return '<%s>' % type(node).__name__


def norm_key(node) -> str:
    """Normalised construct key: unparsed text, whitespace collapsed,
    truncated.  Never contains a line number."""
    s = ' '.join(unparse(node).split())
    if len(s) > 160:
        s = s[:157] + '...'
    return s


def walk_no_nested(node, include_lambda=False) -> Iterator[ast.AST]:
    """ast.walk that does not descend into nested function/class defs."""
    stack = [node]
    first = True
    while stack:
        n = stack.pop()
        if not first and isinstance(n, (ast.FunctionDef, ast.AsyncFunctionDef,
                                        ast.ClassDef)):
            continue
        if not first and not include_lambda and isinstance(n, ast.Lambda):
            continue
        first = False
        yield n
        stack.extend(reversed(list(ast.iter_child_nodes(n))))


def kwarg(call: ast.Call, name: str):
    for kw in call.keywords:
        if kw.arg == name:
            return kw.value
    return None


# ---------------------------------------------------------------------------
# program model
# ---------------------------------------------------------------------------

EXTERNAL_RECEIVERS = {
    # DB-API / Django objects: never package classes
    'cursor', '_cursor', 'connection', '_connection', 'connections',
    'stdout', 'stderr', 'logger', 'logging', 'os', 'recorder',
    'schema_editor', 'introspection', 'ops', 'creation', 'style', 'fp',
    'transaction', 'models', 'settings', 'six', 'copy', 're', 'itertools',
}


def _compatible(m: 'Func', call: ast.Call) -> bool:
    """Could *call* bind to method *m* (arity / keyword names)?"""
    a = m.node.args
    is_static = 'staticmethod' in (m.decorators or [])
    pos = [x.arg for x in a.posonlyargs + a.args]
    if not is_static and pos:
        pos = pos[1:]
    kwonly = [x.arg for x in a.kwonlyargs]
    if any(isinstance(x, ast.Starred) for x in call.args) or \
            any(k.arg is None for k in call.keywords):
        return True
    npos = len(call.args)
    if npos > len(pos) and a.vararg is None:
        return False
    for k in call.keywords:
        if k.arg not in pos and k.arg not in kwonly and a.kwarg is None:
            return False
    # required params must be supplied
    ndefaults = len(a.defaults)
    required = pos[:len(pos) - ndefaults] if ndefaults else pos
    supplied = set(pos[:npos]) | {k.arg for k in call.keywords}
    for r in required:
        if r not in supplied:
            return False
    return True


class Func(object):
    """A function or method."""

    def __init__(self, module, node, cls=None, outer=None):
        self.module = module
        self.node = node
        self.cls = cls
        self.outer = outer
        self.name = node.name
        if cls is not None:
            self.qualname = '%s.%s' % (cls.name, node.name)
        elif outer is not None:
            self.qualname = '%s.<locals>.%s' % (outer.qualname, node.name)
        else:
            self.qualname = node.name
        self.decorators = [dotted(d) or dotted(getattr(d, 'func', None))
                           for d in node.decorator_list]

    @property
    def fq(self):
        return '%s:%s' % (self.module.name, self.qualname)

    @property
    def params(self) -> List[str]:
        a = self.node.args
        names = [x.arg for x in a.posonlyargs + a.args]
        if a.vararg:
            names.append(a.vararg.arg)
        names += [x.arg for x in a.kwonlyargs]
        if a.kwarg:
            names.append(a.kwarg.arg)
        return names

    def loc(self, node=None) -> str:
        n = node if node is not None else self.node
        return '%s:%d' % (self.module.relpath, getattr(n, 'lineno', 0))

    def __repr__(self):
        return '<Func %s>' % self.fq


class Class(object):
    def __init__(self, module, node):
        self.module = module
        self.node = node
        self.name = node.name
        self.methods: Dict[str, Func] = {}
        self.base_exprs = list(node.bases)
        self.bases: List['Class'] = []     # resolved package classes
        self.ext_bases: List[str] = []     # dotted names of unresolved bases
        self.subclasses: List['Class'] = []
        self.class_attrs: Dict[str, ast.AST] = {}
        self._mro = None
        for st in node.body:
            if isinstance(st, (ast.FunctionDef, ast.AsyncFunctionDef)):
                self.methods[st.name] = Func(module, st, cls=self)
            elif isinstance(st, ast.Assign):
                for t in st.targets:
                    if isinstance(t, ast.Name):
                        self.class_attrs[t.id] = st.value

    @property
    def fq(self):
        return '%s:%s' % (self.module.name, self.name)

    def mro(self) -> List['Class']:
        if self._mro is None:
            self._mro = _c3(self)
        return self._mro

    def find_method(self, name) -> Optional[Func]:
        for c in self.mro():
            if name in c.methods:
                return c.methods[name]
        return None

    def find_attr(self, name):
        """(class, value-node) of a class-level attribute through the MRO."""
        for c in self.mro():
            if name in c.class_attrs:
                return c, c.class_attrs[name]
        return None, None

    def all_subclasses(self) -> List['Class']:
        out, seen, stack = [], set(), list(self.subclasses)
        while stack:
            c = stack.pop()
            if id(c) in seen:
                continue
            seen.add(id(c))
            out.append(c)
            stack.extend(c.subclasses)
        return out

    def is_subclass_of(self, other: 'Class') -> bool:
        return other in self.mro()

    def init_attrs(self) -> Dict[str, ast.AST]:
        """self.<attr> = value assignments in __init__ (first binding)."""
        out: Dict[str, ast.AST] = {}
        init = self.methods.get('__init__')
        if not init:
            return out
        for n in walk_no_nested(init.node):
            targets = []
            if isinstance(n, ast.Assign):
                targets = [(t, n.value) for t in n.targets]
            elif isinstance(n, ast.AnnAssign) and n.value is not None:
                targets = [(n.target, n.value)]
            for t, v in targets:
                if (isinstance(t, ast.Attribute) and
                        isinstance(t.value, ast.Name) and t.value.id == 'self'):
                    out.setdefault(t.attr, v)
        return out

    def __repr__(self):
        return '<Class %s>' % self.fq


def _c3(cls: Class) -> List[Class]:
    def merge(seqs):
        res = []
        seqs = [list(s) for s in seqs if s]
        while seqs:
            for s in seqs:
                head = s[0]
                if not any(head in t[1:] for t in seqs):
                    break
            else:  # inconsistent; fall back to DFS order
                head = seqs[0][0]
            res.append(head)
            seqs = [[x for x in s if x is not head] for s in seqs]
            seqs = [s for s in seqs if s]
        return res
    return [cls] + merge([b.mro() for b in cls.bases] + [list(cls.bases)])


class _ConstRight(ast.NodeTransformer):
    """`CONST == x` / `CONST != x`  ->  `x == CONST` / `x != CONST` (the
    rules match comparisons with the constant on the right)."""

    def visit_Compare(self, node):
        self.generic_visit(node)
        if len(node.ops) == 1 and isinstance(node.ops[0], (ast.Eq, ast.NotEq)) \
                and isinstance(node.left, ast.Constant) and \
                not isinstance(node.comparators[0], ast.Constant):
            node.left, node.comparators = node.comparators[0], [node.left]
        return node


class Module(object):
    def __init__(self, name, path, relpath, source):
        self.name = name
        self.path = path
        self.relpath = relpath
        self.source = source
        self.tree = _ConstRight().visit(ast.parse(source, filename=path))
        self.functions: Dict[str, Func] = {}
        self.classes: Dict[str, Class] = {}
        # local name -> ('module', dotted) | ('symbol', module, name)
        self.imports: Dict[str, Tuple] = {}
        self.constants: Dict[str, ast.AST] = {}
        self._index()

    def _index(self):
        is_pkg = self.path.endswith('__init__.py')
        pkg_parts = self.name.split('.') if is_pkg else self.name.split('.')[:-1]
        for st in self._toplevel(self.tree.body):
            if isinstance(st, (ast.FunctionDef, ast.AsyncFunctionDef)):
                self.functions.setdefault(st.name, Func(self, st))
            elif isinstance(st, ast.ClassDef):
                self.classes.setdefault(st.name, Class(self, st))
            elif isinstance(st, ast.Import):
                for a in st.names:
                    local = a.asname or a.name.split('.')[0]
                    target = a.name if a.asname else a.name.split('.')[0]
                    self.imports[local] = ('module', target)
            elif isinstance(st, ast.ImportFrom):
                if st.level:
                    base = pkg_parts[:len(pkg_parts) - (st.level - 1)]
                    mod = '.'.join(base + ([st.module] if st.module else []))
                else:
                    mod = st.module or ''
                for a in st.names:
                    self.imports[a.asname or a.name] = ('symbol', mod, a.name)
            elif isinstance(st, ast.Assign):
                for t in st.targets:
                    if isinstance(t, ast.Name):
                        self.constants[t.id] = st.value

    def _toplevel(self, body):
        """Top-level statements, looking through try/if wrappers (version
        switches and optional imports are written that way in this repo)."""
        for st in body:
            if isinstance(st, ast.Try):
                for sub in (st.body, st.orelse, st.finalbody):
                    for x in self._toplevel(sub):
                        yield x
                for h in st.handlers:
                    for x in self._toplevel(h.body):
                        yield x
            elif isinstance(st, ast.If):
                for x in self._toplevel(st.body):
                    yield x
                for x in self._toplevel(st.orelse):
                    yield x
            else:
                yield st

    def all_funcs(self) -> Iterator[Func]:
        for f in self.functions.values():
            yield f
        for c in self.classes.values():
            for f in c.methods.values():
                yield f

    def __repr__(self):
        return '<Module %s>' % self.name


class Program(object):
    """All non-test modules of the package under a repository root."""

    def __init__(self, root='/repo', package=PACKAGE, exclude=('tests',),
                 reference='default'):
        self.root = os.path.abspath(root)
        self.package = package
        self.modules: Dict[str, Module] = {}
        self.alpha_renamed: List[Tuple[str, str, Dict[str, str]]] = []
        if reference == 'default':
            reference = os.path.join(os.path.dirname(os.path.dirname(
                os.path.abspath(__file__))), 'selftest', 'pristine')
        self.reference = reference if reference and os.path.isdir(
            os.path.join(reference, package)) else None
        pkg_dir = os.path.join(self.root, package)
        if not os.path.isdir(pkg_dir):
            raise AnchorMissing('package directory %s not found' % pkg_dir)
        for dirpath, dirnames, filenames in os.walk(pkg_dir):
            rel = os.path.relpath(dirpath, self.root)
            parts = rel.split(os.sep)
            dirnames[:] = sorted(d for d in dirnames
                                 if d not in exclude and d != '__pycache__')
            for fn in sorted(filenames):
                if not fn.endswith('.py'):
                    continue
                path = os.path.join(dirpath, fn)
                if fn == '__init__.py':
                    name = '.'.join(parts)
                else:
                    name = '.'.join(parts + [fn[:-3]])
                with open(path, 'r', encoding='utf-8') as fp:
                    src = fp.read()
                try:
                    self.modules[name] = Module(
                        name, path, os.path.relpath(path, self.root), src)
                except SyntaxError as e:
                    raise AnalysisError('cannot parse %s: %s' % (path, e))
        self.inlined: List[Tuple[str, str, str]] = []
        self.inline_skipped: List[Tuple[str, str]] = []
        self._inline_new_helpers()
        self._alpha_normalise()
        self._link_classes()
        self._methods_by_name: Dict[str, List[Func]] = {}
        for m in self.modules.values():
            for f in m.all_funcs():
                if f.cls is not None:
                    self._methods_by_name.setdefault(f.name, []).append(f)

    def _inline_new_helpers(self):
        """Substitute helper functions that do not exist in the reference
        snapshot back into their call sites (see sa/inline.py)."""
        if not self.reference or os.environ.get('SA_NO_INLINE'):
            return
        if os.path.realpath(self.reference) == os.path.realpath(self.root):
            return
        from . import inline
        trees, ref_trees, differs = {}, {}, False
        for m in self.modules.values():
            trees[m.name] = m.tree
            rp = os.path.join(self.reference, m.relpath)
            ref_trees[m.name] = None
            if os.path.exists(rp):
                try:
                    with open(rp, 'r', encoding='utf-8') as fp:
                        rsrc = fp.read()
                    if rsrc != m.source:
                        differs = True
                    ref_trees[m.name] = ast.parse(rsrc)
                except (OSError, SyntaxError):
                    pass
        if not differs:
            return
        self.inlined, self.inline_skipped = inline.inline_new_helpers(
            trees, ref_trees)
        if self.inlined:
            for m in self.modules.values():
                m.functions.clear()
                m.classes.clear()
                m.imports.clear()
                m.constants.clear()
                m._index()

    def _alpha_normalise(self):
        """Rename locals to the names used in the reference snapshot where a
        function is alpha-equivalent to it (see sa/alpha.py)."""
        if not self.reference or os.environ.get('SA_NO_ALPHA'):
            return
        if os.path.realpath(self.reference) == os.path.realpath(self.root):
            return
        from . import alpha
        for m in self.modules.values():
            rp = os.path.join(self.reference, m.relpath)
            if not os.path.exists(rp):
                continue
            try:
                with open(rp, 'r', encoding='utf-8') as fp:
                    rsrc = fp.read()
                if rsrc == m.source:
                    continue
                rtree = ast.parse(rsrc)
            except (OSError, SyntaxError):
                continue
            for q, ren in alpha.normalise_module(m.tree, rtree):
                self.alpha_renamed.append((m.name, q, ren))
            if not os.environ.get('SA_NO_INLINE'):
                from . import inline
                cur_f, ref_f = alpha._functions(m.tree), alpha._functions(rtree)
                for q, fn in cur_f.items():
                    if q in ref_f and ast.dump(fn) != ast.dump(ref_f[q]):
                        for x in inline.unfold_mapping_comprehensions(
                                fn, ref_f[q]):
                            self.inlined.append(
                                (m.name, q, 'mapping comprehension %s '
                                 'unfolded' % x))
                        for x in inline.unfold_flattening_generators(
                                fn, ref_f[q]):
                            self.inlined.append(
                                (m.name, q, 'flattening generator %s '
                                 'unfolded' % x))
                        if inline.fold_dict_updates(fn):
                            self.inlined.append((m.name, q,
                                                 'dict update folded'))
                        for x in inline.forward_new_temps(fn, ref_f[q]):
                            self.inlined.append((m.name, q,
                                                 'temporary %s' % x))

    # -- lookups -----------------------------------------------------------

    def module(self, name) -> Module:
        full = name if name.startswith(self.package) else \
            '%s.%s' % (self.package, name)
        if full not in self.modules:
            raise AnchorMissing('module %s not found' % full)
        return self.modules[full]

    def cls(self, module, name) -> Class:
        m = self.module(module)
        if name not in m.classes:
            raise AnchorMissing('class %s not found in %s' % (name, m.name))
        return m.classes[name]

    def func(self, module, qualname) -> Func:
        m = self.module(module)
        if '.' in qualname:
            cname, fname = qualname.split('.', 1)
            c = self.cls(module, cname)
            if fname not in c.methods:
                raise AnchorMissing('method %s.%s not found in %s' %
                                    (cname, fname, m.name))
            return c.methods[fname]
        if qualname not in m.functions:
            raise AnchorMissing('function %s not found in %s' %
                                (qualname, m.name))
        return m.functions[qualname]

    def all_funcs(self) -> Iterator[Func]:
        for m in self.modules.values():
            for f in m.all_funcs():
                yield f

    def all_classes(self) -> Iterator[Class]:
        for m in self.modules.values():
            for c in m.classes.values():
                yield c

    # -- symbol resolution -------------------------------------------------

    def resolve_name(self, module: Module, name: str, _depth=0):
        """Resolve a bare name in a module to Func / Class / Module /
        ('const', module, node) / ('external', dotted) / None."""
        if _depth > 8:
            return None
        if name in module.classes:
            return module.classes[name]
        if name in module.functions:
            return module.functions[name]
        if name in module.imports:
            imp = module.imports[name]
            if imp[0] == 'module':
                if imp[1] in self.modules:
                    return self.modules[imp[1]]
                return ('external', imp[1])
            _, mod, sym = imp
            if mod in self.modules:
                # symbol may itself be a submodule
                sub = '%s.%s' % (mod, sym)
                target = self.modules[mod]
                r = self.resolve_name(target, sym, _depth + 1)
                if r is not None:
                    return r
                if sub in self.modules:
                    return self.modules[sub]
                return None
            sub = '%s.%s' % (mod, sym)
            if sub in self.modules:
                return self.modules[sub]
            return ('external', sub)
        if name in module.constants:
            return ('const', module, module.constants[name])
        return None

    def resolve_expr(self, module: Module, node):
        """Resolve Name / dotted Attribute to a program entity."""
        if isinstance(node, ast.Name):
            return self.resolve_name(module, node.id)
        if isinstance(node, ast.Attribute):
            base = self.resolve_expr(module, node.value)
            if isinstance(base, Module):
                return self.resolve_name(base, node.attr)
            if isinstance(base, Class):
                m = base.find_method(node.attr)
                if m:
                    return m
                c, v = base.find_attr(node.attr)
                if v is not None:
                    return ('const', c.module, v)
                return None
            if isinstance(base, tuple) and base[0] == 'external':
                return ('external', base[1] + '.' + node.attr)
        return None

    def _link_classes(self):
        for m in self.modules.values():
            for c in m.classes.values():
                for b in c.base_exprs:
                    r = self.resolve_expr(m, b)
                    if isinstance(r, Class):
                        c.bases.append(r)
                        r.subclasses.append(c)
                    else:
                        if isinstance(r, tuple) and r[0] == 'external':
                            c.ext_bases.append(r[1])
                        else:
                            c.ext_bases.append(dotted(b) or unparse(b))

    # -- call resolution (CHA) ---------------------------------------------

    def resolve_call(self, func: Func, call: ast.Call
                     ) -> Tuple[List[Func], str]:
        """Return (targets, precision) where precision is
        'exact' | 'cha' | 'approx' | 'external' | 'unknown'."""
        f = call.func
        mod = func.module
        if isinstance(f, ast.Name):
            # nested local def?
            r = self.resolve_name(mod, f.id)
            if isinstance(r, Func):
                return [r], 'exact'
            if isinstance(r, Class):
                init = r.find_method('__init__')
                return ([init] if init else []), 'exact'
            if isinstance(r, tuple) and r[0] == 'external':
                return [], 'external'
            return [], 'unknown'
        if isinstance(f, ast.Attribute):
            recv = f.value
            owner = func.cls or (func.outer.cls if func.outer else None)
            # self.m() / cls.m()
            if isinstance(recv, ast.Name) and recv.id in ('self', 'cls') \
                    and owner is not None:
                targets = []
                m = owner.find_method(f.attr)
                if m:
                    targets.append(m)
                for sc in owner.all_subclasses():
                    if f.attr in sc.methods:
                        targets.append(sc.methods[f.attr])
                if targets:
                    return targets, ('exact' if len(targets) == 1 else 'cha')
                return [], 'unknown'
            # super().m() / super(X, self).m()
            if isinstance(recv, ast.Call) and isinstance(recv.func, ast.Name) \
                    and recv.func.id == 'super' and owner is not None:
                for c in owner.mro()[1:]:
                    if f.attr in c.methods:
                        return [c.methods[f.attr]], 'exact'
                return [], 'external'
            r = self.resolve_expr(mod, f)
            if isinstance(r, Func):
                return [r], 'exact'
            if isinstance(r, Class):
                init = r.find_method('__init__')
                return ([init] if init else []), 'exact'
            if isinstance(r, tuple) and r[0] == 'external':
                return [], 'external'
            rb = self.resolve_expr(mod, recv)
            if isinstance(rb, tuple) and rb[0] == 'external':
                return [], 'external'
            # receivers that are known to be foreign objects
            rname = dotted(recv) or ''
            if rname.split('.')[-1] in EXTERNAL_RECEIVERS:
                return [], 'external'
            # unknown receiver: every package method of that name whose
            # signature is compatible with the call
            cands = [m for m in self._methods_by_name.get(f.attr, [])
                     if _compatible(m, call)]
            if cands:
                return cands, 'approx'
            return [], 'unknown'
        return [], 'unknown'

    def calls_in(self, func: Func) -> List[ast.Call]:
        return [n for n in walk_no_nested(func.node, include_lambda=True)
                if isinstance(n, ast.Call)]

    def property_reads(self, func: Func) -> List[Tuple[ast.Attribute, List[Func]]]:
        """Attribute loads that may invoke a package @property getter."""
        if not hasattr(self, '_props'):
            self._props: Dict[str, List[Func]] = {}
            for f in self.all_funcs():
                if f.cls is not None and any(
                        d in ('property', 'cached_property')
                        for d in f.decorators if d):
                    self._props.setdefault(f.name, []).append(f)
        out = []
        owner = func.cls
        for n in walk_no_nested(func.node, include_lambda=True):
            if isinstance(n, ast.Attribute) and isinstance(n.ctx, ast.Load) \
                    and n.attr in self._props:
                cands = self._props[n.attr]
                if isinstance(n.value, ast.Name) and n.value.id == 'self' \
                        and owner is not None:
                    m = owner.find_method(n.attr)
                    cands = [m] if m in cands else []
                if cands:
                    out.append((n, cands))
        return out

    def reachable_funcs(self, roots: Iterable[Func], follow_approx=True,
                        stop=None, max_depth=None, skip_call=None
                        ) -> Dict[str, Func]:
        """Transitive callees (by fq)."""
        seen: Dict[str, Func] = {}
        parent: Dict[str, tuple] = {}
        work = [(r, 0) for r in roots]
        while work:
            f, d = work.pop()
            if f.fq in seen:
                continue
            seen[f.fq] = f
            if stop is not None and stop(f):
                continue
            if max_depth is not None and d >= max_depth:
                continue
            for c in self.calls_in(f):
                if skip_call is not None and skip_call(f, c):
                    continue
                targets, prec = self.resolve_call(f, c)
                if prec == 'approx' and not follow_approx:
                    continue
                for t in targets:
                    if t.fq not in seen:
                        work.append((t, d + 1))
                        parent.setdefault(t.fq, (f, c))
            for a, cands in self.property_reads(f):
                for t in cands:
                    if t.fq not in seen:
                        work.append((t, d + 1))
                        parent.setdefault(t.fq, (f, a))
        self.last_parents = parent
        return seen

    def call_chain(self, fq: str) -> List[str]:
        """Call chain (root first) that reached *fq* in the last
        reachable_funcs() run."""
        out = [fq]
        cur = fq
        parent = getattr(self, 'last_parents', {})
        n = 0
        while cur in parent and n < 40:
            f, c = parent[cur]
            out.append('%s (%s)' % (f.fq, f.loc(c)))
            cur = f.fq
            n += 1
        return list(reversed(out))

    def callers_of(self, target_name: str) -> List[Tuple[Func, ast.Call]]:
        """All call sites whose callee's last name component matches."""
        out = []
        for f in self.all_funcs():
            for c in self.calls_in(f):
                if call_name(c) == target_name:
                    out.append((f, c))
        return out

    def callers_of_func(self, target: Func) -> List[Tuple[Func, ast.Call]]:
        """Call sites that may resolve to *target* (CHA)."""
        out = []
        for f in self.all_funcs():
            for c in self.calls_in(f):
                if call_name(c) != target.name:
                    continue
                targets, _ = self.resolve_call(f, c)
                if any(t is target for t in targets):
                    out.append((f, c))
        return out

    # -- constant tables -----------------------------------------------------

    def const_collection(self, module: Module, node, owner: Class = None,
                         _depth=0):
        """Evaluate a literal tuple/list/set/dict (of constants), following
        Name / Class.attr references and dict(Base.attr, **{...}).
        Returns a python list (for sequences/sets, of constants) or dict
        (keys -> value nodes), or None if not statically evaluable."""
        if _depth > 6 or node is None:
            return None
        if isinstance(node, (ast.Tuple, ast.List, ast.Set)):
            out = []
            for e in node.elts:
                if isinstance(e, ast.Constant):
                    out.append(e.value)
                elif isinstance(e, ast.Starred):
                    sub = self.const_collection(module, e.value, owner,
                                                _depth + 1)
                    if sub is None:
                        return None
                    out.extend(sub)
                else:
                    return None
            return out
        if isinstance(node, ast.Dict):
            out = {}
            for k, v in zip(node.keys, node.values):
                if k is None:
                    sub = self.const_collection(module, v, owner, _depth + 1)
                    if not isinstance(sub, dict):
                        return None
                    out.update(sub)
                elif isinstance(k, ast.Constant):
                    out[k.value] = v
                else:
                    return None
            return out
        if isinstance(node, ast.Call) and isinstance(node.func, ast.Name):
            if node.func.id == 'dict':
                out = {}
                for a in node.args:
                    sub = self.const_collection(module, a, owner, _depth + 1)
                    if not isinstance(sub, dict):
                        return None
                    out.update(sub)
                for kw in node.keywords:
                    if kw.arg is None:
                        sub = self.const_collection(module, kw.value, owner,
                                                    _depth + 1)
                        if not isinstance(sub, dict):
                            return None
                        out.update(sub)
                    else:
                        out[kw.arg] = kw.value
                return out
            if node.func.id in ('set', 'frozenset', 'tuple', 'list') and \
                    len(node.args) == 1:
                return self.const_collection(module, node.args[0], owner,
                                             _depth + 1)
        if isinstance(node, (ast.Name, ast.Attribute)):
            if isinstance(node, ast.Attribute) and \
                    isinstance(node.value, ast.Name) and \
                    node.value.id in ('self', 'cls') and owner is not None:
                c, v = owner.find_attr(node.attr)
                if v is not None:
                    return self.const_collection(c.module, v, c, _depth + 1)
                return None
            r = self.resolve_expr(module, node)
            if isinstance(r, tuple) and r[0] == 'const':
                return self.const_collection(r[1], r[2], owner, _depth + 1)
        return None
