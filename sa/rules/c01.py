"""C01 - evolved database schema equals the schema of freshly created
models (structural clauses only)."""
from __future__ import annotations

import ast
import re
from typing import Dict, List, Optional, Set, Tuple

from ..program import (AnalysisError, Class, Func, call_name, const_str,
                       dotted, kwarg, norm_key, unparse, walk_no_nested)
from ..util import (compare_consts, dict_literal_keys, if_chain,
                    is_self_attr, nodes_with_call, subscript_const)

EXPLANATION = (
    'Decided clauses: R-C01.1 every op type ModelMutator can queue is '
    'dispatched by generate_table_op_sql, the fall-through raises, and every '
    "op['k'] a branch reads is supplied by every producer of that type; "
    'R-C01.2 the reflective dispatches getattr(self, "change_meta_%s") and '
    'getattr(self, "change_column_attr_%s") are total over the constant sets '
    'that can reach them, for each of the three backend classes, and the six '
    'sibling tables of Meta property names agree; R-C01.3 every alter-table '
    'op tag produced by a method that is effective and reachable for the '
    'SQLite backend is understood by SQLiteAlterTableSQLResult.to_sql, whose '
    'fall-through raises, and the keys each branch reads are supplied by '
    'every producer of that tag; R-C01.4 every index-creating / '
    'index-dropping SQL emission on the SQLite path is paired on every path '
    'with database_state.add_index / remove_index; R-C01.5 every schema facet '
    'that table creation emits (columns, column constraints, field indexes, '
    'unique_together, index_together, indexes, constraints) flows from the '
    'model being rebuilt into the SQL returned by the SQLite table rebuild, '
    'and MockMeta takes each facet from the model signature; R-C01.6 every '
    'columns= handed to the scanned database state is built from Field.column '
    '(real column names), never from field names / attnames; '
    'R-C01.7 the optimiser tests whether a mutation was marked as removed through a hash-based container (BaseMutation.__eq__ is structural, __hash__ is identity): a list would drop a kept mutation that merely equals a removed one; '
    'R-C01.8 an alter-table item whose producer changes field.db_index puts its field where the rebuild computes new_fields from (the rebuild re-creates field indexes from that list, built from its own model); R-C01.9 the deleted-column filter of the rebuild ranges over the existing fields only, never over added_fields; '
    'R-C01.10 quoted column identifiers come from Field.column and a REFERENCES clause names the related primary key field\'s column; R-C01.11 the two exits of the SQLite to_sql concatenate their parts in the same order; R-C01.12 the scanned database state records index/unique entries only; R-C01.13 deleting a column forgets its indexes in the state; R-C01.14 the from_/to_ naming of an automatic many-to-many table is decided by comparing lower-cased model names.'
    ' '
    "R-C01.15 (= R-C05.8) every reader that combines the common ('*') and the field-type-specific table of _ATTRIBUTE_DEFAULTS lets the type-specific entry win (precedence evaluated for the loop/first-hit, dict-merge, update, nested-get and ChainMap forms)."
    ' '
    'R-C01.16 every model-level mutate() queues an operation on every normal path (otherwise the mutation is not replayed when SQL is generated); ChangeField is a reasoned exemption.'
    ' '
    'R-C01.17 (= R-C11.2) references are rewritten in the signature object that is stored; R-C01.18 (= R-C03.17) create_index_name hands the schema editor the column names, field names only as a fallback.'
    ' '
    'R-C01.19 = R-C06.13.'
    ' '
    'R-C01.20 DatabaseState.find_index compares index columns as sequences.'
    ' '
    'R-C01.21 DatabaseState.remove_column_indexes forgets every index whose columns *contain* the deleted column (membership test controls the removal; an equality of the column list does not).')
NOT_DECIDED = (
    'That the generated SQL executes and yields the same schema as creating '
    'the models from scratch, for any schema/sequence (needs SQLite and '
    "Django's schema editor).")
TECHNIQUE = ('producer/consumer table agreement extracted from source '
             '(op-type and alter-table tag protocols, reflective dispatch '
             'totality over the backend MROs), CFG pairing of index emissions '
             'with state bookkeeping, facet dataflow into the rebuild SQL')
LEVEL_NOTE = ('Trusted: Python ast, MRO / reachability computation of the '
              'methods effective for sqlite3.EvolutionOperations, constant '
              'table evaluation (dict(Base.attr, **{...})).  Backend rules '
              'are scoped to SQLite (the property\'s quantifier); PostgreSQL/'
              'MySQL tables are checked for dispatch totality only.')

COMMON = 'db.common'
BACKENDS = (('db.sqlite3', 'EvolutionOperations'),
            ('db.postgresql', 'EvolutionOperations'),
            ('db.mysql', 'EvolutionOperations'))
FACETS = ('unique_together', 'index_together', 'indexes', 'constraints')


# ---------------------------------------------------------------------------
# shared helpers (also used by c18 / c02)
# ---------------------------------------------------------------------------

def model_mutator_producers(ctx) -> List[Tuple[str, ast.Dict, Func]]:
    """(op type, dict literal, method) for every self._ops.append({...})."""
    cls = ctx.program.cls('mutators.model_mutator', 'ModelMutator')
    out = []
    for m in cls.methods.values():
        for c in walk_no_nested(m.node):
            if isinstance(c, ast.Call) and call_name(c) == 'append' and \
                    is_self_attr(c.func.value, '_ops') and c.args and \
                    isinstance(c.args[0], ast.Dict):
                d = c.args[0]
                for k, v in zip(d.keys, d.values):
                    if k is not None and const_str(k) == 'type' and \
                            const_str(v) is not None:
                        out.append((const_str(v), d, m))
    return out


def _external_entry_names(ctx) -> Set[str]:
    """Method names invoked on an evolver object from outside db/."""
    names = set()
    for f in ctx.program.all_funcs():
        mod = f.module.name
        if '.db.' in mod and not mod.endswith('db.state'):
            continue
        for c in walk_no_nested(f.node, include_lambda=True):
            if isinstance(c, ast.Call) and isinstance(c.func, ast.Attribute):
                d = dotted(c.func.value) or ''
                if d.split('.')[-1] in ('evolver', '_evolver_backend') or \
                        (isinstance(c.func.value, ast.Call) and
                         call_name(c.func.value) == 'get_evolver'):
                    names.add(c.func.attr)
        for a in walk_no_nested(f.node, include_lambda=True):
            if isinstance(a, ast.Attribute) and \
                    (dotted(a.value) or '').split('.')[-1] == 'evolver':
                names.add(a.attr)
    return names


def effective_methods(ctx, module: str, clsname: str) -> Dict[str, Func]:
    """Methods effective (MRO-first) for a backend class and reachable from
    the external entry points, following self.m() calls, getattr dispatch
    and calls on `evolver` inside the result classes."""
    cache = ctx.__dict__.setdefault('_eff_cache', {})
    if (module, clsname) in cache:
        return cache[(module, clsname)]
    p = ctx.program
    cls = p.cls(module, clsname)
    table: Dict[str, Func] = {}
    for c in cls.mro():
        for name, m in c.methods.items():
            table.setdefault(name, m)
    roots = {n for n in _external_entry_names(ctx) if n in table}
    roots |= {'generate_table_ops_sql', 'generate_table_op_sql'} & set(table)
    # the alter-table result class of this backend calls back into evolver
    _, rc = cls.find_attr('alter_table_sql_result_cls')
    res_cls = None
    if rc is not None:
        r = p.resolve_expr(cls.module, rc)
        if isinstance(r, Class):
            res_cls = r
    if res_cls is not None:
        for c in res_cls.mro():
            for m in c.methods.values():
                for call in walk_no_nested(m.node, include_lambda=True):
                    if isinstance(call, ast.Call) and \
                            isinstance(call.func, ast.Attribute) and \
                            (dotted(call.func.value) or '').split('.')[-1] \
                            == 'evolver' and call.func.attr in table:
                        roots.add(call.func.attr)
    seen: Dict[str, Func] = {}
    work = sorted(roots)
    prefixes = []
    while work:
        name = work.pop()
        if name in seen or name not in table:
            continue
        m = table[name]
        seen[name] = m
        for n in walk_no_nested(m.node, include_lambda=True):
            if isinstance(n, ast.Call):
                if is_self_attr(n.func) and n.func.attr in table:
                    work.append(n.func.attr)
                if isinstance(n.func, ast.Attribute) and \
                        isinstance(n.func.value, ast.Call) and \
                        isinstance(n.func.value.func, ast.Name) and \
                        n.func.value.func.id == 'super' and \
                        n.func.attr in table:
                    # super().m(): next definition in the MRO
                    own = m.cls
                    mro = cls.mro()
                    if own in mro:
                        for c2 in mro[mro.index(own) + 1:]:
                            if n.func.attr in c2.methods:
                                seen.setdefault('super:%s:%s' % (
                                    c2.name, n.func.attr),
                                    c2.methods[n.func.attr])
                                for n2 in walk_no_nested(
                                        c2.methods[n.func.attr].node):
                                    if isinstance(n2, ast.Call) and \
                                            is_self_attr(n2.func) and \
                                            n2.func.attr in table:
                                        work.append(n2.func.attr)
                                break
                if call_name(n) == 'getattr' and len(n.args) >= 2 and \
                        isinstance(n.args[1], ast.BinOp) and \
                        const_str(n.args[1].left):
                    pre = const_str(n.args[1].left).split('%')[0]
                    work += [k for k in table if k.startswith(pre)]
            if isinstance(n, ast.Attribute) and is_self_attr(n) and \
                    n.attr in table and isinstance(n.ctx, ast.Load):
                work.append(n.attr)     # bound method stored as callback
    cache[(module, clsname)] = seen
    return seen


def sqlite_effective_methods(ctx) -> Dict[str, Func]:
    return effective_methods(ctx, 'db.sqlite3', 'EvolutionOperations')


def returns_alter_table(ctx, eff: Dict[str, Func], name: str,
                        _seen=None) -> bool:
    """May the effective method return an AlterTable-kind result?"""
    _seen = _seen if _seen is not None else set()
    if name in _seen or name not in eff:
        return False
    _seen.add(name)
    m = eff[name]
    at_names = {'alter_table_sql_result_cls', 'AlterTableSQLResult',
                'SQLiteAlterTableSQLResult'}
    local_at = set()
    for n in walk_no_nested(m.node):
        if isinstance(n, ast.Assign) and isinstance(n.value, ast.Call) and \
                (call_name(n.value) in at_names):
            for t in n.targets:
                if isinstance(t, ast.Name):
                    local_at.add(t.id)
    for n in walk_no_nested(m.node):
        if isinstance(n, ast.Return) and n.value is not None:
            v = n.value
            if isinstance(v, ast.Call):
                if call_name(v) in at_names:
                    return True
                if is_self_attr(v.func) and returns_alter_table(
                        ctx, eff, v.func.attr, _seen):
                    return True
            if isinstance(v, ast.Name) and v.id in local_at:
                return True
    return False


# ---------------------------------------------------------------------------
# rules
# ---------------------------------------------------------------------------

def _branch_reads(body: List[ast.stmt], var: str) -> Set[str]:
    keys = set()
    for st in body:
        for n in ast.walk(st):
            if isinstance(n, ast.Subscript) and isinstance(n.value, ast.Name) \
                    and n.value.id == var and subscript_const(n):
                keys.add(subscript_const(n))
    return keys


def _dispatch_chain(func: Func, var: str):
    """[(const, body)] for an if/elif chain comparing Name var with string
    constants, and the else body."""
    best = ([], None)
    for st in walk_no_nested(func.node):
        if not isinstance(st, ast.If):
            continue
        chain, else_body = [], None
        cur = st
        while True:
            test, body, orelse = cur.test, cur.body, cur.orelse
            while isinstance(test, ast.UnaryOp) and isinstance(test.op,
                                                               ast.Not):
                test, body, orelse = test.operand, orelse, body
            cs = compare_consts(test, lambda e: isinstance(e, ast.Name)
                                and e.id == var)
            if not cs:
                break
            for c in cs:
                chain.append((c, body))
            if len(orelse) == 1 and isinstance(orelse[0], ast.If):
                cur = orelse[0]
                continue
            else_body = orelse
            break
        if len(chain) > len(best[0]):
            best = (chain, else_body)
    return best


def _always_raises(stmts) -> bool:
    return bool(stmts) and isinstance(stmts[-1], ast.Raise)


def r1_op_type_protocol(ctx):
    ctx.rule('R-C01.1')
    p = ctx.program
    producers = model_mutator_producers(ctx)
    ctx.floor('op producers in ModelMutator', len(producers), 6)
    consumer = p.func(COMMON, 'BaseEvolutionOperations.generate_table_op_sql')
    chain, else_body = _dispatch_chain(consumer, 'op_type')
    ctx.floor('op_type branches in generate_table_op_sql', len(chain), 6)
    consumed = {}
    for c, body in chain:
        consumed[c] = body
    # op_type must be op['type'] and reads at top level count for all types
    top_reads = set()
    for st in consumer.node.body:
        if isinstance(st, ast.Assign):
            top_reads |= _branch_reads([st], 'op')
    if _always_raises(else_body or []):
        ctx.ok(consumer, 'unknown op types raise')
    else:
        ctx.finding(consumer, None, 'the op dispatch has no raising '
                    'fall-through: an unknown op type is silently skipped',
                    key='no-raise-fallthrough')
    for t, d, m in producers:
        callers = [1 for f, c in p.callers_of_func(m)
                   if not (f.cls is m.cls and f.name == m.name)]
        if not callers:
            ctx.info('producer %s (%r) has no caller in the package: dead, '
                     'not checked' % (m.qualname, t))
            continue
        if t not in consumed:
            ctx.finding(m, d, 'ModelMutator.%s queues op type %r, which '
                        'generate_table_op_sql does not dispatch' % (m.name,
                                                                     t),
                        key='unconsumed:%s' % t)
            continue
        need = (_branch_reads(consumed[t], 'op') | top_reads)
        have = set(dict_literal_keys(d))
        if need <= have:
            ctx.ok(m, 'op %r supplies %s read by its branch' % (
                t, sorted(need)), d)
        else:
            ctx.finding(m, d, 'op %r lacks key(s) %s that its dispatch '
                        'branch reads' % (t, sorted(need - have)),
                        key='missing-keys:%s:%s' % (t, sorted(need - have)))


def _meta_tables(ctx):
    """name -> (where, set of meta prop names) for the six sibling tables."""
    p = ctx.program
    out = {}

    def consts_in_tests(f, pred):
        s = set()
        for n in walk_no_nested(f.node):
            if isinstance(n, ast.If):
                cs = set(compare_consts(n.test, pred))
                s |= cs
                # a chain over the property name that ends in a plain,
                # non-raising else handles every other property generically
                if cs:
                    cur = n
                    while len(cur.orelse) == 1 and isinstance(cur.orelse[0],
                                                              ast.If):
                        cur = cur.orelse[0]
                    if cur.orelse and not _always_raises(cur.orelse) and \
                            set(compare_consts(cur.test, pred)):
                        s.add('<else>')
        return s

    pn = lambda e: (isinstance(e, ast.Name) and e.id == 'prop_name') or \
        (isinstance(e, ast.Attribute) and e.attr == 'prop_name')
    f = p.func('mutations.change_meta', 'ChangeMeta.simulate')
    out['ChangeMeta.simulate'] = (f, consts_in_tests(f, pn))
    f = p.func('mutations.change_meta', 'ChangeMeta.get_hint_params')
    out['ChangeMeta.get_hint_params'] = (f, consts_in_tests(f, pn))
    f = p.func('mutators.model_mutator', 'ModelMutator.change_meta')
    out['ModelMutator.change_meta'] = (f, consts_in_tests(f, pn))
    cls = p.cls(COMMON, 'BaseEvolutionOperations')
    o, node = cls.find_attr('supported_change_meta')
    t = p.const_collection(o.module, node, o)
    out['supported_change_meta'] = (('django_evolution.db.common',
                                     'BaseEvolutionOperations'),
                                    set(t or {}))
    f = p.func('signature', 'ModelSignature.diff')
    s = set()
    for n in walk_no_nested(f.node):
        if isinstance(n, ast.Call) and call_name(n) == 'append' and \
                'meta_changed' in unparse(n.func) and n.args and \
                const_str(n.args[0]):
            s.add(const_str(n.args[0]))
    out['ModelSignature.diff'] = (f, s)
    f = p.func('diff', 'Diff.evolution')
    s = set()
    for n in walk_no_nested(f.node, include_lambda=True):
        if isinstance(n, ast.Compare) and isinstance(n.ops[0], ast.In) and \
                const_str(n.left) and 'meta_changed' in unparse(
                    n.comparators[0]):
            s.add(const_str(n.left))
        if isinstance(n, ast.For) and 'meta_changed' in unparse(n.iter):
            s.add('*')
        if isinstance(n, ast.comprehension) and isinstance(
                n.iter, (ast.Tuple, ast.List)) and any(
                isinstance(c, ast.Compare) and isinstance(c.ops[0], ast.In)
                and 'meta_changed' in unparse(c.comparators[0]) and
                unparse(c.left) == unparse(n.target) for c in n.ifs):
            s |= {const_str(e) for e in n.iter.elts if const_str(e)}
    out['Diff.evolution'] = (f, s)
    return out


def r2_reflective_dispatch(ctx):
    ctx.rule('R-C01.2')
    p = ctx.program
    tables = _meta_tables(ctx)
    ref = tables['supported_change_meta'][1]
    ctx.floor('Meta property names in supported_change_meta', len(ref), 5)
    for name, (where, s) in tables.items():
        if '*' in s:
            ctx.ok(where, '%s handles every changed Meta property '
                   'generically' % name)
            continue
        if s == ref or ('<else>' in s and s - {'<else>'} <= ref):
            ctx.ok(where, '%s covers the Meta properties %s' % (
                name, sorted(s)))
        else:
            ctx.finding(where, None, 'Meta property tables disagree: %s has '
                        '%s, supported_change_meta has %s' % (
                            name, sorted(s), sorted(ref)),
                        key='meta-table:%s:%s' % (
                            name, sorted(s ^ ref)))
    # attrs: supported_change_attrs minus names popped before the dispatch
    cca = p.func(COMMON, 'BaseEvolutionOperations.change_column_attrs')
    popped = set()
    for n in walk_no_nested(cca.node):
        if isinstance(n, ast.Call) and call_name(n) == 'pop' and n.args and \
                const_str(n.args[0]) and 'new_attrs' in unparse(n.func):
            popped.add(const_str(n.args[0]))
    for mod, cname in BACKENDS:
        cls = p.cls(mod, cname)
        where = ('django_evolution.' + mod, cname)
        o, node = cls.find_attr('supported_change_meta')
        meta = p.const_collection(o.module, node, o) or {}
        for prop in sorted(meta):
            v = meta[prop]
            if isinstance(v, ast.Constant) and v.value is False:
                continue      # statically unsupported on this backend
            if cls.find_method('change_meta_%s' % prop):
                ctx.ok(where, 'change_meta_%s exists for %s' % (prop, mod))
            else:
                ctx.finding(where, node, 'supported_change_meta admits %r '
                            'but %s has no change_meta_%s: AttributeError at '
                            'evolve time' % (prop, mod, prop),
                            key='no-meta-handler:%s' % prop)
        o, node = cls.find_attr('supported_change_attrs')
        attrs = p.const_collection(o.module, node, o) or []
        ctx.floor('supported_change_attrs of %s' % mod, len(attrs), 6)
        for a in sorted(set(attrs) - popped):
            if cls.find_method('change_column_attr_%s' % a):
                ctx.ok(where, 'change_column_attr_%s exists for %s' % (a, mod))
            else:
                ctx.finding(where, node, 'supported_change_attrs admits %r '
                            'but %s has no change_column_attr_%s' % (
                                a, mod, a), key='no-attr-handler:%s' % a)
        # the popped ones are handled by explicit calls
        for a in sorted(popped & set(attrs)):
            pass
    ctx.counts['R-C01.2 attrs popped before reflective dispatch'] = len(popped)
    # ChangeField.mutate refuses attrs outside supported_change_attrs
    cf = p.func('mutations.change_field', 'ChangeField.mutate')
    if 'supported_change_attrs' in unparse(cf.node) and any(
            isinstance(n, ast.Raise) for n in walk_no_nested(cf.node)):
        ctx.ok(cf, 'ChangeField.mutate rejects attributes outside '
               'supported_change_attrs before dispatch')
    else:
        ctx.finding(cf, None, 'ChangeField.mutate no longer checks '
                    'supported_change_attrs', key='no-attr-check')


def sqlite_tag_producers(ctx, eff):
    """(tag, dict literal, method) for dict literals with an 'op' key in
    SQLite-effective, reachable methods."""
    out = []
    for name, m in eff.items():
        for d in walk_no_nested(m.node, include_lambda=True):
            if isinstance(d, ast.Dict):
                keys = dict_literal_keys(d)
                if 'op' in keys:
                    v = d.values[[const_str(k) if k is not None else None
                                  for k in d.keys].index('op')]
                    tags = []
                    if const_str(v) is not None:
                        tags = [const_str(v)]
                    elif isinstance(v, ast.IfExp):
                        tags = [const_str(x) for x in (v.body, v.orelse)
                                if const_str(x)]
                    elif isinstance(v, ast.Name):
                        # op = 'A' / 'B' assigned in branches, or
                        # op = 'A' if cond else 'B'
                        for a in walk_no_nested(m.node):
                            if isinstance(a, ast.Assign) and any(
                                    isinstance(t, ast.Name) and t.id == v.id
                                    for t in a.targets):
                                if const_str(a.value):
                                    tags.append(const_str(a.value))
                                elif isinstance(a.value, ast.IfExp):
                                    tags += [const_str(x) for x in (
                                        a.value.body, a.value.orelse)
                                        if const_str(x)]
                    for t in tags:
                        out.append((t, d, m))
                elif 'sql' in keys and len(keys) <= 2 and any(
                        isinstance(x, ast.Call) and
                        call_name(x) in ('alter_table_sql_result_cls',
                                         'AlterTableSQLResult')
                        for x in ast.walk(m.node)):
                    out.append(('<sql item>', d, m))
    return out


def r3_sqlite_tag_protocol(ctx):
    ctx.rule('R-C01.3')
    p = ctx.program
    eff = sqlite_effective_methods(ctx)
    consumer = p.func('db.sqlite3', 'SQLiteAlterTableSQLResult.to_sql')
    chain, else_body = _dispatch_chain(consumer, 'op')
    ctx.floor('op tag branches in SQLite to_sql', len(chain), 9)
    consumed = dict(chain)
    if _always_raises(else_body or []):
        ctx.ok(consumer, 'unknown alter-table tags raise ValueError')
    else:
        ctx.finding(consumer, None, 'SQLite to_sql silently ignores unknown '
                    'alter-table tags', key='no-raise-fallthrough')
    producers = sqlite_tag_producers(ctx, eff)
    tagged = [x for x in producers if x[0] != '<sql item>']
    ctx.floor('alter-table tag producers effective for SQLite', len(tagged),
              9)
    for t, d, m in producers:
        if t == '<sql item>':
            ctx.finding(m, d, 'a raw {"sql": ...} alter-table item is '
                        'produced on the SQLite path; SQLite to_sql requires '
                        'an "op" tag (KeyError)', key='raw-sql-item')
            continue
        if t not in consumed:
            ctx.finding(m, d, '%s produces alter-table tag %r, which '
                        'SQLiteAlterTableSQLResult.to_sql does not '
                        'understand (ValueError at evolve time)' % (
                            m.qualname, t), key='unconsumed-tag:%s' % t)
            continue
        need = _branch_reads(consumed[t], 'item') - {'op'}
        have = set(dict_literal_keys(d))
        if need <= have:
            ctx.ok(m, 'tag %r supplies %s' % (t, sorted(need)), d)
        else:
            ctx.finding(m, d, 'tag %r lacks key(s) %s read by its branch' % (
                t, sorted(need - have)),
                key='tag-missing-keys:%s:%s' % (t, sorted(need - have)))
    # every consumed tag has a producer (dead branches are only information)
    for t in sorted(set(consumed) - {x[0] for x in producers}):
        ctx.info('SQLite to_sql handles tag %r but nothing effective '
                 'produces it' % t)


CREATE_EMITTERS = ('sql_indexes_for_field', 'sql_indexes_for_fields')
DROP_EMITTERS = ('get_drop_index_sql', 'sql_delete_index')


def r4_index_bookkeeping(ctx):
    ctx.rule('R-C01.4')
    eff = sqlite_effective_methods(ctx)
    # wrappers: effective methods in which the emission is already paired
    sites = 0

    def events(m):
        g = ctx.cfg(m)
        creates, drops, adds, removes = [], [], [], []
        for n in g.nodes:
            for a in n.walk():
                if isinstance(a, ast.Call):
                    nm = call_name(a)
                    if nm in CREATE_EMITTERS or (nm == 'create_sql' and
                                                 'index' in unparse(a.func)):
                        creates.append((n, a))
                    if nm in DROP_EMITTERS or (nm == 'remove_sql' and
                                               'index' in unparse(a.func)) \
                            or nm == 'get_drop_unique_constraint_sql':
                        drops.append((n, a))
                    if nm == 'add_index':
                        adds.append(n)
                    if nm == 'remove_index':
                        removes.append(n)
                s = const_str(a)
                if s and re.match(r'\s*CREATE (UNIQUE )?INDEX', s):
                    creates.append((n, a))
        return g, creates, drops, adds, removes

    for name, m in sorted(eff.items()):
        if name.startswith('super:'):
            continue
        g, creates, drops, adds, removes = events(m)
        for kind, ems, books, bname in (('creating', creates, adds,
                                         'add_index'),
                                        ('dropping', drops, removes,
                                         'remove_index')):
            for n, a in ems:
                # the emitter primitives themselves are not obligations
                if name in DROP_EMITTERS or name in (
                        'get_drop_unique_constraint_sql',):
                    continue
                sites += 1
                before = g.must_pass(g.entry, n, books) is None if books \
                    else False
                after = g.must_pass(n, g.exit, books, follow_exc=False) \
                    is None if books else False
                if before or after:
                    ctx.ok(m, 'index-%s emission is paired with '
                           'database_state.%s on every path' % (kind, bname),
                           a)
                else:
                    ctx.finding(m, a, 'index-%s SQL (%s) is emitted without '
                                'database_state.%s on some path: the tracked '
                                'index state diverges from the database' % (
                                    kind, norm_key(a)[:50], bname))
    ctx.floor('index emission sites on the SQLite path', sites, 6)


def r5_rebuild_facets(ctx):
    ctx.rule('R-C01.5')
    p = ctx.program
    f = p.func('db.sqlite3', 'SQLiteAlterTableSQLResult.to_sql')
    from ..util import unit
    src_nodes = [n for g_ in unit(ctx, f)
                 for n in walk_no_nested(g_.node, include_lambda=True)]
    # also the nested stub class used for sql_indexes_for_model
    stub_attrs = {}
    for n in ast.walk(f.node):
        if isinstance(n, ast.ClassDef) and n.name == '_meta':
            for st in n.body:
                if isinstance(st, ast.Assign) and \
                        isinstance(st.targets[0], ast.Name):
                    stub_attrs[st.targets[0].id] = st.value
    text = ' '.join(unparse(g_.node) for g_ in unit(ctx, f))
    # columns / column constraints / field indexes
    if 'local_fields' in text and any(
            isinstance(n, ast.Call) and call_name(n) == 'build_column_schema'
            for n in src_nodes):
        ctx.ok(f, 'columns and column constraints flow from '
               'model._meta.local_fields through build_column_schema')
    else:
        ctx.finding(f, None, 'the rebuild no longer derives its columns from '
                    'model._meta.local_fields / build_column_schema',
                    key='facet-severed:columns')
    if any(isinstance(n, ast.Call) and call_name(n) == 'sql_indexes_for_model'
           for n in ast.walk(f.node)):
        ctx.ok(f, 'per-field indexes are re-created through '
               'sql_indexes_for_model')
    else:
        ctx.finding(f, None, 'the rebuild does not re-create per-field '
                    'indexes', key='facet-severed:field-indexes')
    for facet in FACETS:
        reads = [n for n in ast.walk(f.node)
                 if isinstance(n, ast.Attribute) and n.attr == facet and
                 '_meta' in unparse(n.value)]
        stub = stub_attrs.get(facet)
        if reads:
            ctx.ok(f, 'Meta.%s of the rebuilt model is read by the rebuild' %
                   facet, reads[0])
        elif stub is not None and not isinstance(stub, (ast.List, ast.Tuple,
                                                        ast.Constant)):
            ctx.ok(f, 'Meta.%s is forwarded to sql_indexes_for_model' % facet)
        else:
            how = ('bound to the constant %s in the stub model' %
                   unparse(stub)) if stub is not None else \
                'never read from model._meta'
            ctx.finding(f, stub, 'facet severed: Meta.%s is %s, so a table '
                        'rebuild (DROP + re-CREATE) loses every existing %s '
                        'entry of the model' % (facet, how, facet),
                        key='facet-severed:%s' % facet)
    # MockMeta
    mm = p.func('mock_models', 'MockMeta.__init__')
    meta_dict = None
    for n in walk_no_nested(mm.node):
        if isinstance(n, ast.Assign) and any(is_self_attr(t, 'meta')
                                             for t in n.targets) and \
                isinstance(n.value, ast.Dict):
            meta_dict = n.value
    if meta_dict is None:
        raise AnalysisError('R-C01.5: MockMeta.__init__ meta dict not found')
    later = {}
    for n in walk_no_nested(mm.node):
        if isinstance(n, ast.Assign):
            for t in n.targets:
                if isinstance(t, ast.Subscript) and \
                        is_self_attr(t.value, 'meta') and subscript_const(t):
                    later[subscript_const(t)] = n.value
    src_attr = {'unique_together': 'unique_together',
                'index_together': 'index_together',
                'indexes': 'index_sigs', 'constraints': 'constraint_sigs'}
    for facet in FACETS:
        v = None
        for k, val in zip(meta_dict.keys, meta_dict.values):
            if k is not None and const_str(k) == facet:
                v = val
        v2 = later.get(facet)
        cand = [x for x in (v, v2) if x is not None]
        if any(src_attr[facet] in unparse(x) and 'model_sig' in unparse(x)
               for x in cand):
            ctx.ok(mm, 'MockMeta.%s is built from model_sig.%s' % (
                facet, src_attr[facet]))
        else:
            ctx.finding(mm, v, 'facet severed: MockMeta.%s is %s, not built '
                        'from model_sig.%s, so mock models used to generate '
                        'SQL never carry the model\'s %s' % (
                            facet, unparse(v) if v is not None else 'absent',
                            src_attr[facet], facet),
                        key='mockmeta-severed:%s' % facet)


def r6_column_kind(ctx):
    """DatabaseState is scanned from the real database, so it is keyed by
    real column names: every columns= passed to its lookups / updates must be
    built from Field.column (never .name / .attname)."""
    ctx.rule('R-C01.6')
    p = ctx.program
    eff = sqlite_effective_methods(ctx)
    helper = p.func(COMMON,
                    'BaseEvolutionOperations.get_column_names_for_fields')
    rets = [n for n in walk_no_nested(helper.node)
            if isinstance(n, ast.Return)]
    ok = rets and all(
        isinstance(r.value, (ast.ListComp, ast.GeneratorExp)) and
        isinstance(r.value.elt, ast.Attribute) and
        r.value.elt.attr == 'column' for r in rets)
    if ok:
        ctx.ok(helper, 'get_column_names_for_fields returns Field.column '
               'values')
    else:
        ctx.finding(helper, rets[0] if rets else None,
                    'get_column_names_for_fields does not return '
                    'Field.column (%s): index lookups in the scanned '
                    'database state use real column names and will miss '
                    'fields whose column differs (db_column)' % (
                        unparse(rets[0].value) if rets else '?'),
                    key='column-helper')
    n = 0
    for name, m in sorted(eff.items()):
        if name.startswith('super:'):
            continue
        for c in walk_no_nested(m.node, include_lambda=True):
            if not (isinstance(c, ast.Call) and call_name(c) in (
                    'find_index', 'add_index', 'remove_index') and
                    'state' in unparse(c.func)):
                continue
            cols = kwarg(c, 'columns')
            if cols is None:
                continue
            n += 1

            def col_kind(e, depth=0):
                if isinstance(e, ast.Attribute):
                    return e.attr == 'column'
                if isinstance(e, ast.Call):
                    return call_name(e) == 'get_column_names_for_fields'
                if isinstance(e, (ast.List, ast.Tuple)):
                    return all(col_kind(x, depth) for x in e.elts)
                if isinstance(e, ast.Subscript):
                    return const_str(e.slice) in ('name', 'column')
                if isinstance(e, ast.Name) and depth < 3:
                    defs = [a.value for a in walk_no_nested(m.node)
                            if isinstance(a, ast.Assign) and any(
                                isinstance(t, ast.Name) and t.id == e.id
                                for t in a.targets)]
                    return bool(defs) and all(col_kind(d, depth + 1)
                                              for d in defs)
                return False
            if col_kind(cols):
                ctx.ok(m, 'columns= is built from Field.column', c)
            else:
                ctx.finding(m, c, 'columns=%s passed to the database state is '
                            'not built from Field.column' % unparse(cols))
    ctx.floor('database-state index calls with columns=', n, 8)


def r8_index_state_reaches_rebuild(ctx, rule_id='R-C01.8'):
    """The SQLite rebuild re-creates the per-field indexes from the field
    list of the new table (`new_fields`, handed to sql_indexes_for_model).
    A queued item whose producer changes whether a field is indexed
    (`field.db_index = ...`) carries that state only in the field object it
    queues - built from the producer's model, which for a merged, non-first
    operation is not the rebuild's model.  So the dispatch branch of every
    such item must put its field where `new_fields` is computed from;
    otherwise the merged run loses (or resurrects) the index that a
    one-at-a-time run creates (or drops)."""
    ctx.rule(rule_id)
    p = ctx.program
    eff = sqlite_effective_methods(ctx)
    tags = set()
    for t, d, m in sqlite_tag_producers(ctx, eff):
        if any(isinstance(a, ast.Assign) and any(
                isinstance(x, ast.Attribute) and x.attr == 'db_index'
                for x in a.targets) for a in walk_no_nested(m.node)):
            keys = dict_literal_keys(d)
            if 'field' in keys:
                tags.add(t)
    ctx.floor('alter-table tags whose producer sets field.db_index',
              len(tags), 2)
    consumer = p.func('db.sqlite3', 'SQLiteAlterTableSQLResult.to_sql')
    chain, _else = _dispatch_chain(consumer, 'op')
    g = ctx.cfg(consumer)
    from ..flow import ReachingDefs
    rd = ReachingDefs(g, consumer.params)
    # containers new_fields is computed from
    srcs = set()
    for n in g.nodes:
        a = n.ast
        if n.kind == 'stmt' and isinstance(a, ast.Assign) and any(
                isinstance(t, ast.Name) and t.id == 'new_fields'
                for t in a.targets):
            bound = {x.id for c in ast.walk(a.value)
                     if isinstance(c, ast.comprehension)
                     for x in ast.walk(c.target) if isinstance(x, ast.Name)}
            srcs |= {x.id for x in ast.walk(a.value)
                     if isinstance(x, ast.Name)} - bound
    if not srcs:
        raise AnalysisError('%s: new_fields is not computed in to_sql' %
                            rule_id)
    for tag, body in chain:
        if tag not in tags:
            continue
        stored = set()
        for st in body:
            for x in ast.walk(st):
                if isinstance(x, ast.Call) and isinstance(x.func,
                                                          ast.Attribute) \
                        and isinstance(x.func.value, ast.Name) and \
                        x.func.attr in ('append', 'add', 'setdefault',
                                        'update', 'extend', 'insert'):
                    stored.add(x.func.value.id)
                if isinstance(x, ast.Assign):
                    for t in x.targets:
                        if isinstance(t, ast.Subscript) and \
                                isinstance(t.value, ast.Name):
                            stored.add(t.value.id)
        if stored & srcs:
            ctx.ok(consumer, '%r items put their field where the rebuilt '
                   'table\'s field list comes from (%s)' % (
                       tag, ', '.join(sorted(stored & srcs))), body[0])
        else:
            ctx.finding(consumer, body[0], 'a %r item only records its field '
                        'in %s; the rebuild re-creates field indexes from '
                        'new_fields (%s), i.e. from the rebuild\'s own model: '
                        'merged as a non-first operation the changed db_index '
                        'is lost' % (tag, sorted(stored) or '<nothing>',
                                     ', '.join(sorted(srcs))),
                        key='index-state-not-in-new-fields:%s' % tag)


def r9_deleted_filter_scope(ctx, rule_id='R-C01.9'):
    """`deleted_columns` names columns of the *existing* table.  The merged
    rebuild must apply that filter to the old fields only: a field queued by
    ADD COLUMN under the name of a column deleted earlier in the same group
    (DeleteField x, AddField x) is a new column and must survive."""
    ctx.rule(rule_id)
    p = ctx.program
    f = p.func('db.sqlite3', 'SQLiteAlterTableSQLResult.to_sql')
    n_filters = 0
    for c in walk_no_nested(f.node, include_lambda=True):
        gens = []
        if isinstance(c, (ast.ListComp, ast.GeneratorExp, ast.SetComp)):
            gens = [(g.iter, g.ifs) for g in c.generators]
        for it, ifs in gens:
            if not any('deleted_columns' in unparse(t) and isinstance(
                    t, (ast.Compare, ast.UnaryOp)) for t in ifs):
                continue
            n_filters += 1
            names = {x.id for x in ast.walk(it) if isinstance(x, ast.Name)}
            if 'added_fields' in names:
                ctx.finding(f, c, 'the deleted-column filter also ranges over '
                            'added_fields: a column that is deleted and added '
                            'back under the same name in one merged rebuild '
                            'is dropped from the new table (DeleteField x, '
                            'AddField x succeeds one at a time)',
                            key='deleted-filter-over-added-fields')
            else:
                ctx.ok(f, 'deleted-column filter ranges over %s only' %
                       ', '.join(sorted(names)), c)
    for l in walk_no_nested(f.node):
        if isinstance(l, ast.For) and any(
                'deleted_columns' in unparse(t) for t in ast.walk(l)
                if isinstance(t, ast.Compare)):
            n_filters += 1
            names = {x.id for x in ast.walk(l.iter) if isinstance(x, ast.Name)}
            if 'added_fields' in names:
                ctx.finding(f, l, 'a loop filtered by deleted_columns ranges '
                            'over added_fields', key='deleted-filter-over-'
                            'added-fields')
            else:
                ctx.ok(f, 'loop filtered by deleted_columns ranges over %s' %
                       ', '.join(sorted(names)), l)
    ctx.floor('uses of the deleted-column filter in to_sql', n_filters, 1)


def r10_quoted_identifiers(ctx, rule_id='R-C01.10'):
    """A quoted identifier that stands for a *column* in generated SQL must
    come from Field.column: qn(<field>.name) / qn(<field>.attname) is the
    Python-side name and differs for db_column fields, relation fields
    (x_id) and multi-table-inheritance parents (x_ptr_id).  Names of
    indexes, constraints and tables are not field attributes and are not
    affected."""
    ctx.rule(rule_id)
    p = ctx.program
    n = 0
    for m in p.modules.values():
        if '.db.' not in m.name or m.name.endswith(('.state', '.sql_result')):
            continue
        for f in m.all_funcs():
            for c in walk_no_nested(f.node, include_lambda=True):
                if not (isinstance(c, ast.Call) and len(c.args) == 1 and
                        ((isinstance(c.func, ast.Name) and c.func.id == 'qn')
                         or call_name(c) == 'quote_name')):
                    continue
                a = c.args[0]
                if not isinstance(a, ast.Attribute):
                    continue
                n += 1
                txt = unparse(a.value)
                fieldish = txt.endswith(('field', '.pk', '_pk')) or \
                    txt in ('f', 'pk') or 'field' in txt.split('.')[-1]
                if a.attr in ('name', 'attname') and fieldish:
                    ctx.finding(f, c, 'the SQL identifier %s is the Python '
                                'name of a field, not its column: wrong for '
                                'db_column fields, relation fields and '
                                'multi-table-inheritance parent links' %
                                unparse(c), key='identifier-from-field-name:%s'
                                % unparse(a))
                else:
                    ctx.ok(f, 'quoted identifier %s' % unparse(a), c)
    ctx.floor('quoted attribute identifiers in db/', n, 10)
    # the column a foreign key REFERENCES is the related model's primary key
    # *field's* column (anything recorded elsewhere - e.g. the signature's
    # pk_column - is not kept up to date by renames)
    f = p.func(COMMON, 'BaseEvolutionOperations.build_column_schema')
    refs = 0
    for lst in walk_no_nested(f.node):
        if not isinstance(lst, (ast.List, ast.Tuple)):
            continue
        elts = lst.elts
        for i, e in enumerate(elts):
            if const_str(e) != 'REFERENCES':
                continue
            refs += 1
            quoted = [x for x in elts[i + 1:] for c2 in ast.walk(x)
                      if isinstance(c2, ast.Call) and
                      isinstance(c2.func, ast.Name) and c2.func.id == 'qn'
                      for x in [c2]]
            if len(quoted) >= 2 and isinstance(quoted[1].args[0],
                                               ast.Attribute) and \
                    quoted[1].args[0].attr == 'column' and \
                    unparse(quoted[1].args[0].value).endswith('.pk'):
                ctx.ok(f, 'REFERENCES names the related primary key '
                       'field\'s column', quoted[1])
            else:
                ctx.finding(f, quoted[1] if len(quoted) >= 2 else lst,
                            'the referenced column of a foreign key is %s, '
                            'not the related model\'s primary key field '
                            'column (<related>._meta.pk.column)' % (
                                unparse(quoted[1].args[0])
                                if len(quoted) >= 2 else '?'),
                            key='references-not-pk-column')
    ctx.floor('REFERENCES clauses in build_column_schema', refs, 1)


def r11_sibling_return_order(ctx, rule_id='R-C01.11'):
    """SQLiteAlterTableSQLResult.to_sql has two normal exits (no rebuild /
    rebuild).  Both concatenate the same four parts - pre_sql, the SQL
    generated here (indexes), the SQL queued by the operations (self.sql,
    e.g. RENAME COLUMN) and post_sql.  The generated index SQL is built from
    the *old* column names, so it has to run before the queued SQL in both;
    two exits that order the same parts differently contradict each
    other."""
    ctx.rule(rule_id)
    p = ctx.program
    f = p.func('db.sqlite3', 'SQLiteAlterTableSQLResult.to_sql')
    orders = []
    for r in walk_no_nested(f.node):
        if not (isinstance(r, ast.Return) and r.value is not None):
            continue
        parts = []

        def flat(e):
            if isinstance(e, ast.BinOp) and isinstance(e.op, ast.Add):
                flat(e.left)
                flat(e.right)
            else:
                parts.append(unparse(e))
        flat(r.value)
        if len(parts) >= 3:
            orders.append((r, parts))
    ctx.floor('concatenating returns in to_sql', len(orders), 2)
    ref = orders[-1][1]
    for r, parts in orders[:-1]:
        common = [x for x in parts if x in ref]
        if common == [x for x in ref if x in parts]:
            ctx.ok(f, 'both exits concatenate %s in the same order' %
                   ', '.join(common), r)
        else:
            ctx.finding(f, r, 'this exit returns %s while the rebuild exit '
                        'returns %s: the generated index SQL (old column '
                        'names) runs after the queued SQL (which may rename '
                        'the column) on one path and before it on the other'
                        % (' + '.join(parts), ' + '.join(ref)),
                        key='return-order-disagrees')


def r12_state_tracks_indexes_only(ctx, rule_id='R-C01.12'):
    """DatabaseState answers "is there an index on these columns?".  It is
    filled from Django's introspection (get_constraints), which also lists
    primary keys, foreign keys and CHECK constraints as entries with
    index=False, unique=False.  The scanner must filter on the constraint
    kind, otherwise find_index(columns=[fk_col]) hits the pseudo entry and
    ChangeField(db_index=True) on a ForeignKey / PositiveIntegerField
    generates no SQL (or a DROP INDEX of a constraint name)."""
    ctx.rule(rule_id)
    p = ctx.program
    f = p.func(COMMON, 'BaseEvolutionOperations.get_constraints_for_table')
    g = ctx.cfg(f)
    stores = [n for n in g.nodes if n.kind == 'stmt' and
              isinstance(n.ast, ast.Assign) and any(
                  isinstance(t, ast.Subscript) for t in n.ast.targets) and
              isinstance(n.ast.value, ast.Dict) and
              'columns' in dict_literal_keys(n.ast.value)]
    ctx.floor('entries produced by get_constraints_for_table', len(stores), 1)
    from ..flow import ReachingDefs
    from ..util import for_heads, loop_body_ids
    rd = ReachingDefs(g, f.params)
    for n in stores:
        heads = [h for h in for_heads(g) if n.id in loop_body_ids(g, h)]
        from_constraints = any(
            'get_constraints' in unparse(oe)
            for h in heads for _on, oe in rd.origins(h, h.ast.iter))
        if not from_constraints:
            ctx.ok(f, 'entries taken from an index-only source', n.ast)
            continue
        kind_tests = [t for t in g.nodes if t.kind in ('test', 'operand')
                      and any(const_str(x) in ('index', 'unique',
                                               'primary_key', 'foreign_key',
                                               'check')
                              for x in ast.walk(t.ast))]
        tests = []
        for label in ('T', 'F'):
            drop = {(t.id, label) for t in kind_tests}
            if kind_tests and n.id not in g.reachable(
                    [g.entry], follow_exc=True, drop_edges=drop):
                tests = kind_tests
        if tests:
            ctx.ok(f, 'scanned constraints are filtered by kind (%s)' %
                   ' / '.join(sorted({unparse(t.ast) for t in tests})), n.ast)
        else:
            ctx.finding(f, n.ast, 'every entry of get_constraints() is '
                        'recorded as an index, including primary keys, '
                        'foreign keys and CHECK constraints (index=False, '
                        'unique=False): a later find_index(columns=...) '
                        'mistakes them for an existing index',
                        key='state-records-non-indexes')


def r13_deleted_column_forgotten(ctx, rule_id='R-C01.13'):
    """Dropping a column drops the indexes on it.  The delete_column branch
    of generate_table_op_sql (or the handler it calls) must tell the
    database state, otherwise re-adding an indexed column of the same name
    in the same run fails with "This index already exists"."""
    ctx.rule(rule_id)
    p = ctx.program
    consumer = p.func(COMMON, 'BaseEvolutionOperations.generate_table_op_sql')
    chain, _e = _dispatch_chain(consumer, 'op_type')
    body = dict(chain).get('delete_column')
    if body is None:
        raise AnalysisError('%s: no delete_column branch' % rule_id)
    funcs = [consumer]
    eff = sqlite_effective_methods(ctx)
    if 'delete_column' in eff:
        funcs.append(eff['delete_column'])
    found = False
    for st in body:
        for c in ast.walk(st):
            if isinstance(c, ast.Call) and 'database_state' in unparse(c.func) \
                    and call_name(c).startswith(('remove', 'clear', 'delete')):
                found = True
    for fn in funcs[1:]:
        for c in walk_no_nested(fn.node):
            if isinstance(c, ast.Call) and 'database_state' in unparse(c.func) \
                    and call_name(c).startswith(('remove', 'clear', 'delete')):
                found = True
    if found:
        ctx.ok(consumer, 'deleting a column removes its indexes from the '
               'database state', body[0])
    else:
        ctx.finding(consumer, body[0], 'the delete_column operation never '
                    'updates the database state: indexes on the dropped '
                    'column stay recorded (DeleteField x, AddField x '
                    'db_index=True fails with "This index already exists")',
                    key='deleted-column-indexes-stay')


def r14_m2m_through_naming(ctx, rule_id='R-C01.14'):
    """Django names the two foreign keys of an automatic many-to-many table
    from_<model> / to_<model> exactly when the *lower-cased model names* of
    the two ends are equal (also across apps); otherwise <from model> /
    <to model>.  The mock through-model built for SQL generation must take
    the same decision from the same quantity: a comparison of name strings.
    Comparing model objects (MockModel.__eq__ also compares the app label)
    gives a different answer for same-named models of two apps, and the
    generated table has one column instead of two."""
    ctx.rule(rule_id)
    p = ctx.program
    f = p.func('mock_models', 'create_field')
    g = ctx.cfg(f)
    sites = [n for n in g.nodes if n.kind == 'stmt' and
             isinstance(n.ast, ast.Assign) and any(
                 isinstance(x, ast.Constant) and isinstance(x.value, str) and
                 x.value.startswith(('from_', 'to_'))
                 for x in ast.walk(n.ast.value))]
    ctx.floor('from_/to_ naming sites in create_field', len(sites), 1)
    # the innermost if statement whose body holds the naming statements
    inner_ifs = [i for i in walk_no_nested(f.node) if isinstance(i, ast.If)
                 and any(n.ast in i.body or n.ast in i.orelse for n in sites)]
    tests = [t for t in g.nodes if t.kind in ('test', 'operand') and
             any(t.stmt is i for i in inner_ifs) and
             isinstance(t.ast, ast.Compare)]
    if not tests:
        ctx.finding(f, sites[0].ast, 'the from_/to_ naming of an automatic '
                    'many-to-many table is not decided by a comparison',
                    key='m2m-naming-undecided')
        return
    def name_side(e):
        txt = unparse(e)
        return ('.lower()' in txt or 'model_name' in txt or
                txt.endswith('_name') or 'CONSTANT' in txt or
                isinstance(e, ast.Constant))
    good = [t for t in tests if any(
        name_side(x) for x in [t.ast.left] + list(t.ast.comparators))]
    names_only = good
    if names_only and any(t in good for t in names_only) and \
            len(names_only) == len(tests):
        ctx.ok(f, 'from_/to_ naming is decided by comparing lower-cased '
               'model names (as Django does)', names_only[0].ast)
    else:
        bad = [t for t in tests if t not in names_only] or tests
        ctx.finding(f, bad[0].ast, 'the from_/to_ naming of an automatic '
                    'many-to-many table is decided by "%s", not by a '
                    'comparison of lower-cased model names: same-named models '
                    'in two apps get a through table with a single column' %
                    ' '.join(unparse(bad[0].ast).split()),
                    key='m2m-naming-not-by-name')


def r7_optimiser_identity(ctx):
    from .c03 import r7_identity_membership
    r7_identity_membership(ctx, rule_id='R-C01.7')


def r15_defaults_precedence(ctx):
    from .c05 import r8_defaults_precedence
    r8_defaults_precedence(ctx, rule_id='R-C01.15')


QUEUES_NOTHING_BY_DESIGN = {
    'ChangeField': 'a ChangeField whose attributes already have the '
                   'requested values (and whose type does not change) queues '
                   'no operation; pre-existing behaviour, not decided here',
}


def r16_every_model_mutation_queues_an_op(ctx, rule_id='R-C01.16'):
    """AppMutator generates SQL in a second pass: it resets the signature
    and re-simulates a mutation only when it finishes one of the operations
    that mutation queued on the ModelMutator (finish_op).  A model-level
    mutate() that returns without queueing anything - even an operation with
    empty SQL - is therefore *not replayed*: later mutations of the same run
    are lowered against a signature in which it never happened
    (`RenameField(..., db_column=<same column>)` followed by a ChangeField on
    the new name raises FieldDoesNotExist during SQL generation)."""
    ctx.rule(rule_id)
    p = ctx.program
    queue_methods = {m.name for _t, _d, m in model_mutator_producers(ctx)}
    # wrappers on the mutator that end in one of them (add_m2m_table, ...)
    ctx.floor('ModelMutator methods that queue an operation',
              len(queue_methods), 5)
    n_cls = 0
    from ..util import unit
    for m in p.modules.values():
        if not m.name.startswith('django_evolution.mutations'):
            continue
        for c in m.classes.values():
            f = c.methods.get('mutate')
            if f is None or 'model' not in f.params:
                continue
            if not any(isinstance(x, ast.Call) and
                       call_name(x) in queue_methods
                       for fn in unit(ctx, f) for x in walk_no_nested(fn.node)):
                continue       # abstract / delegates elsewhere
            n_cls += 1
            g = ctx.cfg(f)

            def queues(node):
                for x in node.calls():
                    if call_name(x) in queue_methods:
                        return True
                    # a private helper of the class that always queues
                    if isinstance(x.func, ast.Attribute) and \
                            isinstance(x.func.value, ast.Name) and \
                            x.func.value.id == 'self':
                        h = c.find_method(x.func.attr)
                        if h is not None and h is not f:
                            hg = ctx.cfg(h)
                            hq = [n for n in hg.nodes if any(
                                call_name(y) in queue_methods
                                for y in n.calls())]
                            if hq and hg.path(hg.entry, hg.exit, avoid=hq,
                                              follow_exc=False) is None:
                                return True
                return False
            qn = [n for n in g.nodes if queues(n)]
            esc = g.path(g.entry, g.exit, avoid=qn, follow_exc=False)
            if esc is None:
                ctx.ok(f, '%s.mutate queues an operation on every normal '
                       'path' % c.name)
            elif c.name in QUEUES_NOTHING_BY_DESIGN:
                ctx.info('%s.mutate can return without queueing (%s)' % (
                    c.name, QUEUES_NOTHING_BY_DESIGN[c.name]))
            else:
                ctx.finding(f, None, '%s.mutate can return without queueing '
                            'any operation (lines %s): the mutation is then '
                            'not re-simulated when SQL is generated, and '
                            'every later mutation of the run sees a '
                            'signature in which it never happened' % (
                                c.name, ' -> '.join(
                                    str(getattr(x.stmt, 'lineno', 0))
                                    for x in esc if x.stmt is not None)),
                            key='mutate-queues-nothing')
    ctx.floor('model-level mutation classes that queue operations', n_cls, 6)


def r17_rename_rewrites_the_stored_signature(ctx):
    from .c11 import r2_rewrite_loops
    r2_rewrite_loops(ctx, rule_id='R-C01.17')


def r18_index_names_from_columns(ctx, rule_id='R-C01.18'):
    """Django names an index after its *columns*; create_index_name() is what
    the backends record in the DatabaseState for an index they just created.
    When a caller passes both lists, the column names must win (`col_names or
    field_names`): for a ForeignKey or a field with db_column the two differ,
    the state then remembers a name the database does not have, and the
    DROP INDEX of a later mutation of the same run names a non-existent
    index."""
    ctx.rule(rule_id)
    p = ctx.program
    f = p.func('compat.db', 'create_index_name')
    n = 0
    for c in walk_no_nested(f.node):
        if isinstance(c, ast.Call) and call_name(c) == '_create_index_name' \
                and len(c.args) >= 2:
            n += 1
            a = c.args[1]
            names = [x.id for x in (a.values if isinstance(a, ast.BoolOp)
                                    else [a]) if isinstance(x, ast.Name)]
            if names and names[0].startswith('col'):
                ctx.ok(f, 'the schema editor is given the column names '
                       '(field names only as a fallback)', c)
            else:
                ctx.finding(f, c, 'create_index_name passes %s to the schema '
                            'editor: for a ForeignKey / db_column field the '
                            'recorded index name is computed from the field '
                            'name while the real index is named after the '
                            'column' % ' '.join(unparse(a).split()),
                            key='index-name-from-field-names')
    ctx.floor('_create_index_name calls in create_index_name', n, 1)


def r19_q_state_stored_independently(ctx):
    from .c06 import r13_q_state_stored_independently
    r13_q_state_stored_independently(ctx, rule_id='R-C01.19')


def r20_indexes_identified_by_ordered_columns(ctx):
    """An index on (a, b) and an index on (b, a) are different indexes.
    DatabaseState.find_index() - the lookup behind every "does this index
    already exist?" test and every DROP INDEX - must compare the recorded
    column *sequence* with the requested one; comparing them as sets makes
    adding the reversed index a no-op and lets a removal drop the wrong
    one."""
    ctx.rule('R-C01.20')
    p = ctx.program
    f = p.func('db.state', 'DatabaseState.find_index')
    n = 0
    for c in walk_no_nested(f.node):
        if isinstance(c, ast.Compare) and 'columns' in unparse(c):
            n += 1
            wraps = [x for x in ast.walk(c) if isinstance(x, ast.Call) and
                     call_name(x) in ('set', 'frozenset', 'sorted')]
            if wraps:
                ctx.finding(f, c, 'find_index compares index columns as %s: '
                            'column order no longer distinguishes two '
                            'composite indexes over the same columns' %
                            ' '.join(unparse(c).split()),
                            key='index-columns-unordered')
            else:
                ctx.ok(f, 'index columns are compared as sequences', c)
    ctx.floor('column comparisons in DatabaseState.find_index', n, 1)


def r21_deleted_column_forgets_every_covering_index(ctx):
    """The SQLite rebuild for a dropped column drops *every* index that has
    the column among its columns (single-column, index_together,
    unique_together, Meta.indexes).  DatabaseState.remove_column_indexes is
    what keeps the recorded state in step: the deletion inside its loop must
    be controlled by a membership test of the column in the index's columns,
    not by an equality of the whole column list (which only matches
    single-column indexes, so a multi-column index stays recorded and a later
    ChangeMeta re-declaring it is skipped as "already there")."""
    ctx.rule('R-C01.21')
    from ..util import expand_expr
    p = ctx.program
    try:
        f = p.func('db.state', 'DatabaseState.remove_column_indexes')
    except AnalysisError:
        # whether the state is told about a dropped column at all is
        # R-C01.13's question; without the helper there is nothing to ask
        # here
        ctx.info('R-C01.21: DatabaseState.remove_column_indexes does not '
                 'exist; see R-C01.13')
        return
    g = ctx.cfg(f)
    dels = [n for n in g.nodes if n.kind == 'stmt' and (
        isinstance(n.ast, ast.Delete) or any(
            isinstance(c.func, ast.Attribute) and c.func.attr == 'pop'
            for c in n.calls()))]
    ctx.floor('index removals in remove_column_indexes', len(dels), 1)
    col = f.params[2] if len(f.params) > 2 else 'column'
    for d in dels:
        member = eq = None
        for t in g.nodes:
            if t.kind not in ('test', 'operand') or t.ast is None:
                continue
            e = expand_expr(f, t.ast)
            for c in ast.walk(e):
                if not (isinstance(c, ast.Compare) and len(c.ops) == 1 and
                        'columns' in unparse(c)):
                    continue
                if isinstance(c.ops[0], ast.In) and \
                        isinstance(c.left, ast.Name) and c.left.id == col \
                        and g.guarded_by(d, t, 'T'):
                    member = t
                elif isinstance(c.ops[0], ast.NotIn) and \
                        isinstance(c.left, ast.Name) and c.left.id == col \
                        and g.guarded_by(d, t, 'F'):
                    member = t
                elif isinstance(c.ops[0], (ast.Eq, ast.NotEq)) and (
                        g.guarded_by(d, t, 'T') or g.guarded_by(d, t, 'F')):
                    eq = t
        if eq is not None:
            ctx.finding(f, eq.ast, 'remove_column_indexes forgets an index '
                        'only when its column list *equals* the deleted '
                        'column (%s): a multi-column index covering the '
                        'column stays recorded although the rebuild dropped '
                        'it, and is never re-created' %
                        ' '.join(unparse(eq.ast).split()),
                        key='covering-index-by-equality')
        elif member is not None:
            ctx.ok(f, 'every index whose columns contain the deleted column '
                   'is forgotten', d.ast)
        else:
            ctx.finding(f, d.ast, 'the removal in remove_column_indexes is '
                        'not controlled by a membership test of the column '
                        'in the index\'s columns',
                        key='covering-index-not-by-membership')


def run(ctx):
    r21_deleted_column_forgets_every_covering_index(ctx)
    r20_indexes_identified_by_ordered_columns(ctx)
    r19_q_state_stored_independently(ctx)
    r18_index_names_from_columns(ctx)
    r17_rename_rewrites_the_stored_signature(ctx)
    r16_every_model_mutation_queues_an_op(ctx)
    r15_defaults_precedence(ctx)
    r14_m2m_through_naming(ctx)
    r12_state_tracks_indexes_only(ctx)
    r13_deleted_column_forgotten(ctx)
    r10_quoted_identifiers(ctx)
    r11_sibling_return_order(ctx)
    r9_deleted_filter_scope(ctx)
    r8_index_state_reaches_rebuild(ctx)
    r7_optimiser_identity(ctx)
    r6_column_kind(ctx)
    r1_op_type_protocol(ctx)
    r2_reflective_dispatch(ctx)
    r3_sqlite_tag_protocol(ctx)
    r4_index_bookkeeping(ctx)
    r5_rebuild_facets(ctx)


def run_thorough(ctx):
    """PostgreSQL / MySQL: tag vocabulary of the generic AlterTableSQLResult
    (information only; outside the SQLite quantifier)."""
    ctx.rule('R-C01.3')
    for mod in ('db.postgresql', 'db.mysql'):
        eff = effective_methods(ctx, mod, 'EvolutionOperations')
        tags = sorted({t for t, _, _ in sqlite_tag_producers(ctx, eff)})
        ctx.info('%s effective alter-table tags: %s' % (mod, tags))
