"""C16 - evolving one database only applies what is routed to it."""
from __future__ import annotations

import ast
from typing import Dict, List, Set

from ..program import (AnalysisError, Class, Func, call_name, const_str,
                       dotted, kwarg, norm_key, unparse, walk_no_nested)
from ..util import is_self_attr, nodes_with_call

EXPLANATION = (
    'Decided clauses: R-C16.1 every is_mutable() that does not return a '
    'constant consults the router (a call reaching router.db_for_write / '
    'allow_migrate*) on every returning path, short-circuit operands '
    'included; R-C16.2 a model enters an app signature, and the list of '
    'installable models, only under db_router_allows_schema_upgrade(<the '
    'database being evolved>, ...); R-C16.3 generate_mutations_info runs only '
    'mutations that passed is_mutation_mutable, which forwards the evolver\'s '
    'database; DeleteApplication filters each model through '
    'DeleteModel.is_mutable; R-C16.4 (database threading) every ORM access to '
    'Version/Evolution in the evolve path names its database, every '
    'connections[...] / SQLExecutor / DatabaseState / atomic is fed from the '
    'function\'s or object\'s database, and a callee that takes a database '
    'parameter is given the caller\'s one; '
    'R-C16.5 the pending-mutation filter exempts from the changed-models test only model-less mutations and RenameModel (evaluated over the mutation class hierarchy).'
    ' '
    'R-C16.2 now recognises the comprehension, filter(), guarded-append and removal-from-a-copy forms of the installable-models filter; R-C16.6 no for loop of the package grows or shrinks the container it iterates.'
    ' '
    'R-C16.7 queue_evolve_all_apps queues every installed app (no path around the queueing call inside the loop).'
    ' '
    'R-C16.8 the per-task loop of _build_batches has no break.'
    ' '
    'R-C16.9 the per-database SQL evolution file is <database>_<label>.sql.')
NOT_DECIDED = 'Behaviour under arbitrary routers and model splits.'
TECHNIQUE = ('CFG must-pass-through with short-circuit expansion '
             '(is_mutable), control dependence of membership on the router '
             'predicate, who-filters-what over the call graph, argument '
             'threading of database aliases')
LEVEL_NOTE = ('Trusted: Python ast, CFG with short-circuit expansion, CHA; '
              'router predicates are identified by name '
              '(get_database_for_model_name, db_router_allows_*, '
              'router.allow_migrate*/db_for_write).')

ROUTER_CALLS = {'get_database_for_model_name', 'db_for_write',
                'allow_migrate', 'allow_migrate_model', 'allow_syncdb',
                'db_router_allows_schema_upgrade', 'db_router_allows_migrate',
                'db_router_allows_syncdb'}
DB_PARAMS = ('database', 'database_name', 'using', 'db_name')
ORM_SCOPE = ('evolve.', 'utils.evolutions', 'utils.sql', 'management',
             'models', 'signature', 'diff')
THREAD_EXCEPTIONS = {
    ('get_app_upgrade_info', 'get_app_mutations'):
        'database only selects "<db>_<label>.sql" file names there; the '
        'caller scans for MoveToDjangoMigrations mutations, which never live '
        'in .sql files',
}


def r1_is_mutable_consults_router(ctx):
    ctx.rule('R-C16.1')
    p = ctx.program
    base = p.cls('mutations.base', 'BaseMutation')
    impls = []
    for c in [base] + base.all_subclasses():
        m = c.methods.get('is_mutable')
        if m is not None:
            impls.append(m)
    ctx.floor('is_mutable implementations', len(impls), 5)
    for m in impls:
        g = ctx.cfg(m)
        rets = [n for n in g.nodes if n.kind == 'stmt' and
                isinstance(n.ast, ast.Return)]
        if all(isinstance(r.ast.value, ast.Constant) for r in rets):
            ctx.ok(m, '%s returns the constant %s (not a routing decision)' %
                   (m.qualname, [r.ast.value.value for r in rets]))
            continue
        routers = [n for n in g.nodes
                   if any(call_name(c) in ROUTER_CALLS for c in n.calls())]
        if not routers:
            ctx.finding(m, None, '%s never consults the router' %
                        m.qualname, key='no-router-call')
            continue
        w = g.must_pass(g.entry, g.exit, routers, follow_exc=False)
        if w is None:
            ctx.ok(m, 'every returning path consults the router')
        else:
            ctx.finding(m, routers[0].ast, '%s can return without consulting '
                        'the router: when a database name is passed the '
                        'lookup is short-circuited and the result only '
                        'compares the name with itself, so models routed '
                        'elsewhere are reported mutable on this database' %
                        m.qualname, path=w, key='router-skipped')


def r2_router_guarded_membership(ctx):
    ctx.rule('R-C16.2')
    p = ctx.program
    f = p.func('signature', 'AppSignature.from_app')
    g = ctx.cfg(f)
    adds = [n for n, c in nodes_with_call(g, 'add_model')]
    tests = [t for t in g.nodes if t.kind == 'test' and any(
        call_name(c) == 'db_router_allows_schema_upgrade' for c in t.calls())]
    if adds and tests and all(any(g.guarded_by(a, t, 'T') for t in tests)
                              for a in adds):
        c = [c for c in tests[0].calls()
             if call_name(c) == 'db_router_allows_schema_upgrade'][0]
        if c.args and isinstance(c.args[0], ast.Name) and \
                c.args[0].id in f.params:
            ctx.ok(f, 'add_model is control-dependent on '
                   'db_router_allows_schema_upgrade(%s, ...)' % c.args[0].id,
                   c)
        else:
            ctx.finding(f, c, 'the router is not asked about the database '
                        'parameter of from_app')
    else:
        ctx.finding(f, None, 'AppSignature.from_app adds models without the '
                    'router predicate: the stored signature would cover '
                    'models routed to other databases', key='unguarded-add')
    f = p.func('compat.db', 'db_get_installable_models_for_app')
    from ..util import through_copies
    pred_calls = [c for c in ast.walk(f.node) if isinstance(c, ast.Call) and
                  call_name(c) == 'db_router_allows_schema_upgrade']

    def asks_about_this_db(c):
        if not c.args:
            return False
        a = through_copies(f, c.args[0])
        return (isinstance(a, ast.Attribute) and a.attr == 'db_name') or \
            (isinstance(a, ast.Name) and a.id in f.params)
    form = None
    for n in ast.walk(f.node):
        # A: comprehension filter
        if isinstance(n, (ast.ListComp, ast.GeneratorExp, ast.SetComp)):
            for gen in n.generators:
                for cond in gen.ifs:
                    if any(c in pred_calls and asks_about_this_db(c)
                           for c in ast.walk(cond)):
                        form = form or 'comprehension filter'
        # D: filter(lambda m: pred(...), models)
        if isinstance(n, ast.Call) and call_name(n) == 'filter' and n.args \
                and any(c in pred_calls and asks_about_this_db(c)
                        for c in ast.walk(n.args[0])):
            form = form or 'filter()'
        # B / C: loop with a guarded append, or a guarded removal from a
        # container other than the one being iterated
        if isinstance(n, ast.For):
            for i in ast.walk(n):
                if not (isinstance(i, ast.If) and any(
                        c in pred_calls and asks_about_this_db(c)
                        for c in ast.walk(i.test))):
                    continue
                for st in i.body + i.orelse:
                    for c in ast.walk(st):
                        if isinstance(c, ast.Call) and \
                                isinstance(c.func, ast.Attribute):
                            if c.func.attr in ('append', 'add'):
                                form = form or 'guarded append'
                            if c.func.attr in ('remove', 'discard') and \
                                    unparse(c.func.value) != unparse(n.iter):
                                form = form or 'guarded removal (from a copy)'
                    if isinstance(st, ast.Continue):
                        form = form or 'guarded continue'
    ok = form is not None
    if ok:
        ctx.ok(f, 'installable models are filtered by '
               'db_router_allows_schema_upgrade(db_state.db_name, ...) (%s)'
               % form)
    elif pred_calls and all(asks_about_this_db(c) for c in pred_calls):
        ctx.info('R-C16.2: db_get_installable_models_for_app calls the '
                 'router predicate in a form the matcher does not know; see '
                 'R-C16.6 for in-place removal')
    else:
        ctx.finding(f, None, 'db_get_installable_models_for_app no longer '
                    'filters by the router for db_state.db_name: tables '
                    'would be created on the wrong database',
                    key='installable-unfiltered')
    # Django's router contract: allow_migrate(db, app_label, model_name=...)
    # receives the *lower-cased* _meta.model_name; allow_migrate_model(db,
    # model) derives it itself
    for pf in p.module('compat.db').all_funcs():
        for c in walk_no_nested(pf.node):
            if isinstance(c, ast.Call) and call_name(c) == 'allow_migrate' \
                    and kwarg(c, 'model_name') is not None:
                v = kwarg(c, 'model_name')
                if isinstance(v, ast.Attribute) and v.attr == 'model_name':
                    ctx.ok(pf, 'router hint model_name is _meta.model_name',
                           c)
                else:
                    ctx.finding(pf, c, 'router.allow_migrate is given '
                                'model_name=%s; routers are written against '
                                'the lower-cased _meta.model_name, so a '
                                'router keyed on model names no longer '
                                'recognises any model and everything is '
                                'allowed on every database' % unparse(v),
                                key='router-model-name-kind')
    # the predicate chain ends in the real router
    for fn in ('db_router_allows_schema_upgrade', 'db_router_allows_migrate'):
        pf = p.func('compat.db', fn)
        names = {call_name(c) for c in walk_no_nested(pf.node)
                 if isinstance(c, ast.Call)}
        if names & ROUTER_CALLS:
            ctx.ok(pf, '%s delegates to %s' % (fn, sorted(names &
                                                          ROUTER_CALLS)))
        else:
            ctx.finding(pf, None, '%s no longer asks the router' % fn,
                        key='predicate-no-router')
        rets = [n for n in walk_no_nested(pf.node)
                if isinstance(n, ast.Return)]
        dbp = pf.params[0]
        if all(not isinstance(r.value, ast.Call) or
               (r.value.args and isinstance(r.value.args[0], ast.Name) and
                r.value.args[0].id == dbp) for r in rets
               if r.value is not None and not isinstance(r.value,
                                                         ast.Constant)):
            ctx.ok(pf, '%s passes its database argument on' % fn)
        else:
            ctx.finding(pf, None, '%s does not pass its database argument to '
                        'the router' % fn, key='predicate-db-arg')


def r3_mutations_filtered(ctx):
    ctx.rule('R-C16.3')
    p = ctx.program
    f = p.func('evolve.evolve_app_task',
               'EvolveAppTask.generate_mutations_info')
    g = ctx.cfg(f)
    runs = nodes_with_call(g, 'run_mutations')
    ctx.floor('run_mutations call sites', len(runs), 1)
    for n, c in runs:
        arg = c.args[0] if c.args else None
        ok = False
        if isinstance(arg, ast.Name):
            for d in walk_no_nested(f.node):
                if isinstance(d, ast.Assign) and any(
                        isinstance(t, ast.Name) and t.id == arg.id
                        for t in d.targets) and \
                        isinstance(d.value, ast.ListComp) and any(
                            isinstance(x, ast.Call) and
                            call_name(x) == 'is_mutation_mutable'
                            for gen in d.value.generators
                            for cond in gen.ifs for x in ast.walk(cond)):
                    ok = True
        if ok:
            ctx.ok(f, 'only mutations that passed is_mutation_mutable are '
                   'run', c)
        else:
            ctx.finding(f, c, 'run_mutations receives a list that was not '
                        'filtered through is_mutation_mutable')
    im = p.func('evolve.base', 'BaseEvolutionTask.is_mutation_mutable')
    calls = [c for c in walk_no_nested(im.node)
             if isinstance(c, ast.Call) and call_name(c) == 'is_mutable']
    if calls and kwarg(calls[0], 'database') is not None and \
            'database_name' in unparse(kwarg(calls[0], 'database')):
        ctx.ok(im, 'is_mutation_mutable forwards '
               'database=evolver.database_name', calls[0])
    else:
        ctx.finding(im, calls[0] if calls else None, 'is_mutation_mutable '
                    'does not forward the evolver\'s database',
                    key='no-database-forward')
    for q in ('DeleteApplication.simulate', 'DeleteApplication.mutate'):
        df = p.func('mutations.delete_application', q)
        g = ctx.cfg(df)
        tests = [t for t in g.nodes if t.kind == 'test' and any(
            call_name(c) == 'is_mutable' for c in t.calls())]
        acts = [n for n in g.nodes for c in n.calls()
                if call_name(c) in ('remove_model_sig', 'run_mutation')]
        if acts and tests and all(any(g.guarded_by(a, t, 'T') for t in tests)
                                  for a in acts):
            c = [c for c in tests[0].calls() if call_name(c) == 'is_mutable']
            dbv = kwarg(c[0], 'database')
            if dbv is not None and 'database' in unparse(dbv):
                ctx.ok(df, '%s touches a model only if DeleteModel.is_mutable'
                       '(database=%s)' % (q, unparse(dbv)), c[0])
            else:
                ctx.finding(df, c[0], '%s does not pass its database to '
                            'is_mutable' % q)
        else:
            ctx.finding(df, None, '%s deletes models without the per-model '
                        'is_mutable filter' % q, key='delete-unfiltered')


def _db_sources(f: Func) -> Set[str]:
    out = {x for x in f.params if x in DB_PARAMS}
    if 'evolver' in f.params:
        out.add('evolver.database_name')
    if f.cls is not None:
        for c in f.cls.mro():
            for a, v in c.init_attrs().items():
                if isinstance(v, ast.Name) and v.id in DB_PARAMS:
                    out.add('self.%s' % a)
                if a == 'evolver':
                    out.add('self.evolver.database_name')
    return out


def r4_database_threading(ctx):
    ctx.rule('R-C16.4')
    p = ctx.program
    n_orm = 0
    n_thread = 0
    for f in p.all_funcs():
        mod = f.module.name.split('django_evolution.', 1)[-1]
        in_scope = mod.startswith(ORM_SCOPE) and \
            not mod.startswith('management.commands')
        if not in_scope:
            continue
        have = _db_sources(f)
        # also locals bound from evolver.database_name
        locals_db = set()
        for n in walk_no_nested(f.node):
            if isinstance(n, ast.Assign) and isinstance(n.value,
                                                        ast.Attribute) and \
                    n.value.attr in ('database_name', 'db_name'):
                for t in n.targets:
                    if isinstance(t, ast.Name):
                        locals_db.add(t.id)
        for c in walk_no_nested(f.node, include_lambda=True):
            if not isinstance(c, ast.Call):
                continue
            # ORM manager chains on Version / Evolution
            if isinstance(c.func, ast.Attribute) and c.func.attr in (
                    'filter', 'all', 'get', 'exists', 'bulk_create', 'count',
                    'create', 'current_version', 'values_list', 'delete'):
                chain = unparse(c.func.value)
                root = chain.split('.')[0]
                if root in ('Version', 'Evolution') and '.objects' in chain:
                    n_orm += 1
                    uses = '.using(' in chain or kwarg(c, 'using') is not None
                    if uses:
                        ctx.ok(f, 'ORM access names its database: %s' %
                               norm_key(c)[:60], c)
                    elif not have and not locals_db:
                        ctx.info('ORM access without a database in scope at '
                                 '%s (%s)' % (f.loc(c), f.qualname))
                    else:
                        ctx.finding(f, c, 'ORM access %s does not name the '
                                    'database although %s is in scope: it '
                                    'reads/writes the default database' % (
                                        norm_key(c)[:60],
                                        sorted(have | locals_db)))
            if call_name(c) == 'save' and isinstance(c.func, ast.Attribute) \
                    and isinstance(c.func.value, ast.Name) and \
                    c.func.value.id in ('version', 'evolution'):
                n_orm += 1
                if kwarg(c, 'using') is not None:
                    ctx.ok(f, 'save(using=...)', c)
                else:
                    ctx.finding(f, c, 'save() without using=')
            # threading to callees that take a database parameter
            targets, prec = ctx.resolve(f, c)
            if prec not in ('exact', 'cha') or not targets:
                continue
            t = targets[0]
            tparams = [x for x in t.params if x in DB_PARAMS]
            if not tparams or not (have or locals_db):
                continue
            if t.name in ('__init__',) and t.cls is not None and \
                    t.cls.name in ('Simulation',):
                pass
            tp = tparams[0]
            passed = kwarg(c, tp)
            if passed is None:
                # positional?
                pos = [x for x in t.params
                       if not (t.cls is not None and x in ('self', 'cls'))]
                if tp in pos and pos.index(tp) < len(c.args):
                    passed = c.args[pos.index(tp)]
            if passed is None and any(k.arg is None for k in c.keywords):
                continue        # **kwargs forwarded
            n_thread += 1
            if passed is not None:
                ctx.ok(f, '%s(%s=%s) receives the caller\'s database' % (
                    t.name, tp, unparse(passed)[:30]), c)
            elif (f.name, t.name) in THREAD_EXCEPTIONS:
                ctx.ok(f, 'accepted: %s -> %s drops the database: %s' % (
                    f.name, t.name, THREAD_EXCEPTIONS[(f.name, t.name)]), c)
            else:
                ctx.finding(f, c, '%s has a database in scope (%s) but calls '
                            '%s without %s=: the callee falls back to the '
                            'default database' % (
                                f.qualname, sorted(have | locals_db), t.name,
                                tp), key='db-not-threaded:%s' % t.name)
    ctx.floor('ORM accesses on Version/Evolution in scope', n_orm, 7)
    ctx.floor('calls to database-parameterised callees', n_thread, 10)


def r5_pending_filter_exemptions(ctx):
    """get_app_pending_mutations() is what keeps mutations for models that
    are not on the database being evolved out of the run: a model routed
    elsewhere is in neither the stored nor the target signature of this
    database, so it is never in `changed_models`, and every mutation bound to
    it is dropped.  The filter may exempt from that test only mutations that
    are not bound to a model at all (no model_name) and RenameModel (which
    the optimiser needs and discards itself).  The exemption set is computed
    by evaluating the filter's other disjuncts over the mutation class
    hierarchy."""
    ctx.rule('R-C16.5')
    p = ctx.program
    f = p.func('utils.evolutions', 'get_app_pending_mutations')
    base = p.cls('mutations.base', 'BaseMutation')
    classes = [c for c in base.all_subclasses()]
    by_name = {c.name: c for c in classes + [base]}

    def has_model_name(c):
        for k in c.mro():
            init = k.methods.get('__init__')
            if init is not None and any(
                    is_self_attr(t, 'model_name')
                    for a in walk_no_nested(init.node)
                    if isinstance(a, ast.Assign) for t in a.targets):
                return True
        return False

    filt = None
    for n in walk_no_nested(f.node, include_lambda=True):
        if isinstance(n, ast.comprehension):
            for t in n.ifs:
                if 'changed_models' in unparse(t):
                    filt = (n, t)
    if filt is None:
        ctx.finding(f, None, 'pending mutations are no longer filtered by the '
                    'models that changed on this database',
                    key='no-changed-models-filter')
        return
    comp, test = filt
    var = comp.target.id if isinstance(comp.target, ast.Name) else 'mutation'
    disj = test.values if isinstance(test, ast.BoolOp) and \
        isinstance(test.op, ast.Or) else [test]
    others = [d for d in disj if 'changed_models' not in unparse(d)]
    if len(others) == len(disj):
        ctx.finding(f, test, 'the changed-models test is not a disjunct of '
                    'the filter', key='filter-shape')
        return

    def ev(e, c):
        """truth of a disjunct for an instance of concrete class c; None if
        unknown"""
        if isinstance(e, ast.UnaryOp) and isinstance(e.op, ast.Not):
            v = ev(e.operand, c)
            return None if v is None else not v
        if isinstance(e, ast.Call) and call_name(e) == 'hasattr' and \
                len(e.args) == 2 and const_str(e.args[1]) == 'model_name':
            return has_model_name(c)
        if isinstance(e, ast.Call) and call_name(e) == 'isinstance' and \
                len(e.args) == 2:
            names = [x.id for x in ast.walk(e.args[1])
                     if isinstance(x, ast.Name)]
            if all(nm in by_name for nm in names) and names:
                return any(by_name[nm] in c.mro() for nm in names)
        if isinstance(e, ast.BoolOp):
            vals = [ev(v, c) for v in e.values]
            if isinstance(e.op, ast.And):
                if any(v is False for v in vals):
                    return False
                return True if all(v is True for v in vals) else None
            if any(v is True for v in vals):
                return True
            return False if all(v is False for v in vals) else None
        return None

    concrete = [c for c in classes if not c.name.startswith('Base')]
    ctx.floor('concrete mutation classes', len(concrete), 10)
    n_bad = 0
    for c in sorted(concrete, key=lambda x: x.name):
        vals = [ev(d, c) for d in others]
        exempt = any(v is True for v in vals)
        unknown = any(v is None for v in vals) and not exempt
        if unknown:
            ctx.finding(f, test, 'cannot decide whether %s is exempt from the '
                        'changed-models filter (unrecognised condition %s)' %
                        (c.name, ' / '.join(unparse(d) for d in others)),
                        key='filter-unknown:%s' % c.name)
            n_bad += 1
        elif exempt and has_model_name(c) and c.name != 'RenameModel':
            ctx.finding(f, test, '%s is bound to a model (model_name) but is '
                        'exempt from the changed-models filter: a %s for a '
                        'model routed to another database reaches the '
                        'mutator and the evolution of this database fails '
                        '(or is applied here)' % (c.name, c.name),
                        key='filter-exempts:%s' % c.name)
            n_bad += 1
    if not n_bad:
        ctx.ok(f, 'only model-less mutations and RenameModel are exempt from '
               'the changed-models filter (%d classes evaluated)' %
               len(concrete), test)


def r6_no_mutation_of_iterated_container(ctx, rule_id='R-C16.6'):
    """`for x in L: ... L.remove(x)` skips the element that follows every
    removed one.  Where the loop is a filter (the router is asked about each
    model and rejected ones are removed) the skipped element is never shown
    to the router and stays in the result: a model routed elsewhere gets its
    table created on this database.  Checked for every loop of the package:
    the container a `for` iterates is not grown or shrunk in the loop body
    (unless the loop is left right after)."""
    ctx.rule(rule_id)
    p = ctx.program
    MUT = {'remove', 'append', 'insert', 'pop', 'clear', 'extend', 'add',
           'discard', 'popitem'}
    n_loops, hit = 0, False
    for m in p.modules.values():
        for f in m.all_funcs():
            for l in walk_no_nested(f.node):
                if not isinstance(l, ast.For):
                    continue
                it = l.iter
                if isinstance(it, ast.Call) and it.args and \
                        unparse(it.func).startswith('six.iter'):
                    it = it.args[0]
                elif isinstance(it, ast.Call) and \
                        isinstance(it.func, ast.Attribute) and \
                        it.func.attr in ('items', 'keys', 'values') and \
                        not it.args:
                    it = it.func.value
                if not isinstance(it, (ast.Name, ast.Attribute)):
                    continue
                n_loops += 1
                key = unparse(it)

                def scan(stmts):
                    for k, st in enumerate(stmts):
                        leaves = any(isinstance(x, (ast.Break, ast.Return,
                                                    ast.Raise))
                                     for x in stmts[k + 1:k + 2])
                        for x in walk_no_nested(st) if not isinstance(
                                st, (ast.If, ast.For, ast.While, ast.Try,
                                     ast.With)) else []:
                            bad = None
                            if isinstance(x, ast.Call) and \
                                    isinstance(x.func, ast.Attribute) and \
                                    x.func.attr in MUT and \
                                    unparse(x.func.value) == key:
                                bad = x
                            if isinstance(x, ast.Subscript) and \
                                    isinstance(x.ctx, ast.Del) and \
                                    unparse(x.value) == key:
                                bad = x
                            if bad is not None and not leaves:
                                yield bad
                        for blk in ('body', 'orelse', 'finalbody'):
                            b = getattr(st, blk, None)
                            if isinstance(b, list) and b and \
                                    isinstance(b[0], ast.stmt):
                                for y in scan(b):
                                    yield y
                        for h in getattr(st, 'handlers', []):
                            for y in scan(h.body):
                                yield y
                for bad in scan(l.body):
                    hit = True
                    ctx.finding(f, bad, '%s changes %s (%s) while a for loop '
                                'iterates it: the element after each removed '
                                'one is skipped, so it is never tested and '
                                'stays in the result' % (
                                    f.qualname, key,
                                    ' '.join(unparse(bad).split())),
                                key='mutated-while-iterated:%s' % key)
    ctx.floor('for loops over a named container in the package', n_loops, 50)
    if not hit:
        ctx.ok(('django_evolution', '*'), 'no loop changes the container it '
               'iterates')


def r7_every_installed_app_is_queued(ctx):
    """Whether a database has work left for an app depends on the signature
    *stored in that database* (a model the app no longer has there may still
    have to be dropped), which only the task's own preparation looks at.
    queue_evolve_all_apps() must therefore queue every installed app: inside
    its loop the queueing call is not conditional on anything computed from
    the current models / the target signature."""
    ctx.rule('R-C16.7')
    p = ctx.program
    f = p.func('evolve.evolver', 'Evolver.queue_evolve_all_apps')
    g = ctx.cfg(f)
    n = 0
    for node in g.nodes:
        for c in node.calls():
            if call_name(c) not in ('queue_evolve_app', 'queue_task'):
                continue
            n += 1
            bad = []
            for h in g.nodes:
                if h.kind != 'for':
                    continue
                body = [s_ for s_, l in h.succ if l == 'T']
                for b in body:
                    if b is node:
                        continue
                    skip = g.path(b, h, avoid=[node], follow_exc=False)
                    if skip is not None:
                        tests = [x for x in skip
                                 if x.kind in ('test', 'operand') and
                                 x.ast is not None]
                        bad.append(' / '.join(
                            ' '.join(unparse(x.ast).split())
                            for x in tests) or 'an unconditional jump')
            if bad:
                ctx.finding(f, c, 'queue_evolve_all_apps queues an app only '
                            'when "%s": an app that is skipped is never '
                            'compared with the signature stored in this '
                            'database, so a model it still has to drop here '
                            '(its last model routed to this database was '
                            'deleted) stays, unrecorded' % '; '.join(
                                sorted(set(bad))),
                            key='app-queueing-conditional')
            else:
                ctx.ok(f, 'every installed app is queued', c)
    ctx.floor('queueing calls in queue_evolve_all_apps', n, 1)


def r8_every_task_of_a_batch_is_built(ctx):
    """_build_batches() generates the executed SQL and updates the stored
    signature task by task.  The per-task loop must visit every task of the
    batch: a `break` (instead of `continue`) at the "app is new on this
    database" guard drops every app queued after a newly installed one -
    their tables are not altered, their signature is not updated, and their
    evolutions are recorded as applied all the same."""
    ctx.rule('R-C16.8')
    p = ctx.program
    f = p.func('evolve.evolve_app_task', 'EvolveAppTask._build_batches')
    n = 0
    for loop in walk_no_nested(f.node):
        if not (isinstance(loop, ast.For) and
                'task_evolutions' in unparse(loop.iter)):
            continue
        n += 1

        def breaks(stmts):
            for st in stmts:
                if isinstance(st, ast.Break):
                    yield st
                elif isinstance(st, (ast.For, ast.While, ast.FunctionDef)):
                    continue
                else:
                    for blk in ('body', 'orelse', 'finalbody'):
                        b = getattr(st, blk, None)
                        if isinstance(b, list) and b and \
                                isinstance(b[0], ast.stmt):
                            for y in breaks(b):
                                yield y
                    for h in getattr(st, 'handlers', []):
                        for y in breaks(h.body):
                            yield y
        bs = list(breaks(loop.body))
        if bs:
            ctx.finding(f, bs[0], '_build_batches leaves the loop over the '
                        'tasks of a batch with `break`: the tasks after '
                        'this one get no SQL and no signature update on '
                        'this database, yet their evolutions are recorded',
                        key='task-loop-left-early')
        else:
            ctx.ok(f, 'every task of a batch is visited', loop)
    ctx.floor('per-task loops in _build_batches', n, 1)


def r9_per_database_sql_file_name(ctx):
    """A raw-SQL evolution is routed to a database by its file name only:
    `<label>.sql` runs everywhere, `<database>_<label>.sql` on that database
    (docs: "db_name_evolution_name.sql").  get_app_mutations() must build
    the second name in that order; with the two strings swapped the file is
    never found, nothing runs on that database, and the evolution is
    recorded as applied."""
    ctx.rule('R-C16.9')
    p = ctx.program
    f = p.func('utils.evolutions', 'get_app_mutations')
    n = 0
    from ..util import unit
    for fn in unit(ctx, f):
      for b in walk_no_nested(fn.node):
        if isinstance(b, ast.BinOp) and isinstance(b.op, ast.Mod) and \
                const_str(b.left) == '%s_%s.sql' and \
                  isinstance(b.right, ast.Tuple) and len(b.right.elts) == 2:
              n += 1
              first = unparse(b.right.elts[0])
              if 'database' in first or first.startswith('db'):
                  ctx.ok(f, 'per-database SQL evolution file is '
                         '<database>_<label>.sql', b)
              else:
                  ctx.finding(f, b, 'get_app_mutations looks for the '
                              'per-database SQL evolution under "%s" - the '
                              'documented name is <database>_<label>.sql; the '
                              'shipped file is never found and the evolution '
                              'is recorded without running' %
                              ' '.join(unparse(b).split()),
                              key='per-db-sql-name-order')
    ctx.floor('per-database SQL file name patterns', n, 1)


def run(ctx):
    r9_per_database_sql_file_name(ctx)
    r8_every_task_of_a_batch_is_built(ctx)
    r7_every_installed_app_is_queued(ctx)
    r6_no_mutation_of_iterated_container(ctx)
    r5_pending_filter_exemptions(ctx)
    r1_is_mutable_consults_router(ctx)
    r2_router_guarded_membership(ctx)
    r3_mutations_filtered(ctx)
    r4_database_threading(ctx)
