"""C07 - a failed upgrade leaves the database as it was and can be retried."""
from __future__ import annotations

import ast

from ..flow import ReachingDefs
from ..program import (AnalysisError, call_name, const_str, dotted, kwarg, norm_key,
                       unparse, walk_no_nested)
from ..util import (assigns_to_self_attr, expand_expr, calls_named, cursor_execute_calls,
                    for_heads,
                    is_self_attr, loop_body_ids, nodes_with_call,
                    signal_sends)

EXPLANATION = (
    'Decided clauses (structural, necessary for C07): R-C07.1 the executor '
    'that opens a transaction by calling __enter__() manually forwards the '
    'exception triple of its own __exit__ to the inner transaction.__exit__ on '
    'every path (no commit-on-error); R-C07.2 every atomic() opened by an '
    'object that stores a database alias is bound to that alias; R-C07.3 in '
    'Evolver.evolve the signature/evolution save is inside the try, dominated '
    'by normal completion of the loop over execute_tasks, evolved=True and '
    'evolved.send are dominated by it, the handler sends evolving_failed and '
    'cannot return, and no other writer of Version/Evolution rows is reachable '
    'from evolve; R-C07.4 run_sql tags the failing (statement, params) on the '
    'exception and re-raises, and every EvolutionExecutionError raised around '
    'run_sql carries last_sql_statement taken from that exception; R-C07.5 '
    'run_sql does not commit the open transaction on the transactional path; '
    'R-C07.6 no handler for a broad exception class (Exception, database '
    'errors) in any function reachable from Evolver.evolve can continue '
    'normally (no swallowed failure on the execution path); '
    'R-C07.2 also requires that no atomic() is opened with savepoint=False (inside a caller\'s transaction nothing could be rolled back); '
    'R-C07.5 (as rewritten) under the default valuation (transactional group, no explicit new-transaction mark) no committing call is reachable in run_sql, and the explicit mark of a batch derives only from the statements\' own mark; R-C07.7 register_global_custom_migrations() is released on every exit, exceptional ones included; R-C07.8 deferred SQL of new models runs in the executor scope that created them (known finding).'
    ' '
    'R-C07.8 second clause: the models a batch creates and the evolutions it applies share one sql_executor scope; R-C07.9 no finally block of the package is left through return/break/continue (the in-flight commit/rollback error would be discarded).'
    ' '
    'R-C07.10 (= R-C17.9) no __exit__ of the package returns anything but None/False.'
    ' '
    'R-C07.11 (= R-C08.9) only utils.sql begins or ends transactions (who-may-call finish_transaction / new_transaction / commit).'
    ' '
    'R-C07.4 accepts a factory classmethod of EvolutionExecutionError that receives the caught exception as a wrap site and counts handlers (not raises) for its floor.')
NOT_DECIDED = (
    'Actual rollback behaviour of SQLite/Django for every failing statement '
    'index, and retry equivalence: these need execution (fault enumeration) '
    'and are outside static analysis.')

DB_PARAM_NAMES = ('database', 'database_name', 'using', 'db_name')
SQL = 'utils.sql'
EVOLVER = 'evolve.evolver'


def alias_attrs(cls):
    """self.<attr> bound in __init__ directly from a database-alias param."""
    out = {}
    for attr, val in cls.init_attrs().items():
        if isinstance(val, ast.Name) and val.id in DB_PARAM_NAMES:
            out[attr] = val.id
    return out


def r1_exception_forwarding(ctx):
    ctx.rule('R-C07.1')
    p = ctx.program
    cls = p.cls(SQL, 'SQLExecutor')
    exit_m = p.func(SQL, 'SQLExecutor.__exit__')
    # the class owns its exit: it calls X.__enter__() manually somewhere
    owners = [(m, c) for m in cls.methods.values()
              for c in calls_named(m, '__enter__')]
    ctx.floor('manual __enter__() sites in SQLExecutor', len(owners), 1)

    def carriers(m):
        a = m.node.args
        names = [x.arg for x in a.args[1:]]
        return names, (a.vararg.arg if a.vararg else None)

    def forwards(call, m):
        """True if *call*'s positional args hand on m's exception params."""
        names, var = carriers(m)
        args = call.args
        if len(args) == 1 and isinstance(args[0], ast.Starred) and \
                isinstance(args[0].value, ast.Name) and \
                args[0].value.id in ([var] if var else []) + names:
            return True
        if len(args) == 3 and all(isinstance(a, ast.Name) for a in args):
            ids = [a.id for a in args]
            if ids == names[:3]:
                return True
        kws = {k.arg: k.value for k in call.keywords}
        if len(args) == 0 and len(kws) == 3 and all(
                isinstance(v, ast.Name) and v.id in names
                for v in kws.values()):
            return True
        return False

    def all_none(call):
        return (not call.keywords and
                all(isinstance(a, ast.Constant) and a.value is None
                    for a in call.args))

    # inner exits per method
    inner = {}
    for m in cls.methods.values():
        for c in calls_named(m, '__exit__'):
            if isinstance(c.func.value, ast.Call):   # super().__exit__
                continue
            inner.setdefault(m.name, []).append(c)
    ctx.floor('inner transaction.__exit__ call sites', sum(
        len(v) for v in inner.values()), 1)

    g = ctx.cfg(exit_m)
    forwarding_nodes = []
    n_sites = 0
    # direct inner exits in __exit__
    for c in inner.get('__exit__', []):
        n_sites += 1
        if forwards(c, exit_m):
            ctx.ok(exit_m, 'inner __exit__ receives the exception triple',
                   c)
            forwarding_nodes += [n for n, cc in nodes_with_call(g, '__exit__')
                                 if cc is c]
        else:
            ctx.finding(exit_m, c, 'transaction.__exit__ in SQLExecutor.'
                        '__exit__ does not receive the exception triple '
                        '(commit-on-error)')
    # via helpers (depth <= 2)
    def helper_sites(m, depth):
        out = []
        for c in walk_no_nested(m.node):
            if isinstance(c, ast.Call) and is_self_attr(c.func) and \
                    c.func.attr in cls.methods and c.func.attr != m.name:
                h = cls.methods[c.func.attr]
                if h.name in inner:
                    out.append((m, c, h))
                elif depth < 2:
                    sub = helper_sites(h, depth + 1)
                    if sub:
                        out.append((m, c, h))
        return out

    for m, c, h in helper_sites(exit_m, 1):
        n_sites += 1
        ctx.touch(h)
        bad = False
        for ic in inner.get(h.name, []):
            if all_none(ic) or not forwards(ic, h):
                bad = True
                ctx.finding(
                    h, ic, '%s reachable from SQLExecutor.__exit__ calls '
                    'transaction.__exit__ without the exception triple: the '
                    'open transaction is committed when the with-block fails'
                    % h.qualname)
        if not forwards(c, exit_m):
            if not bad:
                ctx.finding(exit_m, c, 'SQLExecutor.__exit__ calls %s without '
                            'forwarding its exception arguments' % h.name)
            bad = True
        if not bad:
            ctx.ok(exit_m, 'exception triple forwarded through %s to the '
                   'inner transaction.__exit__' % h.name, c)
            forwarding_nodes += [n for n, cc in nodes_with_call(g, h.name)
                                 if cc is c]
    if n_sites == 0:
        ctx.finding(exit_m, None, 'SQLExecutor.__exit__ never closes the '
                    'transaction it opened', key='no-inner-exit')
    elif forwarding_nodes:
        w = g.must_pass(g.entry, g.exit, forwarding_nodes, follow_exc=False)
        if w is not None:
            ctx.finding(exit_m, None, 'a path through SQLExecutor.__exit__ '
                        'skips closing the transaction', key='exit-path-skips'
                        '-close', path=w)
        else:
            ctx.ok(exit_m, 'every path through __exit__ closes the '
                   'transaction with the exception triple')
    # helpers taking the triple must default to None so the normal-path
    # callers (new_transaction, run_sql) commit.
    ctx.counts['R-C07.1 exit sites checked'] = n_sites


def r2_atomic_bound(ctx):
    ctx.rule('R-C07.2')
    p = ctx.program
    sites = 0
    for f in p.all_funcs():
        for c in walk_no_nested(f.node):
            if not (isinstance(c, ast.Call) and call_name(c) == 'atomic'):
                continue
            if f.module.name.endswith('compat.db') and f.name == 'atomic':
                # the wrapper itself: must hand its own parameter on
                using = kwarg(c, 'using') or (c.args[0] if c.args else None)
                if isinstance(using, ast.Name) and using.id in f.params:
                    ctx.ok(f, 'compat atomic() wrapper forwards using', c)
                else:
                    ctx.finding(f, c, 'compat.db.atomic does not forward its '
                                'using parameter to transaction.atomic')
                sites += 1
                continue
            sites += 1
            using = kwarg(c, 'using') or (c.args[0] if c.args else None)
            avail = []
            if f.cls is not None:
                avail += ['self.%s' % a for a in alias_attrs(f.cls)]
            avail += [x for x in f.params if x in DB_PARAM_NAMES]
            if not avail:
                ctx.info('atomic() at %s has no database alias in scope' %
                         f.loc(c))
                continue
            if using is None:
                ctx.finding(f, c, 'atomic() opened without using=: the '
                            'transaction is bound to the default database, not '
                            'to %s' % ' / '.join(avail))
            elif unparse(using) in avail:
                ctx.ok(f, 'atomic(using=%s)' % unparse(using), c)
            else:
                ctx.finding(f, c, 'atomic(using=%s) is not the stored alias '
                            '%s' % (unparse(using), ' / '.join(avail)))
    ctx.floor('atomic() call sites', sites, 3)
    # R-C07.2 (second clause): every such transaction can be rolled back on
    # its own.  savepoint=False inside a caller's open transaction leaves
    # nothing to roll back to: the failed upgrade's statements stay applied
    # in the outer transaction and the connection is marked needs_rollback.
    for f in p.all_funcs():
        for c in walk_no_nested(f.node):
            if isinstance(c, ast.Call) and call_name(c) == 'atomic':
                sp = kwarg(c, 'savepoint')
                if sp is not None and not (isinstance(sp, ast.Constant) and
                                           sp.value is True):
                    ctx.finding(f, c, 'atomic(..., savepoint=%s): inside an '
                                'enclosing transaction the upgrade\'s own '
                                'transaction is not a savepoint, so a failed '
                                'statement cannot be rolled back without '
                                'abandoning the caller\'s transaction, and '
                                'the upgrade cannot be retried' % unparse(sp),
                                key='atomic-without-savepoint')
                else:
                    ctx.ok(f, 'atomic() keeps its savepoint', c)


def writer_funcs(program):
    """Functions that write Version/Evolution rows (ORM writes)."""
    out = {}
    for f in program.all_funcs():
        names = set()
        for n in walk_no_nested(f.node):
            if isinstance(n, ast.Call) and isinstance(n.func, ast.Attribute):
                if n.func.attr in ('bulk_create', 'create', 'delete',
                                   'update', 'get_or_create'):
                    root = n.func.value
                    while isinstance(root, (ast.Attribute, ast.Call)):
                        root = root.func if isinstance(root, ast.Call) \
                            else root.value
                    if isinstance(root, ast.Name) and \
                            root.id in ('Version', 'Evolution'):
                        names.add(unparse(n.func))
                if n.func.attr == 'save':
                    names.add(unparse(n.func))
        if names and any(isinstance(n, ast.Name) and
                         n.id in ('Version', 'Evolution')
                         for n in walk_no_nested(f.node)):
            out[f.fq] = (f, sorted(names))
    return out


def r3_state_after_tasks(ctx):
    ctx.rule('R-C07.3')
    p = ctx.program
    f = p.func(EVOLVER, 'Evolver.evolve')
    g = ctx.cfg(f)
    saves = nodes_with_call(g, '_save_project_sig')
    execs = nodes_with_call(g, 'execute_tasks')
    if len(execs) < 1:
        raise AnalysisError('R-C07.3: no execute_tasks call in Evolver.evolve')
    if len(saves) != 1:
        ctx.finding(f, None, 'expected exactly one _save_project_sig call in '
                    'Evolver.evolve, found %d' % len(saves),
                    key='save-count-%d' % len(saves))
        return
    save, save_call = saves[0]
    # inside a try region
    if not save.region:
        ctx.finding(f, save_call, '_save_project_sig is outside the try: a '
                    'failing save would not emit evolving_failed')
    else:
        ctx.ok(f, '_save_project_sig is inside the try region', save_call)
    # dominated by normal completion of the loop containing execute_tasks
    ok_loop = False
    for head in for_heads(g):
        body = loop_body_ids(g, head)
        if all(en.id in body for en, _ in execs):
            # outermost such loop: head not inside another candidate's body
            if g.guarded_by(save, head, 'F') and save.id not in body:
                ok_loop = True
    if ok_loop:
        ctx.ok(f, 'save is reachable only through normal exhaustion of the '
               'loop over execute_tasks', save_call)
    else:
        ctx.finding(f, save_call, '_save_project_sig can run before every '
                    'task class has executed (not dominated by loop exit)')
    for en, ec in execs:
        if g.dominates(save, en):
            ctx.finding(f, ec, 'execute_tasks runs after the save')
    # evolved flag / evolved.send dominated by save
    flags = assigns_to_self_attr(g, 'evolved')
    sends = signal_sends(g, 'evolved')
    ctx.floor('self.evolved assignments + evolved.send', len(flags) +
              len(sends), 1)
    for n in flags:
        if isinstance(n.ast.value, ast.Constant) and n.ast.value.value is True:
            if g.dominates(save, n):
                ctx.ok(f, 'self.evolved = True only after the save', n.ast)
            else:
                ctx.finding(f, n.ast, 'self.evolved = True not dominated by '
                            'the save')
    for n, c in sends:
        if g.dominates(save, n):
            ctx.ok(f, 'evolved.send only after the save', c)
        else:
            ctx.finding(f, c, 'evolved.send reachable without the save')
    # handler: sends evolving_failed and cannot return normally
    handlers = [n for n in g.nodes if n.kind == 'except']
    fails = signal_sends(g, 'evolving_failed')
    if not handlers:
        ctx.finding(f, None, 'no exception handler around the task loop',
                    key='no-handler')
    for h in handlers:
        r = g.reachable([h])
        if g.exit.id in r:
            ctx.finding(f, h.ast, 'the failure handler can fall through to a '
                        'normal return (exception swallowed)',
                        key='handler-swallows')
        else:
            ctx.ok(f, 'failure handler always re-raises', h.ast)
        if not any(n.id in r for n, _ in fails):
            ctx.finding(f, h.ast, 'failure handler does not send '
                        'evolving_failed', key='handler-no-signal')
    # who may write Version/Evolution rows on the evolve path
    writers = writer_funcs(p)
    reach = p.reachable_funcs([f])
    allowed = {'django_evolution.evolve.evolver:Evolver._save_project_sig'}
    n = 0
    for fq, (wf, names) in sorted(writers.items()):
        if fq in reach:
            n += 1
            if fq in allowed:
                ctx.ok(wf, 'designated writer of Version/Evolution rows '
                       'reachable from evolve: %s' % ', '.join(names))
            else:
                ctx.finding(wf, None, 'Version/Evolution rows are written by '
                            '%s, reachable from Evolver.evolve outside '
                            '_save_project_sig' % wf.qualname,
                            key='writer:' + ','.join(names))
    ctx.floor('row writers reachable from evolve', n, 1)
    # call sites of _save_project_sig across the package
    allowed_callers = {'Evolver.__init__', 'Evolver.evolve'}

    def only_from_allowed(fn, depth=0):
        """fn is a private helper whose every call site is in a designated
        caller (or in such a helper)."""
        if fn.qualname in allowed_callers:
            return True
        if depth > 2 or not fn.name.startswith('_'):
            return False
        sites = p.callers_of_func(fn)
        return bool(sites) and all(only_from_allowed(cf2, depth + 1)
                                   for cf2, _ in sites)
    for cf, c in p.callers_of('_save_project_sig'):
        if only_from_allowed(cf):
            ctx.ok(cf, 'designated caller of _save_project_sig%s' % (
                '' if cf.qualname in allowed_callers else
                ' (private helper of one)'), c)
        else:
            ctx.finding(cf, c, '_save_project_sig called from %s' %
                        cf.qualname)


def r4_failing_statement(ctx):
    ctx.rule('R-C07.4')
    p = ctx.program
    f = p.func(SQL, 'SQLExecutor.run_sql')
    g = ctx.cfg(f)
    execs = cursor_execute_calls(g)
    ctx.floor('cursor.execute sites in run_sql', len(execs), 1)
    rd = ReachingDefs(g, f.params)
    for n, c in execs:
        if not n.region:
            ctx.finding(f, c, 'cursor.execute is outside the try that tags '
                        'the failing statement')
            continue
        # the exceptional successor is a handler that stores the statement
        hs = [s for s, l in n.succ if l == 'exc' and s.kind == 'except']
        if not hs:
            ctx.finding(f, c, 'no handler receives an execute() failure')
            continue
        h = hs[0]
        name = h.ast.name
        tagged = None
        for m in g.nodes:
            if m.kind == 'stmt' and isinstance(m.ast, ast.Assign):
                for t in m.ast.targets:
                    if isinstance(t, ast.Attribute) and \
                            t.attr == 'last_sql_statement' and \
                            isinstance(t.value, ast.Name) and \
                            t.value.id == name and \
                            m.id in g.reachable([h]):
                        tagged = m
        if tagged is None:
            ctx.finding(f, h.ast, 'handler does not store last_sql_statement '
                        'on the exception', key='no-tag')
            continue
        # the stored value is built from the same variables execute() got
        exec_vars = [a.id for a in c.args if isinstance(a, ast.Name)]
        val = tagged.ast.value
        val_vars = [a.id for a in ast.walk(val) if isinstance(a, ast.Name)]
        if exec_vars and exec_vars == val_vars[:len(exec_vars)]:
            ctx.ok(f, 'failing (statement, params) stored from the variables '
                   'passed to cursor.execute', tagged.ast)
        else:
            ctx.finding(f, tagged.ast, 'last_sql_statement is not built from '
                        'the variables passed to cursor.execute (%s vs %s)' %
                        (val_vars, exec_vars))
        r = g.reachable([h])
        if g.exit.id in r:
            ctx.finding(f, h.ast, 'run_sql handler swallows the database '
                        'error', key='run_sql-swallow')
        else:
            ctx.ok(f, 'run_sql handler re-raises', h.ast)
    # wrap sites
    sites = 0
    n_handlers = 0
    for wf in p.all_funcs():
        for n in walk_no_nested(wf.node):
            if not isinstance(n, ast.Try):
                continue
            if not any(isinstance(x, ast.Call) and call_name(x) == 'run_sql'
                       for st in n.body for x in ast.walk(st)):
                continue
            for h in n.handlers:
                n_handlers += 1
                raises = [x for st in h.body for x in ast.walk(st)
                          if isinstance(x, ast.Raise) and
                          isinstance(x.exc, ast.Call) and
                          call_name(x.exc) == 'EvolutionExecutionError']
                # a factory classmethod of the error class that is handed
                # the caught exception (EvolutionExecutionError.from_...(msg,
                # e)) wraps it just the same
                factory = [x for st in h.body for x in ast.walk(st)
                           if isinstance(x, ast.Raise) and
                           isinstance(x.exc, ast.Call) and
                           isinstance(x.exc.func, ast.Attribute) and
                           isinstance(x.exc.func.value, ast.Name) and
                           x.exc.func.value.id == 'EvolutionExecutionError'
                           and any(isinstance(a, ast.Name) and a.id == h.name
                                   for a in list(x.exc.args) +
                                   [k.value for k in x.exc.keywords])]
                if factory:
                    sites += len(factory)
                    ctx.ok(wf, 'handler wraps the error through a factory of '
                           'EvolutionExecutionError that receives the caught '
                           'exception', factory[0])
                    continue
                if not raises and not any(
                        isinstance(x, ast.Raise) and x.exc is None
                        for st in h.body for x in ast.walk(st)):
                    ctx.finding(wf, h, 'handler around run_sql neither wraps '
                                'nor re-raises', key='handler-drops')
                rdw = None
                for rs in raises:
                    sites += 1
                    v = kwarg(rs.exc, 'last_sql_statement')
                    if v is None:
                        ctx.finding(wf, rs.exc, 'EvolutionExecutionError '
                                    'raised around run_sql without '
                                    'last_sql_statement',
                                    key='wrap-without-statement:' +
                                    norm_key(rs.exc.args[0])
                                    if rs.exc.args else None)
                        continue
                    # derived from the caught exception
                    srcs = {x.id for x in ast.walk(v)
                            if isinstance(x, ast.Name)}
                    ok = h.name in srcs
                    if not ok:
                        # one hop through a local
                        for st in h.body:
                            for x in ast.walk(st):
                                if isinstance(x, ast.Assign) and any(
                                        isinstance(t, ast.Name) and
                                        t.id in srcs for t in x.targets):
                                    if h.name in {y.id for y in ast.walk(
                                            x.value)
                                            if isinstance(y, ast.Name)} and \
                                            'last_sql_statement' in \
                                            unparse(x.value):
                                        ok = True
                    elif 'last_sql_statement' not in unparse(v):
                        ok = False
                    if ok:
                        ctx.ok(wf, 'wrap carries the failing statement from '
                               'the caught exception', rs.exc)
                    else:
                        ctx.finding(wf, rs.exc, 'last_sql_statement= is not '
                                    'taken from the caught exception')
    ctx.counts['R-C07.4 EvolutionExecutionError wrap sites around run_sql'] = sites
    ctx.floor('handlers around run_sql calls', n_handlers, 4)
    # the command prints it
    cmd = p.func('management.commands.evolve', 'Command._perform_evolution')
    # some write() in an exception handler carries the exception's
    # last_sql_statement (e.last_sql_statement or getattr(e, '...'), read
    # directly or through a single-assignment local)
    def _mentions(e):
        for x in ast.walk(e):
            if isinstance(x, ast.Attribute) and \
                    x.attr == 'last_sql_statement':
                return True
            if isinstance(x, ast.Call) and call_name(x) == 'getattr' and \
                    len(x.args) >= 2 and \
                    const_str(x.args[1]) == 'last_sql_statement':
                return True
        return False
    reported = False
    for h in ast.walk(cmd.node):
        if not isinstance(h, ast.ExceptHandler):
            continue
        for c in ast.walk(h):
            if isinstance(c, ast.Call) and call_name(c) == 'write' and \
                    any(_mentions(expand_expr(cmd, a)) for a in c.args):
                reported = True
    if reported:
        ctx.ok(cmd, 'the command reports e.last_sql_statement')
    else:
        ctx.finding(cmd, None, 'evolve command no longer reports the failing '
                    'statement', key='cmd-no-statement')


def r5_one_transaction(ctx):
    ctx.rule('R-C07.5')
    p = ctx.program
    cls = p.cls(SQL, 'SQLExecutor')
    f = p.func(SQL, 'SQLExecutor.run_sql')
    g = ctx.cfg(f)
    # methods that (transitively, within the class) commit: reach an inner
    # __exit__ call
    commits = set()
    changed = True
    while changed:
        changed = False
        for m in cls.methods.values():
            if m.name in commits or m.name in ('__exit__',):
                continue
            for c in walk_no_nested(m.node):
                if isinstance(c, ast.Call) and (
                        (call_name(c) == '__exit__' and
                         not isinstance(c.func.value, ast.Call)) or
                        (is_self_attr(c.func) and c.func.attr in commits)):
                    # unconditional within m?  new_transaction commits first;
                    # ensure_transaction only when none is open.
                    mg = ctx.cfg(m)
                    commits.add(m.name)
                    changed = True
                    break
    # ensure_transaction commits only if no transaction is open: not a commit
    # of an *open* transaction.  Decide from its guard.
    soft = set()
    for name in list(commits):
        m = cls.methods[name]
        mg = ctx.cfg(m)
        inner = [n for n in mg.nodes for c in n.calls()
                 if (is_self_attr(c.func) and c.func.attr in commits)]
        tests = [n for n in mg.nodes if n.kind == 'test' and
                 'self._latest_transaction' in unparse(n.ast)]
        if inner and tests and all(
                any(mg.guarded_by(i, t, 'F') for t in tests)
                for i in inner) and not any(
                call_name(c) == '__exit__' for n in mg.nodes
                for c in n.calls()):
            soft.add(name)
    # The default statement group is transactional and did not ask for a
    # transaction of its own.  Walk the loop body under that valuation
    # (use_transaction = True, every other flag unpacked from the batch tuple
    # = False): no committing call may be reachable before the statements are
    # executed.  Commits that only happen for NoTransactionSQL groups or for
    # groups that explicitly asked for a new transaction (NewTransactionSQL)
    # are the documented semantics.
    from ..util import for_heads
    flags = {}
    loop_entries = []
    for h in for_heads(g):
        if 'batches' not in unparse(h.ast.iter):
            continue
        names = [x.id for x in ast.walk(h.ast.target)
                 if isinstance(x, ast.Name)]
        if 'use_transaction' not in names:
            continue
        for nm in names:
            flags[nm] = (nm == 'use_transaction')
        flags.pop('batch', None)
        flags.pop('i', None)
        loop_entries.append(h)
    if not loop_entries:
        raise AnalysisError('R-C07.5: the loop over the statement batches '
                            'was not found in run_sql')
    default_reach = set()
    for h in [g.entry]:
        stack = [h]
        seen = set()
        while stack:
            n = stack.pop()
            if n.id in seen:
                continue
            seen.add(n.id)
            val = None
            if n.kind == 'test':
                t = n.ast
                neg = False
                while isinstance(t, ast.UnaryOp) and isinstance(t.op, ast.Not):
                    t, neg = t.operand, not neg
                if isinstance(t, ast.Name) and t.id in flags:
                    val = flags[t.id] != neg
            for s_, l in n.succ:
                if l == 'exc':
                    continue
                if val is not None and l in ('T', 'F') and \
                        l != ('T' if val else 'F'):
                    continue
                stack.append(s_)
        default_reach |= seen
    sites = 0
    for n in g.nodes:
        for c in n.calls():
            if is_self_attr(c.func) and c.func.attr in commits - soft:
                sites += 1
                if n.id not in default_reach:
                    ctx.ok(f, 'commit only for NoTransactionSQL / explicit '
                           'NewTransactionSQL groups (documented semantics)',
                           c)
                else:
                    ctx.finding(
                        f, c, 'run_sql commits the transaction already open '
                        'in this executor scope (%s) on the transactional '
                        'path: earlier statements of the same scope survive a '
                        'later failure' % unparse(c))
    ctx.counts['R-C07.5 committing calls in run_sql'] = sites


BROAD = ('Exception', 'BaseException', 'DatabaseError', 'OperationalError',
         'IntegrityError', 'ProgrammingError', 'Error')


def r6_no_swallow_on_execution_path(ctx):
    ctx.rule('R-C07.6')
    p = ctx.program
    ev = p.func(EVOLVER, 'Evolver.evolve')
    reach = p.reachable_funcs([ev])
    n = 0
    for fq, f in sorted(reach.items()):
        mod = f.module.name.split('django_evolution.', 1)[-1]
        if mod in ('db.mysql', 'db.postgresql') or mod.startswith('compat.')\
                and f.name != 'atomic':
            continue
        tries = [t for t in walk_no_nested(f.node) if isinstance(t, ast.Try)]
        if not tries:
            continue
        g = None
        for t in tries:
            for h in t.handlers:
                names = []
                if h.type is None:
                    names = ['BaseException']
                else:
                    for x in ast.walk(h.type):
                        if isinstance(x, ast.Name):
                            names.append(x.id)
                        elif isinstance(x, ast.Attribute):
                            names.append(x.attr)
                if not any(nm in BROAD for nm in names):
                    continue
                n += 1
                g = g or ctx.cfg(f)
                hn = next((x for x in g.nodes if x.kind == 'except' and
                           x.ast is h), None)
                if hn is None:
                    continue
                r = g.reachable([hn])
                # generator-based context managers: a handler that re-raises
                # is fine; falling out of the handler is a swallow
                if g.exit.id in r:
                    ctx.finding(f, h, '%s catches %s on the execution path '
                                'of an upgrade and can continue normally: a '
                                'failing statement would not abort the '
                                'upgrade, later SQL runs and the evolutions '
                                'are recorded' % (f.qualname,
                                                  '/'.join(names)),
                                key='swallow:%s' % '/'.join(names),
                                path=g.path(hn, g.exit))
                else:
                    ctx.ok(f, 'broad handler (%s) always re-raises or wraps' %
                           '/'.join(names), h)
    ctx.floor('broad exception handlers on the execution path', n, 7)


def r7_global_registration_released(ctx):
    """register_global_custom_migrations() sets a module-global that a second
    call asserts to be empty.  It must be released by
    clear_global_custom_migrations() on every exit of the function that set
    it, exceptional exits included: a preparation that fails (simulation
    failure, missing baseline) otherwise makes every later Evolver in the
    process - in particular the retry of the same upgrade - die on that
    assertion."""
    ctx.rule('R-C07.7')
    p = ctx.program
    n_sites = 0
    for f in p.all_funcs():
        if f.module.name.endswith('utils.migrations'):
            continue
        calls = [c for c in walk_no_nested(f.node) if isinstance(c, ast.Call)
                 and call_name(c) == 'register_global_custom_migrations']
        if not calls:
            continue
        g = ctx.cfg(f)
        regs = [n for n in g.nodes if any(
            call_name(c) == 'register_global_custom_migrations'
            for c in n.calls())]
        clears = [n for n in g.nodes if any(
            call_name(c) == 'clear_global_custom_migrations'
            for c in n.calls())]
        for r in regs:
            n_sites += 1
            # successors after the registration completed normally
            starts = [s_ for s_, l in r.succ if l != 'exc']
            bad = None
            for exit_node in (g.exit, g.exc_exit):
                for st in starts:
                    w = g.path(st, exit_node, avoid=clears, follow_exc=True)
                    if w is not None:
                        bad = (exit_node, w)
                        break
                if bad:
                    break
            if bad is None:
                ctx.ok(f, 'the global custom-migration registration is '
                       'cleared on every exit, exceptional ones included',
                       r.ast)
            else:
                ctx.finding(f, r.ast, 'register_global_custom_migrations() is '
                            'not released on %s: after a failed preparation '
                            'the next Evolver in the process (the retry) '
                            'fails with "cannot be called until any existing '
                            'migrations are unregistered"' % (
                                'an exceptional exit'
                                if bad[0] is g.exc_exit else 'a normal exit'),
                            path=bad[1], key='registration-not-released')
    ctx.floor('register_global_custom_migrations call sites', n_sites, 1)


def r8_deferred_sql_same_scope(ctx):
    """Creating a model emits its CREATE TABLE and, deferred, the statements
    that depend on other tables (indexes, foreign keys).  If the deferred
    part runs in an executor scope opened *after* the scope that created the
    tables has been left (and committed), a failure in it leaves the tables
    committed with nothing recorded; the retry sees the tables, treats the
    models as existing and never creates their indexes."""
    ctx.rule('R-C07.8')
    p = ctx.program
    f = p.func('evolve.evolve_app_task', 'EvolveAppTask.execute_tasks')
    withs = [w for w in walk_no_nested(f.node) if isinstance(w, ast.With) and
             any('sql_executor' in unparse(i.context_expr) for i in w.items)]
    ctx.floor('sql_executor scopes in execute_tasks', len(withs), 1)

    def scope_of(pred):
        for w in withs:
            for c in ast.walk(w):
                if isinstance(c, ast.Call) and pred(c):
                    return w
        return None
    create = scope_of(lambda c: call_name(c) == '_create_models')
    deferred = scope_of(lambda c: call_name(c) == '_apply_deferred_sql' or (
        call_name(c) == 'run_sql' and any('deferred' in unparse(a)
                                          for a in c.args)))
    # one batch = one scope: the models a batch creates and the evolutions it
    # applies are committed or rolled back together
    evolve = scope_of(lambda c: call_name(c) == 'execute' and
                      kwarg(c, 'sql_executor') is not None and
                      kwarg(c, 'sql') is not None)
    if create is not None and evolve is not None:
        if create is evolve:
            ctx.ok(f, 'the models and the evolutions of one batch share one '
                   'sql_executor scope', evolve)
        else:
            ctx.finding(f, evolve, 'within one evolutions batch the new '
                        'models are created in one sql_executor scope and '
                        'the evolutions are applied in another: leaving the '
                        'first scope commits the CREATE TABLEs, so a failure '
                        'while applying the evolutions leaves tables that '
                        'nothing records', key='batch-split-over-scopes')
    else:
        ctx.counts['R-C07.8 batch steps found (create, evolve)'] = \
            int(create is not None) + int(evolve is not None)
    if create is None or deferred is None:
        ctx.info('no separate deferred-SQL step found in execute_tasks')
        ctx.ok(f, 'model creation and its deferred SQL are not split over '
               'executor scopes')
    elif create is deferred:
        ctx.ok(f, 'deferred SQL runs in the scope that created the models',
               deferred)
    else:
        ctx.finding(f, deferred, 'the deferred SQL of new models (indexes, '
                    'foreign keys) runs in a second sql_executor scope, '
                    'opened after the scope that created the tables was '
                    'committed: a failure there leaves the tables without '
                    'their indexes and unrecorded, and the retry never '
                    'creates them', key='deferred-sql-second-scope')


def r5b_new_transaction_flag_provenance(ctx):
    """run_sql() commits the executor's open transaction for a batch whose
    third element (explicit "needs a new transaction") is true.  That flag
    may derive only from the new_transaction mark of the prepared statements
    (NewTransactionSQL); mixing in anything else - e.g. `not
    last_use_transaction`, which is also true for the first batch of every
    call - re-introduces the commit between two run_sql() calls."""
    ctx.rule('R-C07.5')
    p = ctx.program
    f = p.func(SQL, 'SQLExecutor._prepare_transaction_batches')
    g = ctx.cfg(f)
    from ..flow import ReachingDefs
    rd = ReachingDefs(g, f.params)
    n_y = 0
    for n in g.nodes:
        for y in n.walk():
            if not (isinstance(y, ast.Yield) and isinstance(y.value, ast.Tuple)
                    and len(y.value.elts) >= 3):
                continue
            n_y += 1
            flag = y.value.elts[2]
            names = set()
            for _on, oe in rd.origins(n, flag):
                names |= {x.id for x in ast.walk(oe) if isinstance(x, ast.Name)
                          and not x.id.startswith('<param')}
            extra = sorted(x for x in names
                           if 'new_transaction' not in x and
                           x not in ('False', 'True') and
                           x not in f.params)
            if extra:
                ctx.finding(f, y, 'the "explicitly needs a new transaction" '
                            'flag of a batch also depends on %s: run_sql() '
                            'then commits the open transaction for batches '
                            'that never asked for it' % ', '.join(extra),
                            key='new-transaction-flag-depends-on:%s' %
                            ','.join(extra))
            else:
                ctx.ok(f, 'the new-transaction flag of a batch derives only '
                       'from the statements\' own mark', y)
    ctx.counts['R-C07.5 batches yielded with a new-transaction flag'] = n_y


def r9_finally_does_not_swallow(ctx, rule_id='R-C07.9'):
    """A `return`, `break` or `continue` inside a `finally:` block discards
    the exception that is in flight when the block runs.  In
    SQLExecutor.__exit__ that is the error of the COMMIT / ROLLBACK itself:
    the run carries on, saves the signature and announces `evolved` although
    nothing of the batch was committed.  Checked for every finally block of
    the package."""
    ctx.rule(rule_id)
    p = ctx.program
    n_fin = 0
    hit = False
    for m in p.modules.values():
        for f in m.all_funcs():
            for t in walk_no_nested(f.node):
                if not (isinstance(t, ast.Try) and t.finalbody):
                    continue
                n_fin += 1

                def jumps(stmts, in_loop):
                    for st in stmts:
                        if isinstance(st, ast.Return):
                            yield st
                        elif isinstance(st, (ast.Break, ast.Continue)) and \
                                not in_loop:
                            yield st
                        elif isinstance(st, (ast.FunctionDef, ast.ClassDef,
                                             ast.AsyncFunctionDef)):
                            continue
                        else:
                            loop = in_loop or isinstance(
                                st, (ast.For, ast.While))
                            for blk in ('body', 'orelse', 'finalbody'):
                                b = getattr(st, blk, None)
                                if isinstance(b, list) and b and \
                                        isinstance(b[0], ast.stmt):
                                    # the else of a loop is outside the loop
                                    for j in jumps(b, loop and blk == 'body'
                                                   or in_loop):
                                        yield j
                            for h in getattr(st, 'handlers', []):
                                for j in jumps(h.body, in_loop):
                                    yield j
                for j in jumps(t.finalbody, False):
                    hit = True
                    ctx.finding(f, j, '%s leaves a finally block with `%s`: '
                                'an exception raised in the try body (here '
                                'the failure of the commit/rollback the body '
                                'performs) is silently discarded and the '
                                'caller continues as if it had succeeded' % (
                                    f.qualname,
                                    ' '.join(unparse(j).split())),
                                key='jump-in-finally')
    ctx.floor('finally blocks in the package', n_fin, 3)
    if not hit:
        ctx.ok(('django_evolution', '*'), 'no finally block of the package '
               'is left through return/break/continue')


def r10_exit_never_suppresses(ctx, rule_id='R-C07.10'):
    """A truthy return value of __exit__ suppresses the exception raised in
    the with-block.  Every __exit__ of the package returns nothing, None or
    False: returning the result of a call (e.g. "did we re-enable constraint
    checking?") makes the failure of a statement vanish for exactly the
    executors that disabled constraint checking - the batch is rolled back,
    no error is reported, and the evolution is recorded as applied."""
    ctx.rule(rule_id)
    p = ctx.program
    n = 0
    for m in p.modules.values():
        for c in m.classes.values():
            f = c.methods.get('__exit__')
            if f is None:
                continue
            n += 1
            bad = [r for r in walk_no_nested(f.node)
                   if isinstance(r, ast.Return) and r.value is not None and
                   not (isinstance(r.value, ast.Constant) and
                        r.value.value in (None, False))]
            if bad:
                for r in bad:
                    ctx.finding(f, r, '%s.__exit__ returns %s: when that is '
                                'true the exception raised inside the with '
                                'block is suppressed and the caller carries '
                                'on as if the block had succeeded' % (
                                    c.name,
                                    ' '.join(unparse(r.value).split())),
                                key='exit-may-suppress')
            else:
                ctx.ok(f, '%s.__exit__ never returns a truthy value' % c.name)
    ctx.floor('__exit__ methods in the package', n, 1)


def r11_only_the_executor_ends_transactions(ctx, rule_id='R-C07.11'):
    """One SQLExecutor scope is one transaction: execute_tasks() runs all
    apps of a batch through one executor so that they commit or roll back
    together, and the evolutions are recorded only after every task
    succeeded.  Only the executor itself (utils/sql.py) may therefore call
    finish_transaction() / new_transaction() / commit(): a task that ends
    the transaction before running its SQL commits the SQL of the apps
    before it, and a failure afterwards leaves that SQL applied but
    unrecorded - the retry runs it again."""
    ctx.rule(rule_id)
    p = ctx.program
    n = 0
    hit = False
    for m in p.modules.values():
        for f in m.all_funcs():
            for c in walk_no_nested(f.node, include_lambda=True):
                if isinstance(c, ast.Call) and call_name(c) in (
                        'finish_transaction', 'new_transaction', 'commit',
                        'set_autocommit'):
                    n += 1
                    if m.name.endswith('utils.sql') or \
                            m.name.endswith('compat.db'):
                        continue
                    hit = True
                    ctx.finding(f, c, '%s calls %s(): the transaction of the '
                                'executor scope it was handed is ended in '
                                'the middle of a batch, so what ran before '
                                'is committed independently of what '
                                'follows' % (f.qualname, call_name(c)),
                                key='transaction-ended-outside-executor')
    ctx.floor('transaction boundary calls in the package', n, 3)
    if not hit:
        ctx.ok(('django_evolution.utils.sql', 'SQLExecutor'),
               'transactions are only begun/ended inside utils.sql')


def run(ctx):
    r11_only_the_executor_ends_transactions(ctx)
    r10_exit_never_suppresses(ctx)
    r9_finally_does_not_swallow(ctx)
    r5b_new_transaction_flag_provenance(ctx)
    r8_deferred_sql_same_scope(ctx)
    r7_global_registration_released(ctx)
    r6_no_swallow_on_execution_path(ctx)
    r1_exception_forwarding(ctx)
    r2_atomic_bound(ctx)
    r3_state_after_tasks(ctx)
    r4_failing_statement(ctx)
    r5_one_transaction(ctx)

TECHNIQUE = ('typestate/parameter-flow on __exit__ (exception forwarding), '
             'CFG dominance + must-pass-through in Evolver.evolve, '
             'who-may-call over the CHA call graph, sibling agreement of '
             'wrap sites')
LEVEL_NOTE = ('Trusted: Python ast, the hand-built CFG (exceptional edge from '
              'every call), CHA call resolution, Django\'s atomic() semantics '
              '(rollback iff __exit__ receives an exception).')
