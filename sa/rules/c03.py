"""C03 - optimising a mutation sequence never changes its outcome."""
from __future__ import annotations

import ast

from .. import determinism
from ..flow import ReachingDefs, base_name
from ..program import (AnalysisError, call_name, dotted, kwarg, norm_key,
                       unparse, walk_no_nested)
from ..util import is_self_attr, nodes_with_call, through_copies

EXPLANATION = (
    'Decided clauses: R-C03.1 (ownership) the optimiser '
    '(AppMutator._preprocess_mutations -> _process_mutation_batch / '
    '_copy_change_attrs) never writes through to the caller-owned mutation '
    'objects: either the list is rebound to a deep copy before the first use, '
    'or there is no write-through site; all write sites are enumerated by a '
    'taint pass; R-C03.5 no mutation class writes its own attributes outside '
    '__init__ (simulate/mutate/is_mutable/hint are pure w.r.t. the '
    'definition); R-C03.2 every op dispatched by generate_table_op_sql is '
    're-simulated (mutator.finish_op on every normal path, finish_op reaches '
    'run_simulation); R-C03.3 AppMutator.to_sql replays from the recorded '
    'originals, which __init__ binds from a copy, not an alias; R-C03.4 the '
    'per-model regrouping iterates sorted(model_names) and no set order '
    'reaches the result; R-C03.6 a mutation taken from the '
    'last_change_mutations map and marked removed is deleted from / '
    'overwritten in that map on every path, and only ChangeField mutations '
    'are ever registered there; the model handed to each op handler in '
    'generate_table_op_sql is a fresh mutator.create_model(); '
    'R-C03.7 mutation membership tests in the optimiser are identity-based (set/dict), see R-C01.7; R-C03.8 no declared initial value is used as a truth value anywhere in mutations/, mutators/ and db/ (0, "", False are initial values; only None means absent); '
    'R-C03.9 / R-C03.10 are R-C01.8 / R-C01.9: both are ways in which merging operations into one rebuild gives a different schema than applying them one at a time; '
    'R-C03.11 folding a rename chain copies the whole target (name, db_column, db_table); R-C03.12 the per-model regrouping is segmented at RenameModel / DeleteModel (known finding); R-C03.13 the merged rebuild\'s data copy skips exactly the deleted columns (shared with R-C02.1/.2).'
    ' '
    'R-C03.14 a mutation never stores one of its own containers (**field_attrs, ...) by reference into a signature (plain attribute store or a constructor that keeps the reference; property setters that copy are recognised); R-C03.15 no write to a local container after it was handed to a signature constructor that keeps `param or <fresh>`.'
    ' '
    'R-C03.7 also fires when BaseMutation.__hash__ is not identity-based while __eq__ is structural (every membership test is then an equality test).'
    ' '
    'R-C03.17 = R-C01.18.'
    ' '
    'R-C03.18 = R-C01.16.'
    ' '
    "R-C03.19 the SQLite add_column handler records an index in the tracked state only under a test of the field's db_index / unique / primary_key.")
NOT_DECIDED = (
    'Equivalence of the optimised run and the one-at-a-time run (signature, '
    'schema, rows) for all sequences: needs execution of both.')
TECHNIQUE = ('ownership/taint dataflow (sources: elements of the caller\'s '
             'list; sinks: attribute/subscript stores and mutator calls '
             'through them; sanitiser: deep copy), self-purity scan over the '
             'mutation class hierarchy, CFG must-pass-through and dominance')
LEVEL_NOTE = ('Trusted: Python ast, CFG, flow-insensitive name taint inside '
              '_process_mutation_batch (over-approximate), copy.deepcopy '
              'produces an unshared object graph.')

AM = 'mutators.app_mutator'
COPY_CALLS = ('deepcopy',)
CONTAINER_MUTATORS = {'update', 'append', 'extend', 'pop', 'setdefault',
                      'insert', 'remove', 'clear', 'add', 'discard',
                      'popitem', '__setitem__'}


def tainted_writes(func, seeds):
    """Flow-insensitive taint over local names.  seeds: names holding the
    caller's list.  Returns (tainted names, write-through sites)."""
    tainted = set(seeds)
    body = list(walk_no_nested(func.node, include_lambda=True))

    def expr_tainted(e):
        for x in ast.walk(e):
            if isinstance(x, ast.Name) and x.id in tainted:
                return True
        return False

    changed = True
    while changed:
        changed = False
        for n in body:
            new = set()
            if isinstance(n, ast.For) and expr_tainted(n.iter):
                new |= {x.id for x in ast.walk(n.target)
                        if isinstance(x, ast.Name)}
            elif isinstance(n, ast.comprehension) and expr_tainted(n.iter):
                new |= {x.id for x in ast.walk(n.target)
                        if isinstance(x, ast.Name)}
            elif isinstance(n, ast.Assign) and expr_tainted(n.value):
                for t in n.targets:
                    if isinstance(t, ast.Name):
                        new.add(t.id)
                    elif isinstance(t, (ast.Tuple, ast.List)):
                        new |= {x.id for x in ast.walk(t)
                                if isinstance(x, ast.Name)}
                    elif isinstance(t, ast.Subscript):
                        b = base_name(t)
                        if b:
                            new.add(b)
            elif isinstance(n, ast.Call) and isinstance(n.func, ast.Attribute) \
                    and n.func.attr in ('append', 'add', 'update', 'extend',
                                        'setdefault') and \
                    any(expr_tainted(a) for a in n.args):
                b = base_name(n.func.value)
                if b and b != 'self':
                    new.add(b)
            if new - tainted:
                tainted |= new
                changed = True
    sites = []
    for n in body:
        # x.attr = v / x.attr[k] = v / x.attr += v
        targets = []
        if isinstance(n, ast.Assign):
            targets = n.targets
        elif isinstance(n, ast.AugAssign):
            targets = [n.target]
        for t in targets:
            cur = t
            through_attr = False
            while isinstance(cur, (ast.Attribute, ast.Subscript)):
                if isinstance(cur, ast.Attribute):
                    through_attr = True
                cur = cur.value
            if isinstance(cur, ast.Name) and cur.id in tainted and \
                    through_attr and cur.id != 'self':
                sites.append(n)
        if isinstance(n, ast.Call) and isinstance(n.func, ast.Attribute):
            recv = n.func.value
            if n.func.attr in CONTAINER_MUTATORS and \
                    isinstance(recv, ast.Attribute):
                b = base_name(recv)
                if b in tainted and b != 'self':
                    sites.append(n)
            if isinstance(n.func.value, ast.Name) and \
                    n.func.value.id == 'setattr':
                pass
        if isinstance(n, ast.Call) and isinstance(n.func, ast.Name) and \
                n.func.id == 'setattr' and n.args and \
                isinstance(n.args[0], ast.Name) and n.args[0].id in tainted:
            sites.append(n)
    return tainted, sites


def writes_through_params(func):
    """Parameter names (after self) through which func writes."""
    out = set()
    params = func.params[1:]
    _, sites = tainted_writes(func, params)
    for s in sites:
        for x in ast.walk(s):
            if isinstance(x, ast.Name) and x.id in params:
                out.add(x.id)
    # only params that are the *base* of a written target
    precise = set()
    for s in sites:
        t = None
        if isinstance(s, ast.Assign):
            t = s.targets[0]
        elif isinstance(s, ast.AugAssign):
            t = s.target
        elif isinstance(s, ast.Call):
            t = s.func.value
        b = base_name(t) if t is not None else None
        if b in params:
            precise.add(b)
    return precise


def r1_ownership(ctx):
    ctx.rule('R-C03.1')
    p = ctx.program
    pre = p.func(AM, 'AppMutator._preprocess_mutations')
    proc = p.func(AM, 'AppMutator._process_mutation_batch')
    cb = p.func(AM, 'AppMutator._create_mutation_batches')
    run = p.func(AM, 'AppMutator.run_mutations')
    # write-through sites in the optimiser
    batch_param = proc.params[1]
    tainted, sites = tainted_writes(proc, [batch_param])
    cls = p.cls(AM, 'AppMutator')
    helper_sites = []
    for c in walk_no_nested(proc.node):
        if isinstance(c, ast.Call) and is_self_attr(c.func) and \
                c.func.attr in cls.methods:
            h = cls.methods[c.func.attr]
            wp = writes_through_params(h)
            if not wp:
                continue
            hparams = h.params[1:]
            for i, a in enumerate(c.args):
                if i < len(hparams) and hparams[i] in wp and \
                        isinstance(a, ast.Name) and a.id in tainted:
                    helper_sites.append(c)
            for k in c.keywords:
                if k.arg in wp and isinstance(k.value, ast.Name) and \
                        k.value.id in tainted:
                    helper_sites.append(c)
    all_sites = sites + helper_sites
    ctx.counts['R-C03.1 write-through sites in the optimiser'] = len(all_sites)
    # is the list sanitised before it reaches the optimiser?
    g = ctx.cfg(pre)
    rd = ReachingDefs(g, pre.params)
    calls = nodes_with_call(g, '_create_mutation_batches')
    ctx.floor('_create_mutation_batches call sites', len(calls), 1)
    # _create_mutation_batches must hand on the same objects it was given
    # (it only groups); _process_mutation_batch is fed from its result.
    param = pre.params[1]
    for n, c in calls:
        arg = c.args[0] if c.args else kwarg(c, 'mutations')
        def is_copy(node, e, depth=0):
            """Every value e can take at node is an unshared deep copy."""
            if depth > 6 or e is None:
                return False
            if isinstance(e, ast.Call):
                nm = call_name(e)
                if nm == 'deepcopy':
                    return True
                if nm in ('list', 'tuple') and e.args:
                    return is_copy(node, e.args[0], depth + 1)
                return False
            if isinstance(e, (ast.ListComp, ast.GeneratorExp)):
                elt = e.elt
                return isinstance(elt, ast.Call) and call_name(elt) in (
                    'deepcopy', 'clone')
            if isinstance(e, ast.Name):
                defs = rd.reaching(node, e.id)
                return bool(defs) and all(
                    d.kind == 'assign' and is_copy(d.node, d.value, depth + 1)
                    for d in defs)
            return False

        sanitised = is_copy(n, arg)
        if sanitised:
            ctx.ok(pre, 'the optimiser works on copy.deepcopy(%s): its %d '
                   'write sites cannot reach the caller\'s mutation objects'
                   % (param, len(all_sites)), c)
            for s in all_sites[:20]:
                ctx.ok(proc, 'write on a private copy: %s' % norm_key(s)[:70],
                       s)
        elif all_sites:
            ctx.finding(pre, c, 'the caller\'s mutation list is optimised in '
                        'place: %d write-through sites rewrite the evolution '
                        'definitions (e.g. %s)' % (
                            len(all_sites),
                            '; '.join(norm_key(s)[:50]
                                      for s in all_sites[:3])),
                        sinks=[norm_key(s) for s in all_sites])
        else:
            ctx.ok(pre, 'no write-through site in the optimiser', c)
    # positive control: the taint pass must see the known write shapes
    ctx.floor('write-through sites recognised by the taint pass',
              len(all_sites), 8)
    # the fallback path returns the caller's own list unchanged (no copy
    # needed): it must not have been modified before
    # run_mutations feeds the parameter straight in
    rg = ctx.cfg(run)
    if nodes_with_call(rg, '_preprocess_mutations'):
        ctx.ok(run, 'run_mutations hands the list to _preprocess_mutations')
    else:
        raise AnalysisError('R-C03.1: run_mutations no longer calls '
                            '_preprocess_mutations')


def r5_mutations_pure(ctx):
    ctx.rule('R-C03.5')
    p = ctx.program
    base = p.cls('mutations.base', 'BaseMutation')
    classes = [base] + base.all_subclasses()
    ctx.floor('mutation classes', len(classes), 12)
    n = 0
    for c in classes:
        for m in c.methods.values():
            if m.name in ('__init__',):
                continue
            n += 1
            bad = []
            for x in walk_no_nested(m.node, include_lambda=True):
                ts = []
                if isinstance(x, ast.Assign):
                    ts = x.targets
                elif isinstance(x, ast.AugAssign):
                    ts = [x.target]
                for t in ts:
                    cur = t
                    while isinstance(cur, (ast.Attribute, ast.Subscript)):
                        cur = cur.value
                    if isinstance(cur, ast.Name) and cur.id == 'self' and \
                            t is not cur:
                        bad.append(x)
                if isinstance(x, ast.Call) and \
                        isinstance(x.func, ast.Attribute) and \
                        x.func.attr in CONTAINER_MUTATORS and \
                        isinstance(x.func.value, ast.Attribute) and \
                        base_name(x.func.value) == 'self':
                    bad.append(x)
            for b in bad:
                ctx.finding(m, b, '%s modifies the mutation definition itself '
                            '(%s): processing it twice gives different '
                            'results' % (m.qualname, norm_key(b)[:60]))
            if not bad:
                ctx.ok(m, 'does not write to self')
    ctx.counts['R-C03.5 mutation methods scanned'] = n


def r2_resimulated(ctx):
    ctx.rule('R-C03.2')
    p = ctx.program
    f = p.func('db.common', 'BaseEvolutionOperations.generate_table_op_sql')
    g = ctx.cfg(f)
    fin = [n for n, c in nodes_with_call(g, 'finish_op')]
    if not fin:
        ctx.finding(f, None, 'generate_table_op_sql never calls '
                    'mutator.finish_op', key='no-finish-op')
    else:
        w = g.must_pass(g.entry, g.exit, fin, follow_exc=False)
        if w is None:
            ctx.ok(f, 'every normal path through generate_table_op_sql calls '
                   'mutator.finish_op(op)')
        else:
            ctx.finding(f, None, 'an op can be dispatched without being '
                        're-simulated (finish_op skipped)', path=w,
                        key='finish-op-skipped')
        # the argument is the op being dispatched
        for n, c in nodes_with_call(g, 'finish_op'):
            if c.args and isinstance(c.args[0], ast.Name) and \
                    c.args[0].id in f.params:
                ctx.ok(f, 'finish_op receives the dispatched op', c)
            else:
                ctx.finding(f, c, 'finish_op is not given the dispatched op')
    # every op's SQL is generated against a model built from the *current*
    # (re-simulated) signature
    from ..flow import ReachingDefs
    rd = ReachingDefs(g, f.params)
    uses = 0
    for n in g.nodes:
        for c in n.calls():
            if not (is_self_attr(c.func) and any(
                    isinstance(a, ast.Name) and a.id == 'model'
                    for a in list(c.args) + [k.value for k in c.keywords])):
                continue
            uses += 1
            defs = rd.reaching(n, 'model')
            bad = [d for d in defs if not (
                d.value is not None and isinstance(d.value, ast.Call) and
                call_name(d.value) == 'create_model')]
            if defs and not bad:
                ctx.ok(f, 'the model handed to %s is mutator.create_model() '
                       '(current signature)' % call_name(c), c)
            else:
                ctx.finding(f, c, 'the model handed to %s can be %s instead '
                            'of a fresh mutator.create_model(): ops merged '
                            'into a previous result are generated against a '
                            'model that predates the earlier ops of the '
                            'group' % (call_name(c), unparse(bad[0].value)
                                       if bad and bad[0].value is not None
                                       else 'stale'),
                            key='stale-model:%s' % call_name(c))
    ctx.floor('handler calls receiving the model', uses, 4)
    fo = p.func('mutators.model_mutator', 'ModelMutator.finish_op')
    g2 = ctx.cfg(fo)
    rs = [n for n, c in nodes_with_call(g2, 'run_simulation')]
    if rs and g2.must_pass(g2.entry, g2.exit, rs, follow_exc=False) is None:
        ctx.ok(fo, 'finish_op always reaches run_simulation')
    else:
        ctx.finding(fo, None, 'ModelMutator.finish_op does not always run '
                    'the simulation', key='finish-op-no-sim')
    # the mutators' run_mutation also simulates after mutate
    rm = p.func('mutators.base', 'BaseAppStateMutator.run_mutation')
    g3 = ctx.cfg(rm)
    mut = [n for n, c in nodes_with_call(g3, 'mutate')]
    sim = [n for n, c in nodes_with_call(g3, 'run_simulation')]
    if mut and sim and all(g3.must_pass(m, g3.exit, sim, follow_exc=False)
                           is None for m in mut):
        ctx.ok(rm, 'run_mutation simulates every mutation it mutates')
    else:
        ctx.finding(rm, None, 'BaseAppStateMutator.run_mutation can mutate '
                    'without simulating', key='mutate-no-sim')


def r3_replay_from_originals(ctx):
    ctx.rule('R-C03.3')
    p = ctx.program
    f = p.func(AM, 'AppMutator.to_sql')
    g = ctx.cfg(f)
    heads = [n for n in g.nodes if n.kind == 'for' and
             '_mutators' in unparse(n.ast.iter)]
    # a comprehension over self._mutators is the same replay
    heads += [n for n in g.nodes if n.kind != 'for' and any(
        isinstance(a, ast.comprehension) and '_mutators' in unparse(a.iter)
        for a in n.walk())]
    ctx.floor('loops over self._mutators in to_sql', len(heads), 1)
    for attr, orig in (('project_sig', '_orig_project_sig'),
                       ('database_state', '_orig_database_state')):
        resets = [n for n in g.nodes if n.kind == 'stmt' and
                  isinstance(n.ast, ast.Assign) and
                  any(is_self_attr(t, attr) for t in n.ast.targets) and
                  is_self_attr(n.ast.value, orig)]
        if resets and all(any(g.dominates(r, h) for r in resets)
                          for h in heads):
            ctx.ok(f, 'self.%s is reset to the recorded original before the '
                   'replay loop' % attr, resets[0].ast)
        else:
            ctx.finding(f, None, 'to_sql replays without resetting self.%s '
                        'to self.%s' % (attr, orig),
                        key='no-reset:%s' % attr)
    init = p.func(AM, 'AppMutator.__init__')
    binds = {}
    for n in walk_no_nested(init.node):
        if isinstance(n, ast.Assign):
            for t in n.targets:
                if is_self_attr(t) and t.attr.startswith('_orig_'):
                    binds[t.attr] = n
    for orig in ('_orig_project_sig', '_orig_database_state'):
        n = binds.get(orig)
        if n is None:
            ctx.finding(init, None, '%s is not recorded in __init__' % orig,
                        key='no-orig:%s' % orig)
            continue
        v = n.value
        if isinstance(v, ast.Call) and call_name(v) in ('deepcopy', 'clone'):
            ctx.ok(init, '%s is an unshared copy (%s)' % (orig,
                                                         call_name(v)), n)
        else:
            ctx.finding(init, n, '%s aliases the live object: the replay in '
                        'to_sql would start from the already-mutated state' %
                        orig)


def r4_regroup_deterministic(ctx):
    ctx.rule('R-C03.4')
    determinism.run_rule(
        ctx, lambda f: f.module.name.endswith('mutators.app_mutator'),
        floor=1, what='set-iteration sites in app_mutator')
    proc = ctx.program.func(AM, 'AppMutator._process_mutation_batch')
    ok = False
    for n in walk_no_nested(proc.node):
        iters = []
        if isinstance(n, (ast.ListComp, ast.GeneratorExp)):
            iters = [gen.iter for gen in n.generators]
        elif isinstance(n, ast.For):
            iters = [n.iter]
        for it in iters:
            if isinstance(it, ast.Call) and call_name(it) == 'sorted' and \
                    'model_names' in unparse(it):
                ok = True
    if ok:
        ctx.ok(proc, 'regrouped list iterates sorted(model_names)')
    else:
        ctx.finding(proc, None, 'the per-model regrouping no longer iterates '
                    'sorted(model_names)', key='regroup-unsorted')


def r6_consumed_entries_invalidated(ctx, rule_id='R-C03.6'):
    """A mutation taken from a bookkeeping map and marked as removed must not
    stay in that map (a later, unrelated mutation with the same key would be
    merged into a mutation that no longer exists)."""
    ctx.rule(rule_id)
    p = ctx.program
    f = p.func(AM, 'AppMutator._process_mutation_batch')
    g = ctx.cfg(f)
    from ..flow import ReachingDefs
    rd = ReachingDefs(g, f.params)
    n_sites = 0
    for n in g.nodes:
        for c in n.calls():
            if not (call_name(c) in ('add', 'append') and
                    isinstance(c.func, ast.Attribute) and
                    unparse(c.func.value) == 'removed_mutations' and
                    c.args and isinstance(c.args[0], ast.Name)):
                continue
            v = c.args[0].id
            # where does v come from?  map[key] / map.get(key)
            srcs = []
            for d in rd.reaching(n, v):
                e = d.value
                if isinstance(e, ast.Subscript) and \
                        isinstance(e.value, ast.Name):
                    srcs.append((e.value.id, unparse(e.slice)))
                elif isinstance(e, ast.Call) and call_name(e) == 'get' and \
                        isinstance(e.func.value, ast.Name) and e.args:
                    srcs.append((e.func.value.id, unparse(e.args[0])))
            for mp, key in srcs:
                if mp not in ('last_change_mutations',):
                    continue
                n_sites += 1
                # every path from the add to the next loop iteration passes
                # a delete / overwrite of map[key]
                inval = []
                for m in g.nodes:
                    a = m.ast
                    if m.kind == 'stmt' and isinstance(a, ast.Delete) and \
                            any(unparse(t) == '%s[%s]' % (mp, key)
                                for t in a.targets):
                        inval.append(m)
                    if m.kind == 'stmt' and isinstance(a, ast.Assign) and \
                            any(unparse(t) == '%s[%s]' % (mp, key)
                                for t in a.targets):
                        inval.append(m)
                    if any(call_name(cc) == 'pop' and
                           unparse(cc.func.value) == mp and cc.args and
                           unparse(cc.args[0]) == key for cc in m.calls()):
                        inval.append(m)
                heads = [h for h in g.nodes if h.kind == 'for' and
                         n.id in g.reachable(
                             [s for s, l in h.succ if l == 'T'],
                             avoid=[h], follow_exc=False)]
                head = heads[-1] if heads else None
                w = g.path(n, head, avoid=inval, follow_exc=False) \
                    if head is not None else None
                if head is not None and w is None:
                    ctx.ok(f, 'the entry %s[%s] is deleted/overwritten after '
                           'its mutation is marked removed' % (mp, key), c)
                else:
                    ctx.finding(f, c, 'a mutation read from %s[%s] is marked '
                                'as removed but stays in the map: a later '
                                'mutation with the same key is merged into '
                                'the removed one (optimised result differs '
                                'from one-at-a-time)' % (mp, key), path=w,
                                key='stale-entry:%s' % mp)
    ctx.floor('removed mutations taken from last_change_mutations', n_sites,
              1)
    # only ChangeField mutations may be registered as "absorbable": an
    # AddField registered there lets a later AddField of the same field be
    # folded away before its simulation can reject the duplicate
    regs = [n for n in g.nodes if n.kind == 'stmt' and
            isinstance(n.ast, ast.Assign) and any(
                isinstance(t, ast.Subscript) and
                unparse(t.value) == 'last_change_mutations'
                for t in n.ast.targets)]
    for r in regs:
        tests = [t for t in g.nodes if t.kind == 'test' and
                 isinstance(t.ast, ast.Call) and
                 call_name(t.ast) == 'isinstance' and
                 g.guarded_by(r, t, 'T')]
        classes = set()
        for t in tests:
            k = t.ast.args[1]
            classes |= {x.id for x in ast.walk(k) if isinstance(x, ast.Name)}
        # innermost isinstance test decides
        inner = None
        for t in tests:
            k = {x.id for x in ast.walk(t.ast.args[1])
                 if isinstance(x, ast.Name)}
            if inner is None or len(k) <= len(inner):
                inner = k
        if inner == {'ChangeField'}:
            ctx.ok(f, 'only ChangeField mutations are registered in '
                   'last_change_mutations', r.ast)
        else:
            ctx.finding(f, r.ast, 'a mutation of type %s can be registered '
                        'in last_change_mutations: a later mutation of the '
                        'same field is then merged into it and removed '
                        '(e.g. a duplicate AddField disappears instead of '
                        'being rejected)' % sorted(inner or ['<any>']),
                        key='registers-non-changefield')


def r7_identity_membership(ctx, rule_id='R-C03.7'):
    """BaseMutation.__eq__ is structural (same type and same hint text) while
    __hash__ is id(self): the optimiser's "is this mutation marked as
    removed / seen" tests must therefore go through hash-based containers
    (set / dict), where membership is by identity.  A list or tuple makes
    `m in c` an equality test, and a kept mutation that merely *looks like* a
    removed one (add, delete, add the same field again) is dropped."""
    ctx.rule(rule_id)
    p = ctx.program
    base = p.cls('mutations.base', 'BaseMutation')
    eq, hs = base.methods.get('__eq__'), base.methods.get('__hash__')
    structural = eq is not None and any(
        call_name(c) == 'generate_hint' for c in walk_no_nested(eq.node)
        if isinstance(c, ast.Call))
    identity = hs is not None and any(
        isinstance(c, ast.Call) and call_name(c) == 'id'
        for c in walk_no_nested(hs.node))
    # structural __eq__ with a value-based (or constant) __hash__ makes
    # membership in *every* container an equality test
    all_equality = structural and hs is not None and not identity
    if not structural or (hs is None):
        ctx.info('BaseMutation no longer has structural __eq__ with identity '
                 '__hash__; membership containers are unconstrained')
        ctx.ok(base.methods.get('__eq__') or ('django_evolution.mutations.'
                                              'base', 'BaseMutation'),
               'eq/hash of mutations are consistent')
        return
    f = p.func(AM, 'AppMutator._process_mutation_batch')
    from ..util import unit
    n_tests = 0
    for fn in unit(ctx, f):
        g = ctx.cfg(fn)
        from ..flow import ReachingDefs
        rd = ReachingDefs(g, fn.params)
        # names bound to elements of a mutation list
        elem = set()
        for n in walk_no_nested(fn.node, include_lambda=True):
            it, tg = None, None
            if isinstance(n, ast.For):
                it, tg = n.iter, n.target
            elif isinstance(n, ast.comprehension):
                it, tg = n.iter, n.target
            if it is not None and isinstance(tg, ast.Name) and \
                    'mutations' in unparse(it) and \
                    'by_model' not in unparse(it):
                elem.add(tg.id)
        for node in g.nodes:
            for c in node.walk():
                if not (isinstance(c, ast.Compare) and len(c.ops) == 1 and
                        isinstance(c.ops[0], (ast.In, ast.NotIn)) and
                        isinstance(c.left, ast.Name) and c.left.id in elem and
                        isinstance(c.comparators[0], ast.Name)):
                    continue
                cont = c.comparators[0].id
                n_tests += 1
                kinds = set()
                for d in rd.reaching(node, cont):
                    v = d.value
                    if d.kind != 'assign' or v is None:
                        continue
                    if isinstance(v, (ast.List, ast.Tuple, ast.ListComp)) or (
                            isinstance(v, ast.Call) and
                            call_name(v) in ('list', 'tuple', 'sorted')):
                        kinds.add('list')
                    elif isinstance(v, (ast.Set, ast.SetComp, ast.Dict,
                                        ast.DictComp)) or (
                            isinstance(v, ast.Call) and call_name(v) in (
                                'set', 'frozenset', 'dict', 'OrderedDict')):
                        kinds.add('hash')
                    else:
                        kinds.add('?')
                if cont in fn.params and not kinds:
                    # helper parameter: look at the argument in the caller
                    from ..util import param_argument
                    for a in param_argument(ctx, f, fn, cont) or []:
                        if isinstance(a, ast.Name):
                            gg = ctx.cfg(f)
                            rdd = ReachingDefs(gg, f.params)
                            for m2 in gg.nodes:
                                for d in rdd.reaching(m2, a.id):
                                    v = d.value
                                    if d.kind == 'assign' and isinstance(
                                            v, (ast.List, ast.ListComp)):
                                        kinds.add('list')
                                    elif d.kind == 'assign' and isinstance(
                                            v, ast.Call) and \
                                            call_name(v) == 'set':
                                        kinds.add('hash')
                if all_equality:
                    ctx.finding(fn, c, 'membership of a mutation in %r is an '
                                'equality test: BaseMutation.__eq__ compares '
                                'the hint text and __hash__ (%s) no longer '
                                'tells two equal mutation objects apart, so '
                                'a kept mutation that equals a removed one '
                                '(add, delete, add the same field again) is '
                                'dropped with it' % (
                                    cont, ' '.join(unparse(
                                        [r for r in walk_no_nested(hs.node)
                                         if isinstance(r, ast.Return)][0]
                                    ).split())),
                                key='equality-membership:%s' % cont)
                elif 'list' in kinds:
                    ctx.finding(fn, c, 'membership of a mutation is tested '
                                'against the sequence %r: BaseMutation.__eq__ '
                                'is structural, so a kept mutation that equals '
                                'a removed one is treated as removed too '
                                '(identity is only guaranteed by set/dict '
                                'membership)' % cont,
                                key='equality-membership:%s' % cont)
                else:
                    ctx.ok(fn, 'mutation membership in %r is hash/identity '
                           'based' % cont, c)
    ctx.floor('mutation membership tests in the optimiser', n_tests, 1)


def r8_initial_sentinel(ctx, rule_id='R-C03.8'):
    """The declared initial value of a field is "absent" only when it is
    None: 0, '', False and empty containers are legitimate initial values.
    Any use of an `initial` value in a boolean context (if x / x and y /
    x or default / not x) treats those as absent - a merged ChangeField
    loses initial=0, an added column is filled with NULL instead of ''.
    Every such use in the mutation -> SQL pipeline must be an explicit
    comparison with None."""
    ctx.rule(rule_id)
    p = ctx.program
    n_reads = 0

    def is_initial(e):
        return (isinstance(e, ast.Name) and e.id == 'initial') or \
            (isinstance(e, ast.Attribute) and e.attr == 'initial')

    for m in p.modules.values():
        if not any(part in m.name for part in ('.mutations', '.mutators',
                                               '.db.')):
            continue
        for f in m.all_funcs():
            for n in ast.walk(f.node):
                if is_initial(n) and isinstance(getattr(n, 'ctx', None),
                                                ast.Load):
                    n_reads += 1
                tests = []
                if isinstance(n, (ast.If, ast.While, ast.IfExp, ast.Assert)):
                    tests.append(n.test)
                elif isinstance(n, ast.BoolOp):
                    tests += n.values
                elif isinstance(n, ast.UnaryOp) and isinstance(n.op, ast.Not):
                    tests.append(n.operand)
                elif isinstance(n, ast.comprehension):
                    tests += n.ifs
                elif isinstance(n, ast.Call) and isinstance(
                        n.func, ast.Name) and n.func.id == 'bool' and n.args:
                    tests.append(n.args[0])
                for t in tests:
                    if is_initial(t):
                        ctx.finding(f, t, 'the initial value %s is used as a '
                                    'truth value: the legitimate initial '
                                    'values 0, \'\', False are treated as '
                                    '"no initial value"' % unparse(t),
                                    key='initial-truthiness:%s' % unparse(t))
    ctx.floor('reads of an initial value in mutations/mutators/db', n_reads,
              20)
    ctx.ok(('django_evolution.mutators.app_mutator', 'AppMutator'),
           'no initial value is used as a truth value (%d reads inspected)'
           % n_reads)


def r9_merged_index_state(ctx):
    from .c01 import r8_index_state_reaches_rebuild, r9_deleted_filter_scope
    r8_index_state_reaches_rebuild(ctx, rule_id='R-C03.9')
    r9_deleted_filter_scope(ctx, rule_id='R-C03.10')


def _is_queued_rename(fn, expr, depth=3) -> bool:
    """expr denotes an element of a rename record's 'mutations' list
    (`info['mutations'][0]`, directly or through locals of any name)."""
    if depth < 0:
        return False
    if isinstance(expr, ast.Subscript):
        if "['mutations']" in unparse(expr.value):
            return True
        return _is_queued_rename(fn, expr.value, depth - 1) \
            if isinstance(expr.value, ast.Name) else False
    if isinstance(expr, ast.Name):
        for n in walk_no_nested(fn.node):
            if isinstance(n, ast.Assign) and len(n.targets) == 1 and \
                    isinstance(n.targets[0], ast.Name) and \
                    n.targets[0].id == expr.id:
                if isinstance(n.value, ast.Subscript) and (
                        "['mutations']" in unparse(n.value) or
                        _is_queued_rename(fn, n.value, depth - 1)):
                    return True
    return False


def r11_fold_copies_target_state(ctx, rule_id='R-C03.11'):
    """When the optimiser folds a chain of renames into the first one it
    copies the *target* of the last rename into it.  The target of a
    RenameField is (new_field_name, db_column, db_table), of a RenameModel
    (new_model_name, db_table): every constructor argument that describes
    where the data ends up.  Copying only the new name leaves the values in
    the column / table the intermediate rename named."""
    ctx.rule(rule_id)
    p = ctx.program
    f = p.func(AM, 'AppMutator._process_mutation_batch')
    base = p.cls('mutations.base', 'BaseMutation')
    targets = {}
    for c in base.all_subclasses():
        if c.name not in ('RenameField', 'RenameModel'):
            continue
        init = c.methods.get('__init__')
        attrs = set()
        for n in walk_no_nested(init.node):
            if isinstance(n, ast.Assign):
                for t in n.targets:
                    if is_self_attr(t) and isinstance(n.value, ast.Name) and \
                            n.value.id in init.params:
                        attrs.add(t.attr)
        targets[c.name] = {a for a in attrs if not a.startswith('old_') and
                           a not in ('model_name', 'field_name')}
    ctx.floor('rename mutation classes', len(targets), 2)
    from ..util import unit
    copied = {}      # class name -> {attr: node}
    for fn in unit(ctx, f):
        parents = {}
        for a in ast.walk(fn.node):
            for c in ast.iter_child_nodes(a):
                parents[id(c)] = a
        for n in walk_no_nested(fn.node):
            if not (isinstance(n, ast.Assign) and len(n.targets) == 1):
                continue
            t, v = n.targets[0], n.value
            if not (isinstance(t, ast.Attribute) and
                    isinstance(t.value, ast.Name) and
                    isinstance(v, ast.Attribute) and v.attr == t.attr and
                    t.attr.startswith(('new_', 'db_')) and
                    _is_queued_rename(fn, v.value)):
                continue
            # innermost isinstance(<target var>, <Class>) branch
            cur, cname = n, None
            while id(cur) in parents and cname is None:
                par = parents[id(cur)]
                if isinstance(par, ast.If) and cur in par.body:
                    for x in ast.walk(par.test):
                        if isinstance(x, ast.Call) and \
                                call_name(x) == 'isinstance' and \
                                len(x.args) == 2 and \
                                unparse(x.args[0]) == t.value.id and \
                                isinstance(x.args[1], ast.Name):
                            cname = x.args[1].id
                cur = par
            if cname in targets:
                copied.setdefault(cname, {}).setdefault(t.attr, n)
    ctx.floor('rename fold sites in the optimiser', len(copied), 2)
    for cname in sorted(copied):
        need = targets[cname]
        got = set(copied[cname])
        n = sorted(copied[cname].values(), key=lambda x: x.lineno)[0]
        missing = sorted(need - got)
        if missing:
            ctx.finding(f, n, 'folding a chain of %ss copies %s of the last '
                        'rename but not %s: the data stays in the column / '
                        'table named by an intermediate rename, while '
                        'applying the renames one at a time moves it' % (
                            cname, sorted(got), missing),
                        key='fold-omits:%s:%s' % (cname, ','.join(missing)))
        else:
            ctx.ok(f, 'the %s fold copies the whole target (%s)' % (
                cname, ', '.join(sorted(need))), n)


def r12_regroup_respects_model_barriers(ctx, rule_id='R-C03.12'):
    """The optimiser regroups the surviving mutations per model (so that the
    SQL generator can merge the operations of one table).  That permutation
    is only harmless inside a run without model-level mutations:
    RenameModel / DeleteModel change what a model name refers to, and a
    RenameModel sorts under its *old* name.  Regrouping the whole batch by
    sorted model name moves `AddField('Aa', ...)` in front of
    `RenameModel('B', 'Aa')`, and the optimised run fails (or addresses the
    wrong model) where one-at-a-time application succeeds."""
    ctx.rule(rule_id)
    p = ctx.program
    f = p.func(AM, 'AppMutator._process_mutation_batch')
    from ..util import unit
    groups = 0
    for fn in unit(ctx, f):
        g = ctx.cfg(fn)
        barrier = [t for t in g.nodes if t.kind in ('test', 'operand') and
                   isinstance(t.ast, ast.Call) and
                   call_name(t.ast) == 'isinstance' and
                   any(isinstance(x, ast.Name) and
                       x.id in ('RenameModel', 'DeleteModel')
                       for x in ast.walk(t.ast.args[1]))
                   ] if True else []
        for n in g.nodes:
            hit = None
            for c in n.calls():
                if call_name(c) in ('append', 'setdefault') and \
                        'mutations_by_model' in unparse(c.func):
                    hit = c
            a = n.ast
            if hit is None and n.kind == 'stmt' and isinstance(
                    a, (ast.Assign, ast.AugAssign)) and \
                    'mutations_by_model[' in unparse(
                        a.targets[0] if isinstance(a, ast.Assign)
                        else a.target) and 'model_name' in unparse(a):
                hit = a
            if hit is None or 'mutation' not in unparse(hit):
                continue
            if isinstance(hit, ast.Call) and not any(
                    'mutation' in unparse(x) for x in hit.args):
                continue
            groups += 1
            if any(g.guarded_by(n, t, 'F') or g.guarded_by(n, t, 'T')
                   for t in barrier):
                ctx.ok(fn, 'per-model regrouping is segmented at '
                       'RenameModel / DeleteModel', hit)
            else:
                ctx.finding(fn, hit, 'the whole batch is regrouped by model '
                            'name with no barrier at RenameModel / '
                            'DeleteModel: a mutation addressed to a model\'s '
                            'new name can be moved in front of the rename '
                            '(whenever the new name sorts first), so a '
                            'sequence that is valid one at a time fails or '
                            'changes meaning in the optimised run',
                            key='regroup-across-model-mutations')
    ctx.floor('per-model grouping stores in the optimiser', groups, 1)


def r13_merged_copy_map(ctx):
    """The data copy of the merged rebuild (shared with R-C02.1/.2): which
    old columns are copied and under which names.  A merged DeleteField x + AddField x must not carry the old
    values of x into the new column."""
    from .c02 import r1_r4_copy_map
    r1_r4_copy_map(ctx, ids={'R-C02.1': 'R-C03.13', 'R-C02.2': 'R-C03.13'},
                   upto='R-C02.2')


MUTATING_METHODS = {'update', 'pop', 'popitem', 'setdefault', 'clear',
                    'append', 'extend', 'insert', 'remove', 'add', 'discard',
                    'sort', 'reverse'}
CONTAINER_CTORS = {'dict', 'list', 'set', 'OrderedDict', 'defaultdict'}


def _container_attrs(cls):
    """Attributes a mutation class binds in __init__ to a container it then
    owns: a **kwargs / *args parameter, a container display, or a container
    constructor call."""
    out = set()
    init = cls.find_method('__init__')
    if init is None:
        return out
    a = init.node.args
    star = {x.arg for x in (a.vararg, a.kwarg) if x is not None}
    for n in walk_no_nested(init.node):
        if not isinstance(n, ast.Assign):
            continue
        for t in n.targets:
            if isinstance(t, ast.Attribute) and isinstance(t.value, ast.Name) \
                    and t.value.id == 'self':
                v = n.value
                if isinstance(v, ast.Name) and v.id in star:
                    out.add(t.attr)
                elif isinstance(v, (ast.Dict, ast.List, ast.Set, ast.DictComp,
                                    ast.ListComp, ast.SetComp)):
                    out.add(t.attr)
                elif isinstance(v, ast.Call) and \
                        call_name(v) in CONTAINER_CTORS:
                    out.add(t.attr)
    return out


def _copying_setters(p):
    """Attribute names that some class of the package defines as a property
    with a setter (assignment goes through code that may copy/normalise)."""
    out = set()
    for m in p.modules.values():
        for c in m.classes.values():
            for f in c.methods.values():
                for d in f.node.decorator_list:
                    if isinstance(d, ast.Attribute) and d.attr == 'setter':
                        out.add(f.name)
    return out


def _stores_param_by_reference(cls, kw):
    """True when cls.__init__ binds self.<x> = <kw> or `<kw> or <fresh>` -
    the object then shares the caller's container (whenever it is truthy)."""
    init = cls.find_method('__init__') if cls is not None else None
    if init is None:
        return None
    for n in walk_no_nested(init.node):
        if isinstance(n, ast.Assign):
            v = n.value
            if isinstance(v, ast.Name) and v.id == kw:
                return 'always'
            if isinstance(v, ast.BoolOp) and isinstance(v.op, ast.Or) and \
                    isinstance(v.values[0], ast.Name) and \
                    v.values[0].id == kw:
                return 'unless-empty'
    return None


def r14_mutation_state_not_aliased(ctx, rule_id='R-C03.14'):
    """A mutation object is replayed: AppMutator simulates every mutation
    once while collecting and again when it renders SQL.  A container the
    mutation owns (its **field_attrs, ...) must therefore never be stored by
    reference into a signature: later mutations update the signature's
    container in place and the earlier mutation is changed retroactively (the
    second simulation then describes a state that never existed)."""
    ctx.rule(rule_id)
    p = ctx.program
    setters = _copying_setters(p)
    n_sites = 0
    for m in p.modules.values():
        if not m.name.startswith('django_evolution.mutations'):
            continue
        for c in m.classes.values():
            owned = set()
            for k in c.mro():
                owned |= _container_attrs(k)
            if not owned:
                continue
            for f in c.methods.values():
                if f.name == '__init__':
                    continue
                for n in walk_no_nested(f.node):
                    # (a) obj.attr = self.<owned>
                    if isinstance(n, ast.Assign):
                        v = through_copies(f, n.value)
                        if is_self_attr(v) and v.attr in owned:
                            for t in n.targets:
                                if isinstance(t, ast.Attribute) and not \
                                        is_self_attr(t):
                                    n_sites += 1
                                    if t.attr in setters:
                                        ctx.ok(f, '%s goes through a '
                                               'property setter' % t.attr, n)
                                    else:
                                        ctx.finding(
                                            f, n, '%s stores the mutation\'s '
                                            'own %s by reference into %s: a '
                                            'later in-place change of the '
                                            'signature rewrites this '
                                            'mutation, and its second '
                                            'simulation (SQL generation) '
                                            'starts from the later state' % (
                                                f.qualname, v.attr,
                                                unparse(t)),
                                            key='alias:%s->%s' % (
                                                v.attr, t.attr))
                    # (b) SomeSignature(kw=self.<owned>)
                    if isinstance(n, ast.Call) and \
                            (call_name(n) or '').endswith('Signature'):
                        for kwd in n.keywords:
                            v = through_copies(f, kwd.value)
                            if kwd.arg and is_self_attr(v) and \
                                    v.attr in owned:
                                n_sites += 1
                                kcls = None
                                for mm in p.modules.values():
                                    if call_name(n) in mm.classes:
                                        kcls = mm.classes[call_name(n)]
                                how = _stores_param_by_reference(kcls,
                                                                 kwd.arg)
                                if how and kwd.arg not in setters:
                                    ctx.finding(
                                        f, n, '%s hands the mutation\'s own '
                                        '%s to %s(%s=...), which keeps the '
                                        'reference' % (f.qualname, v.attr,
                                                       call_name(n), kwd.arg),
                                        key='alias:%s->%s()' % (
                                            v.attr, call_name(n)))
                                else:
                                    ctx.ok(f, 'constructor copies', n)
    ctx.counts['%s stores of mutation-owned containers into other objects' %
               rule_id] = n_sites
    if not n_sites:
        ctx.ok(('django_evolution.mutations', '*'),
               'no mutation stores one of its own containers into another '
               'object')


def r15_no_write_after_conditional_handover(ctx, rule_id='R-C03.15'):
    """FieldSignature.__init__ (and its siblings) keep `param or Fresh()`:
    the object shares the caller's container only when that container is not
    empty.  A caller that hands a local container over and changes it
    *afterwards* relies on the sharing - for an empty container the change
    is silently lost (a column rename that the signature records but the
    generated SQL does not contain)."""
    ctx.rule(rule_id)
    p = ctx.program
    sig_classes = {}
    for mm in p.modules.values():
        for c in mm.classes.values():
            if c.name.endswith('Signature'):
                sig_classes[c.name] = c
    n_calls = 0
    for m in p.modules.values():
        for f in m.all_funcs():
            calls = [n for n in walk_no_nested(f.node)
                     if isinstance(n, ast.Call) and
                     call_name(n) in sig_classes]
            if not calls:
                continue
            for call in calls:
                for kwd in call.keywords:
                    if not (kwd.arg and isinstance(kwd.value, ast.Name)):
                        continue
                    how = _stores_param_by_reference(
                        sig_classes[call_name(call)], kwd.arg)
                    if how != 'unless-empty':
                        continue
                    n_calls += 1
                    local = kwd.value.id
                    g = ctx.cfg(f)
                    cnode = next((x for x in g.nodes if call in x.calls()),
                                 None)
                    if cnode is None:
                        continue
                    after = g.reachable([s for s, _ in cnode.succ],
                                        follow_exc=False)
                    late = None
                    for x in g.nodes:
                        if x.id not in after or x is cnode:
                            continue
                        for a in x.walk():
                            if isinstance(a, ast.Call) and \
                                    isinstance(a.func, ast.Attribute) and \
                                    a.func.attr in MUTATING_METHODS and \
                                    isinstance(a.func.value, ast.Name) and \
                                    a.func.value.id == local:
                                late = a
                            if isinstance(a, ast.Subscript) and \
                                    isinstance(a.ctx, (ast.Store, ast.Del)) \
                                    and isinstance(a.value, ast.Name) and \
                                    a.value.id == local:
                                late = a
                    if late is not None:
                        ctx.finding(
                            f, late, '%s changes its local %s after handing '
                            'it to %s(%s=...), which keeps `%s or <fresh '
                            'container>`: when %s is empty at the hand-over '
                            'the object never sees the change' % (
                                f.qualname, local, call_name(call), kwd.arg,
                                kwd.arg, local),
                            key='write-after-handover:%s' % local)
                    else:
                        ctx.ok(f, '%s is complete when handed to %s()' % (
                            local, call_name(call)), call)
    ctx.counts['%s local containers handed to a signature constructor that '
               'keeps `x or fresh`' % rule_id] = n_calls


def r16_every_mutator_replays_its_simulation(ctx, rule_id='R-C03.16'):
    """AppMutator.to_sql() resets the signature to its original state and
    generates SQL in a second pass.  Whatever a mutation's simulate() did to
    the signature in the first pass exists in the second only if it is
    simulated again: ModelMutator does that per finished op (finish_op),
    UpgradeMethodMutator in finalize().  Every kind of mutator that
    AppMutator stores in `_mutators` must do the same (itself, or in
    to_sql's loop) - otherwise the mutators that follow lower their
    operations against a signature in which the mutation never happened (a
    column added by an SQLMutation is dropped by the next table rebuild of
    the same run)."""
    ctx.rule(rule_id)
    p = ctx.program
    am = p.cls('mutators.app_mutator', 'AppMutator')
    # classes whose instances end up in self._mutators
    kinds = set()
    for f in am.methods.values():
        for n in walk_no_nested(f.node):
            if isinstance(n, ast.Call) and isinstance(n.func, ast.Name):
                for mm in p.modules.values():
                    if n.func.id in mm.classes and \
                            mm.name.startswith('django_evolution.mutators') \
                            and n.func.id.endswith('Mutator'):
                        kinds.add(n.func.id)
    ctx.floor('mutator classes created by AppMutator', len(kinds), 3)
    by_name = {}
    for mm in p.modules.values():
        for fn in mm.all_funcs():
            by_name.setdefault(fn.name, []).append(fn)

    def reaches_simulation(start, depth=5):
        seen, work = set(), [(s_, 0) for s_ in start]
        while work:
            fn, d = work.pop()
            if id(fn) in seen:
                continue
            seen.add(id(fn))
            for c in walk_no_nested(fn.node):
                if isinstance(c, ast.Call):
                    nm = call_name(c)
                    if nm == 'run_simulation':
                        return True
                    if d < depth and nm in by_name and \
                            isinstance(c.func, ast.Attribute):
                        recv = c.func.value
                        if isinstance(recv, ast.Name) and \
                                recv.id in ('self', 'cls') or (
                                    isinstance(recv, ast.Call) and
                                    call_name(recv) == 'super'):
                            targets, _prec = p.resolve_call(fn, c)
                        else:
                            targets = [t for t in by_name[nm]
                                       if t.module.name.startswith(
                                           ('django_evolution.mutators',
                                            'django_evolution.db'))]
                        work.extend((t, d + 1) for t in targets)
        return False
    to_sql = am.methods['to_sql']
    for k in sorted(kinds):
        kc = None
        for mm in p.modules.values():
            if k in mm.classes:
                kc = mm.classes[k]
        starts = [m for m in (kc.find_method('to_sql'),
                              kc.find_method('finalize')) if m is not None]
        own = reaches_simulation(starts)
        in_loop = False
        # a re-simulation in to_sql's loop that is reached for instances of
        # K: under `if isinstance(m, K):`, or after `if not isinstance(m,
        # K): continue` (decided on the CFG: the call is controlled by the
        # isinstance test)
        tg = ctx.cfg(to_sql)
        sims = [x for x in tg.nodes if any(
            call_name(c) in ('run_simulation', '_run_simulation')
            for c in x.calls())]
        for x in sims:
            for t in tg.nodes:
                if t.kind in ('test', 'operand') and t.ast is not None and \
                        any(isinstance(c, ast.Call) and
                            call_name(c) == 'isinstance' and k in unparse(c)
                            for c in ast.walk(t.ast)):
                    neg = isinstance(t.ast, ast.UnaryOp) and \
                        isinstance(t.ast.op, ast.Not)
                    if tg.guarded_by(x, t, 'F' if neg else 'T'):
                        in_loop = True
        if own or in_loop:
            ctx.ok(to_sql, '%s: the mutation is simulated again in the SQL '
                   'generation pass (%s)' % (
                       k, 'by the mutator' if own else 'by to_sql'))
        else:
            ctx.finding(to_sql, None, 'a %s is stored in AppMutator._mutators '
                        'but neither its to_sql()/finalize() nor '
                        'AppMutator.to_sql() simulates its mutation again '
                        'after the signature was reset: later mutators of '
                        'the run generate SQL from a signature that lacks '
                        'its changes' % k, key='not-replayed:%s' % k)


def r17_index_names_from_columns(ctx):
    from .c01 import r18_index_names_from_columns
    r18_index_names_from_columns(ctx, rule_id='R-C03.17')


def r18_every_model_mutation_queues_an_op(ctx):
    from .c01 import r16_every_model_mutation_queues_an_op
    r16_every_model_mutation_queues_an_op(ctx, rule_id='R-C03.18')


def r19_index_recorded_only_for_indexed_columns(ctx):
    """The SQLite add_column handler records the index of the new column in
    the tracked DatabaseState (the rebuild creates it).  It may do so only
    for a column that *has* one: every add_index / create_index call there
    is controlled by a test of field.unique / primary_key / db_index.  A
    phantom entry makes a later ChangeField(db_index=True) of the same run
    find "its" index in the state and emit nothing."""
    ctx.rule('R-C03.19')
    p = ctx.program
    f = p.func('db.sqlite3', 'EvolutionOperations.add_column')
    g = ctx.cfg(f)
    n = 0
    for node in g.nodes:
        for c in node.calls():
            if call_name(c) not in ('add_index', 'create_index'):
                continue
            n += 1
            idx_tests = [t for t in g.nodes if t.kind in ('test', 'operand')
                         and t.ast is not None and any(
                             isinstance(x, ast.Attribute) and x.attr in (
                                 'db_index', 'unique', 'primary_key')
                             for x in ast.walk(t.ast))]
            drop = {(t.id, 'T') for t in idx_tests}
            reach = g.reachable([g.entry], follow_exc=False, drop_edges=drop)
            ctl = idx_tests if (idx_tests and node.id not in reach) else []
            if ctl:
                ctx.ok(f, 'index recorded under "%s"' % ' '.join(
                    unparse(ctl[0].ast).split()), c)
            else:
                ctx.finding(f, c, 'the SQLite add_column handler records an '
                            'index (%s) for the new column without testing '
                            'that the field is indexed: the tracked state '
                            'gains an index the database does not have' %
                            call_name(c), key='phantom-index-recorded')
    ctx.floor('index registrations in the SQLite add_column handler', n, 1)


def run(ctx):
    r19_index_recorded_only_for_indexed_columns(ctx)
    r18_every_model_mutation_queues_an_op(ctx)
    r17_index_names_from_columns(ctx)
    r16_every_mutator_replays_its_simulation(ctx)
    r15_no_write_after_conditional_handover(ctx)
    r14_mutation_state_not_aliased(ctx)
    r13_merged_copy_map(ctx)
    r12_regroup_respects_model_barriers(ctx)
    r11_fold_copies_target_state(ctx)
    r9_merged_index_state(ctx)
    r8_initial_sentinel(ctx)
    r7_identity_membership(ctx)
    r6_consumed_entries_invalidated(ctx)
    r1_ownership(ctx)
    r5_mutations_pure(ctx)
    r2_resimulated(ctx)
    r3_replay_from_originals(ctx)
    r4_regroup_deterministic(ctx)
