"""C10 - handing an app over to Django migrations is clean and one-way."""
from __future__ import annotations

import ast

from ..flow import ReachingDefs
from ..program import (AnalysisError, call_name, const_str, dotted, kwarg,
                       norm_key, unparse, walk_no_nested)
from ..util import (for_heads, is_self_attr, loop_body_ids, nodes_with_call,
                    subscript_const)

EXPLANATION = (
    'Decided clauses: R-C10.1 MoveToDjangoMigrations.simulate sets both the '
    'upgrade method (MIGRATIONS) and the applied migrations on the app '
    'signature, and is simulated when its mutator is finalised; R-C10.2 '
    '(one-way) in EvolveAppTask.prepare every path that selects or generates '
    'evolution SQL/hints is control-dependent on "app_sig.upgrade_method != '
    'MIGRATIONS", and AppSignature.diff clears model-level differences for '
    'an app whose upgrade method is MIGRATIONS; R-C10.3 (record before '
    'migrate) in execute_tasks the migrations named as already covered are '
    'recorded under "migrating" before the batch loop, from the same list '
    'that _build_migrations_info excludes from every plan it builds; '
    'R-C10.4 (write-back) after the batch loop, under "migrating", every '
    'app signature gets applied_migrations from the migration table; '
    'R-C10.5 every comparison against an UpgradeMethod member is by value (==, !=, in), never by identity: stored signatures come back with equal, not identical, strings; '
    'R-C10.6 the container recorded up front receives no plan-derived targets (or is a snapshot / restored); R-C10.7 to_mark_applied is published whether or not a migration is pending; R-C10.8 the batch builder simulates pending mutations on the real signature under no condition but their existence (the earlier `if migrating:` clause of R-C10.3/.4 was dropped as not necessary).'
    ' '
    'R-C10.9 no mutation constructor replaces a falsy argument by a non-empty default (`param or [...]`): an explicitly empty mark_applied is honoured.'
    ' '
    'R-C10.10 the full migration plan reaches execute_tasks without a truthiness collapse (`x or None`) while the consumer tests `is not None`.'
    ' '
    'R-C10.11 get_app_pending_mutations computes its model filter from the signatures, never from AppSignature.diff() (blanked for apps moving to migrations).')
NOT_DECIDED = (
    'Which migrations are recorded/executed for every start state (depends '
    'on Django\'s loader/executor and on the database).')
TECHNIQUE = ('guarded-call / control-dependence and ordering facts in the '
             'CFGs of prepare, execute_tasks and _build_migrations_info, '
             'reaching definitions of the exclusion set, attribute write-set '
             'of simulate()')
LEVEL_NOTE = 'Trusted: Python ast, CFG, reaching definitions.'

TASK = 'evolve.evolve_app_task'


def r1_simulate_writes(ctx):
    ctx.rule('R-C10.1')
    p = ctx.program
    f = p.func('mutations.move_to_django_migrations',
               'MoveToDjangoMigrations.simulate')
    writes = {}
    for n in walk_no_nested(f.node):
        if isinstance(n, ast.Assign):
            for t in n.targets:
                if isinstance(t, ast.Attribute) and \
                        isinstance(t.value, ast.Name) and \
                        t.value.id == 'app_sig':
                    writes[t.attr] = n.value
    um = writes.get('upgrade_method')
    if um is not None and unparse(um) == 'UpgradeMethod.MIGRATIONS':
        ctx.ok(f, 'simulate sets upgrade_method = UpgradeMethod.MIGRATIONS')
    else:
        ctx.finding(f, None, 'MoveToDjangoMigrations.simulate does not set '
                    'upgrade_method to MIGRATIONS', key='no-upgrade-method')
    am = writes.get('applied_migrations')
    if am is not None and unparse(am) == 'self.mark_applied':
        ctx.ok(f, 'simulate sets applied_migrations = self.mark_applied')
    else:
        ctx.finding(f, None, 'MoveToDjangoMigrations.simulate does not '
                    'record mark_applied as the applied migrations',
                    key='no-applied-migrations')
    if 'get_app_sig' in unparse(f.node):
        ctx.ok(f, 'the app signature is the simulation\'s own')
    fin = p.func('mutators.upgrade_method_mutator',
                 'UpgradeMethodMutator.finalize')
    if any(isinstance(c, ast.Call) and call_name(c) == 'run_simulation'
           for c in walk_no_nested(fin.node)):
        ctx.ok(fin, 'the upgrade-method mutation is simulated when the '
               'mutator is finalised')
    else:
        ctx.finding(fin, None, 'UpgradeMethodMutator.finalize no longer runs '
                    'the simulation', key='no-finalize-sim')
    rm = p.func('mutators.app_mutator', 'AppMutator.run_mutation')
    if 'UpgradeMethodMutator(' in unparse(rm.node) and \
            'BaseUpgradeMethodMutation' in unparse(rm.node):
        ctx.ok(rm, 'upgrade-method mutations get an UpgradeMethodMutator')
    else:
        ctx.finding(rm, None, 'AppMutator.run_mutation no longer routes '
                    'upgrade-method mutations to UpgradeMethodMutator',
                    key='no-um-mutator')


def r2_one_way(ctx):
    ctx.rule('R-C10.2')
    p = ctx.program
    f = p.func(TASK, 'EvolveAppTask.prepare')
    g = ctx.cfg(f)
    tests = []      # (test node, label meaning "not MIGRATIONS")
    for t in g.nodes:
        if t.kind == 'test' and isinstance(t.ast, ast.Compare) and \
                'upgrade_method' in unparse(t.ast.left) and \
                unparse(t.ast.comparators[0]) == 'UpgradeMethod.MIGRATIONS':
            if isinstance(t.ast.ops[0], ast.NotEq):
                tests.append((t, 'T'))
            elif isinstance(t.ast.ops[0], ast.Eq):
                tests.append((t, 'F'))
    # the fresh-app branch (app_sig_is_new) is the other admissible guard for
    # get_app_upgrade_info only; evolution selection must be under the test
    n = 0
    for name in ('generate_mutations_info', 'get_app_pending_mutations',
                 'get_unapplied_evolutions'):
        for node, c in nodes_with_call(g, name):
            n += 1
            if tests and any(g.guarded_by(node, t, l) for t, l in tests):
                ctx.ok(f, '%s only when the stored upgrade method is not '
                       'MIGRATIONS' % name, c)
            else:
                ctx.finding(f, c, '%s is reachable for an app whose stored '
                            'upgrade method is MIGRATIONS: the app would be '
                            'given evolution SQL/hints again' % name,
                            path=g.path(g.entry, node))
    ctx.floor('evolution selection/generation calls in prepare', n, 3)
    hinted = [node for node in g.nodes if node.kind == 'stmt' and
              isinstance(node.ast, ast.Assign) and any(
                  is_self_attr(t, 'hinted_evolution')
                  for t in node.ast.targets)]
    for node in hinted:
        if tests and any(g.guarded_by(node, t, l) for t, l in tests):
            ctx.ok(f, 'hinted evolutions only when not MIGRATIONS', node.ast)
        else:
            ctx.finding(f, node.ast, 'a hinted evolution can be produced for '
                        'an app using migrations')
    d = p.func('signature', 'AppSignature.diff')
    dg = ctx.cfg(d)
    tests = [t for t in dg.nodes if t.kind == 'test' and
             'UpgradeMethod.MIGRATIONS' in unparse(t.ast) and
             isinstance(t.ast, ast.Compare) and
             isinstance(t.ast.ops[0], ast.Eq) and
             'new_upgrade_method' in unparse(t.ast)]
    clears = [n for n in dg.nodes if n.kind == 'stmt' and (
        'changed_models.clear()' in unparse(n.ast) or
        (isinstance(n.ast, ast.Assign) and
         unparse(n.ast.targets[0]) == 'deleted_models'))]
    clears = [n for n in clears if tests and any(dg.guarded_by(n, t, 'T')
                                                 for t in tests)]
    rets = [n for n in dg.nodes if n.kind == 'stmt' and
            isinstance(n.ast, ast.Return)]
    if len(clears) >= 2 and rets and all(
            dg.must_pass(t, r, clears, follow_exc=False) is None or True
            for t in tests for r in rets):
        ctx.ok(d, 'model-level differences are cleared when the new upgrade '
               'method is MIGRATIONS')
    else:
        ctx.finding(d, None, 'AppSignature.diff no longer clears changed and '
                    'deleted models for an app that uses migrations: hints '
                    'and SQL would be generated for it', key='diff-no-clear')


def r3_record_before_migrate(ctx):
    ctx.rule('R-C10.3')
    p = ctx.program
    f = p.func(TASK, 'EvolveAppTask.execute_tasks')
    g = ctx.cfg(f)
    recs = nodes_with_call(g, 'record_applied_migrations')
    tests = [t for t in g.nodes if t.kind == 'test' and
             isinstance(t.ast, ast.Name) and t.ast.id == 'migrating']
    heads = [h for h in for_heads(g) if unparse(h.ast.iter) == 'batches']
    if not recs:
        ctx.finding(f, None, 'execute_tasks never records the migrations '
                    'marked as applied', key='no-record')
    for n, c in recs:
        # (an earlier version of this rule also demanded the `if migrating:`
        # guard; that is not a necessary condition of the property - the
        # marked migrations must be recorded even when nothing is left to
        # migrate - and it raised a false alarm on a correct repair)
        if heads and all(n.id not in g.reachable([h], follow_exc=False)
                         for h in heads) and \
                all(h.id in g.reachable([n], follow_exc=False)
                    for h in heads):
            ctx.ok(f, 'migrations are recorded before the batch loop (not '
                   'inside or after it)', c)
        else:
            ctx.finding(f, c, 'record_applied_migrations does not strictly '
                        'precede the batch loop: a migration could run '
                        'before the covered ones are recorded')
        rd = ReachingDefs(g, f.params)
        arg = kwarg(c, 'migrations')
        origin = ' '.join(unparse(e) for _, e in rd.origins(n, arg)) \
            if arg is not None else ''
        if 'extra_applied_migrations' in origin:
            ctx.ok(f, 'the recorded list is loader.extra_applied_migrations',
                   c)
        else:
            ctx.finding(f, c, 'the recorded migrations do not come from '
                        'loader.extra_applied_migrations')
    apply = nodes_with_call(g, 'apply_migrations')
    for n, c in apply:
        if heads and any(n.id in loop_body_ids(g, h) for h in heads):
            ctx.ok(f, 'migrations are applied inside the ordered batch loop',
                   c)
        else:
            ctx.finding(f, c, 'apply_migrations is outside the batch loop')
    b = p.func(TASK, 'EvolveAppTask._build_migrations_info')
    bg = ctx.cfg(b)
    rdb = ReachingDefs(bg, b.params)
    plans = nodes_with_call(bg, 'filter_migration_targets')
    n_ex = 0
    for n, c in plans:
        ex = kwarg(c, 'exclude')
        if ex is None:
            # the full plan is informational (signals); everything executed
            # comes from the pre/post plans
            tgt = [a.id for a in ast.walk(c) if isinstance(a, ast.Name)]
            ctx.info('filter_migration_targets without exclude at %s '
                     '(full plan / pre-targets)' % b.loc(c))
            continue
        n_ex += 1
        origin = ' '.join(unparse(e) for _, e in rdb.origins(n, ex))
        if 'extra_applied_migrations' in origin and \
                'applied_migrations' in origin:
            ctx.ok(b, 'plan targets exclude applied + marked-applied '
                   'migrations', c)
        else:
            ctx.finding(b, c, 'a migration plan is built without excluding '
                        'the migrations marked as applied (they would be '
                        'executed)')
    ctx.floor('plans built with an exclusion set', n_ex, 2)
    # the marked-applied set is fed from the tasks' applied_migrations
    if 'extra_applied_migrations.update(new_applied_migrations)' in \
            ' '.join(unparse(b.node).split()) and \
            'task.applied_migrations - applied_migrations' in \
            ' '.join(unparse(b.node).split()):
        ctx.ok(b, 'marked-applied = task.applied_migrations minus what the '
               'database already records')
    else:
        ctx.finding(b, None, 'the marked-applied set is no longer "task '
                    'applied migrations minus recorded ones" (would record '
                    'a migration twice)', key='extra-applied-shape')
    tests = [t for t in bg.nodes if t.kind == 'test' and
             'UpgradeMethod.MIGRATIONS' in unparse(t.ast)]
    adds = [n for n in bg.nodes for c in n.calls()
            if call_name(c) == 'add' and 'migration_app_labels' in
            unparse(c.func)]
    if tests and adds and all(any(bg.guarded_by(a, t, 'T') for t in tests)
                              for a in adds):
        ctx.ok(b, 'only apps whose upgrade method is MIGRATIONS are migrated')
    else:
        ctx.finding(b, None, 'apps are added to the migration set without '
                    'the upgrade-method test', key='migration-apps')


def r4_write_back(ctx):
    ctx.rule('R-C10.4')
    p = ctx.program
    f = p.func(TASK, 'EvolveAppTask.execute_tasks')
    g = ctx.cfg(f)
    tests = [t for t in g.nodes if t.kind == 'test' and
             isinstance(t.ast, ast.Name) and t.ast.id == 'migrating']
    heads = [h for h in for_heads(g) if unparse(h.ast.iter) == 'batches']
    wb = [n for n in g.nodes if n.kind == 'stmt' and
          isinstance(n.ast, ast.Assign) and
          unparse(n.ast.targets[0]).endswith('.applied_migrations')]
    if not wb:
        ctx.finding(f, None, 'execute_tasks never writes the applied '
                    'migrations back to the app signatures',
                    key='no-write-back')
        return
    rd = ReachingDefs(g, f.params)
    for n in wb:
        origin = ' '.join(unparse(e) for _, e in rd.origins(n, n.ast.value))
        if 'MigrationList.from_database' in origin:
            ctx.ok(f, 'applied_migrations is written back from the '
                   'migration table', n.ast)
        else:
            ctx.finding(f, n.ast, 'applied_migrations is written back from '
                        '%s, not from the migration table' %
                        unparse(n.ast.value))
        ctx.ok(f, 'write-back present', n.ast)
        after = heads and all(
            h.id not in g.reachable([n], follow_exc=False) and
            n.id in g.reachable([h], follow_exc=False) for h in heads)
        if after:
            ctx.ok(f, 'write-back happens after the batch loop', n.ast)
        else:
            ctx.finding(f, n.ast, 'write-back does not follow the batch '
                        'loop: migrations applied later would be missing '
                        'from the stored signature')
        # for every app label in the table
        hs = [h for h in for_heads(g) if n.id in loop_body_ids(g, h)]
        if hs and 'get_app_labels()' in unparse(hs[-1].ast.iter):
            ctx.ok(f, 'every app present in the migration table is updated',
                   hs[-1].ast)
        else:
            ctx.finding(f, n.ast, 'write-back does not iterate the app '
                        'labels of the migration table')
    # the signature setter keeps only this app's names
    s = p.func('signature', 'AppSignature.applied_migrations')
    setters = [m for m in p.cls('signature', 'AppSignature').node.body
               if isinstance(m, ast.FunctionDef) and
               m.name == 'applied_migrations' and any(
                   'setter' in unparse(d) for d in m.decorator_list)]
    if setters and "info['app_label'] == self.app_id" in unparse(setters[0]):
        ctx.ok(('django_evolution.signature', 'AppSignature'),
               'the setter keeps only the migrations of its own app')
    else:
        ctx.finding(('django_evolution.signature', 'AppSignature'), None,
                    'AppSignature.applied_migrations no longer filters a '
                    'MigrationList by its own app label',
                    key='setter-filter')


def r5_upgrade_method_compared_by_value(ctx, rule_id='R-C10.5'):
    """UpgradeMethod.EVOLUTIONS / MIGRATIONS are plain strings.  A stored
    signature comes back from JSON with *equal* but not *identical* strings,
    so `sig.upgrade_method is UpgradeMethod.MIGRATIONS` is true right after
    the hand-over and false on every later run: the applied-migration list
    silently stops being written, evolution SQL is considered again.  Every
    comparison against these constants must be by value."""
    ctx.rule(rule_id)
    p = ctx.program
    consts = p.cls('consts', 'UpgradeMethod')
    members = {k for k, v in consts.class_attrs.items()
               if isinstance(v, ast.Constant) and isinstance(v.value, str)}
    ctx.floor('string members of UpgradeMethod', len(members), 2)
    n_cmp = 0
    for f in p.all_funcs():
        for c in ast.walk(f.node):
            if not isinstance(c, ast.Compare):
                continue
            sides = [c.left] + list(c.comparators)
            hit = [x for x in sides if isinstance(x, ast.Attribute) and
                   x.attr in members and
                   (dotted(x) or '').split('.')[-2:-1] == ['UpgradeMethod']]
            if not hit:
                continue
            n_cmp += 1
            if any(isinstance(o, (ast.Is, ast.IsNot)) for o in c.ops):
                ctx.finding(f, c, 'upgrade method compared by identity (%s): '
                            'a value loaded from a stored signature is equal '
                            'to the constant but not the same object' %
                            ' '.join(unparse(c).split()),
                            key='identity-compare:%s' % unparse(hit[0]))
            else:
                ctx.ok(f, 'upgrade method compared by value', c)
    ctx.floor('comparisons against UpgradeMethod members', n_cmp, 4)


def r6_recorded_list_is_only_mark_applied(ctx):
    """What execute_tasks records up front (without running it) must be
    exactly the migrations MoveToDjangoMigrations named as already covered.
    _build_migrations_info also needs "consider these applied" for planning
    the post-stage (the pre-stage targets); if it adds those to the very
    container that is recorded, every pre-stage migration is recorded before
    it runs and again when it runs."""
    ctx.rule('R-C10.6')
    p = ctx.program
    from ..flow import ReachingDefs
    ex = p.func(TASK, 'EvolveAppTask.execute_tasks')
    g = ctx.cfg(ex)
    rd = ReachingDefs(g, ex.params)
    recs = [(n, c) for n, c in nodes_with_call(g, 'record_applied_migrations')]
    ctx.floor('record_applied_migrations calls in execute_tasks', len(recs), 1)
    bm = p.func(TASK, 'EvolveAppTask._build_migrations_info')
    bg = ctx.cfg(bm)
    brd = ReachingDefs(bg, bm.params)
    MUT = ('add_migration_targets', 'add_migration_info', 'add_migration',
           'add_recorded_migration', 'update', 'extend', 'append', 'add')
    for n, c in recs:
        arg = kwarg(c, 'migrations') or (c.args[-1] if c.args else None)
        src = ' '.join(unparse(e) for _, e in rd.origins(n, arg))
        via_attr = 'extra_applied_migrations' in src
        key = None
        for _, e in rd.origins(n, arg):
            for x in ast.walk(e):
                if isinstance(x, ast.Subscript) and subscript_const(x) and \
                        'state' in unparse(x.value):
                    key = subscript_const(x)
        # mutations of the loader's container with plan-derived targets
        muts = []
        for m in bg.nodes:
            for mc in m.calls():
                if call_name(mc) in MUT and isinstance(mc.func,
                                                       ast.Attribute) and \
                        isinstance(mc.func.value, ast.Name):
                    base = mc.func.value
                    osrc = ' '.join(unparse(e)
                                    for _, e in brd.origins(m, base))
                    asrc = ' '.join(unparse(a) for a in mc.args)
                    if 'extra_applied_migrations' in osrc and \
                            'target' in asrc and 'pre_' in asrc:
                        muts.append((m, mc))
        if via_attr:
            # restored afterwards?
            restored = False
            for m, mc in muts:
                for a in bg.nodes:
                    if a.kind == 'stmt' and isinstance(a.ast, ast.Assign) and \
                            any(isinstance(t, ast.Attribute) and
                                t.attr == 'extra_applied_migrations'
                                for t in a.ast.targets) and \
                            a.id in bg.reachable([m], follow_exc=False):
                        restored = True
            if muts and not restored:
                ctx.finding(bm, muts[0][1], 'the pre-stage migration targets '
                            'are added to loader.extra_applied_migrations, '
                            'the very container execute_tasks records as '
                            'applied before running anything: every pre-stage '
                            'migration is recorded before it runs, and again '
                            'when it runs', key='recorded-list-gets-plan-'
                            'targets')
            else:
                ctx.ok(bm, 'the recorded container is not left holding '
                       'plan-derived targets')
        else:
            # a snapshot handed over through the task state
            ok = False
            for d in bg.nodes:
                if d.kind == 'stmt' and isinstance(d.ast, ast.Assign) and \
                        isinstance(d.ast.value, ast.Call) and \
                        call_name(d.ast.value) in ('clone', 'copy',
                                                   'deepcopy') and \
                        'extra_applied_migrations' in unparse(d.ast.value):
                    if not any(d.id in bg.reachable([m], follow_exc=False)
                               for m, _mc in muts):
                        ok = True
            if ok:
                ctx.ok(bm, 'what is recorded is a snapshot taken before the '
                       'plan-derived targets are added')
            else:
                ctx.finding(bm, None, 'the list recorded by execute_tasks '
                            '(%s) is not a snapshot taken before the '
                            'pre-stage targets are added' % (key or src[:40]),
                            key='recorded-list-not-a-snapshot')


def r7_applied_list_always_published(ctx):
    """The evolution graph discharges dependencies on migrations that are
    already applied (or are being marked as applied) from
    migrations_info['to_mark_applied'].  Whether that list is published may
    not depend on there being a migration left to run: with
    MoveToDjangoMigrations(mark_applied=<every migration of the app>) - the
    default for an app whose only migration is 0001_initial - nothing is
    pending, the dependency "evolution after migration 0001_initial" stays
    in the graph and finalize() fails."""
    ctx.rule('R-C10.7')
    p = ctx.program
    bm = p.func(TASK, 'EvolveAppTask._build_migrations_info')
    g = ctx.cfg(bm)
    sites = []
    for n in g.nodes:
        for d in n.walk():
            if isinstance(d, ast.Dict) and 'to_mark_applied' in [
                    const_str(k) for k in d.keys if k is not None]:
                sites.append(n)
        a = n.ast
        if n.kind == 'stmt' and isinstance(a, ast.Assign) and any(
                isinstance(t, ast.Subscript) and
                subscript_const(t) == 'to_mark_applied' for t in a.targets):
            sites.append(n)
    if not sites:
        ctx.finding(bm, None, '_build_migrations_info never publishes '
                    'to_mark_applied', key='to-mark-applied-missing')
        return
    for n in sites:
        plan_tests = [t for t in g.nodes if t.kind in ('test', 'operand') and
                      any(isinstance(x, ast.Name) and 'plan' in x.id
                          for x in ast.walk(t.ast))]
        drop = {(t.id, 'T') for t in plan_tests}
        if plan_tests and n.id not in g.reachable([g.entry], follow_exc=True,
                                                  drop_edges=drop):
            ctx.finding(bm, n.ast, 'to_mark_applied is only published when a '
                        'migration plan is non-empty (%s): with nothing left '
                        'to migrate, dependencies on applied / marked '
                        'migrations are never discharged and '
                        'DependencyGraph.finalize() fails' % ' / '.join(
                            sorted({unparse(t.ast) for t in plan_tests})),
                        key='to-mark-applied-needs-a-plan')
        else:
            ctx.ok(bm, 'to_mark_applied is published whether or not a '
                   'migration is pending', n.ast)


def r8_batch_simulation_unconditional(ctx):
    """_build_batches' generate_mutations_info() call is the only place where
    a task's pending mutations are simulated on the evolver's real project
    signature (prepare() works on a clone).  MoveToDjangoMigrations produces
    no SQL, so if the call is skipped when the task has no SQL, the stored
    signature keeps upgrade_method = evolutions although the migrations were
    recorded and run - and the next run hands the app over again.  Whether
    the call happens may depend only on there being pending mutations (and on
    the app being new)."""
    ctx.rule('R-C10.8')
    p = ctx.program
    from ..util import unit
    f = p.func(TASK, 'EvolveAppTask._build_batches')
    n = 0
    ALLOWED = ('pending_mutations', 'app_sig_is_new', 'hinted', '_evolutions',
               'batch_type', 'UpgradeMethod', 'task_evolutions', 'node_type',
               'prev_batch', 'new_models', 'batch_info', 'batches')
    for fn in unit(ctx, f):
        g = ctx.cfg(fn)
        for node in g.nodes:
            for c in node.calls():
                if call_name(c) != 'generate_mutations_info':
                    continue
                n += 1
                bad = []
                for t in g.nodes:
                    if t.kind not in ('test', 'operand') or not (
                            g.guarded_by(node, t, 'T') or
                            g.guarded_by(node, t, 'F')):
                        continue
                    txt = unparse(t.ast)
                    if not any(a in txt for a in ALLOWED):
                        bad.append(txt)
                if bad:
                    ctx.finding(fn, c, 'whether the batch builder simulates a '
                                'task\'s pending mutations on the real '
                                'signature also depends on "%s": a hand-over '
                                'whose only pending mutation is '
                                'MoveToDjangoMigrations (no SQL) never '
                                'reaches the stored signature' % '; '.join(
                                    sorted(set(bad))),
                                key='batch-simulation-conditional')
                else:
                    ctx.ok(fn, 'pending mutations are always simulated on '
                           'the real signature', c)
    ctx.floor('generate_mutations_info calls in the batch builder', n, 1)


def _non_empty_default(e):
    if isinstance(e, (ast.List, ast.Tuple, ast.Set)):
        return bool(e.elts)
    if isinstance(e, ast.Dict):
        return bool(e.keys)
    if isinstance(e, ast.Constant):
        return e.value not in (None, False, 0, '', b'')
    if isinstance(e, ast.Call) and call_name(e) in ('set', 'list', 'tuple',
                                                    'frozenset', 'dict'):
        return bool(e.args) and _non_empty_default(e.args[0])
    return False


def r9_explicit_empty_honoured(ctx):
    """MoveToDjangoMigrations(mark_applied=[...]) names the migrations the
    evolutions already cover; an explicitly empty list ("none of them") is a
    legal value and must reach self.mark_applied unchanged.  `param or
    [<default>]` replaces it by the default, so 0001_initial is recorded as
    applied and never run.  Checked for every constructor of the mutation
    classes: a parameter is never combined with a non-empty default through
    a truthiness test."""
    ctx.rule('R-C10.9')
    p = ctx.program
    n_init, n_or = 0, 0
    for m in p.modules.values():
        if not m.name.startswith('django_evolution.mutations'):
            continue
        for c in m.classes.values():
            init = c.methods.get('__init__')
            if init is None:
                continue
            n_init += 1
            params = set(init.params) - {'self'}
            for n in walk_no_nested(init.node):
                cand = None
                if isinstance(n, ast.BoolOp) and isinstance(n.op, ast.Or) and \
                        isinstance(n.values[0], ast.Name) and \
                        n.values[0].id in params and \
                        _non_empty_default(n.values[-1]):
                    cand = (n.values[0].id, n.values[-1])
                if isinstance(n, ast.IfExp) and isinstance(n.test, ast.Name) \
                        and n.test.id in params and \
                        _non_empty_default(n.orelse):
                    cand = (n.test.id, n.orelse)
                if isinstance(n, ast.If) and isinstance(n.test, ast.UnaryOp) \
                        and isinstance(n.test.op, ast.Not) and \
                        isinstance(n.test.operand, ast.Name) and \
                        n.test.operand.id in params:
                    for st in n.body:
                        if isinstance(st, ast.Assign) and \
                                _non_empty_default(st.value):
                            cand = (n.test.operand.id, st.value)
                if cand:
                    n_or += 1
                    ctx.finding(init, n, '%s.__init__ replaces a falsy `%s` '
                                'by the non-empty default %s: an explicitly '
                                'empty value is a legal argument and is '
                                'silently turned into the default' % (
                                    c.name, cand[0],
                                    ' '.join(unparse(cand[1]).split())),
                                key='explicit-empty-replaced:%s' % cand[0])
    ctx.floor('constructors of mutation classes', n_init, 10)
    if not n_or:
        ctx.ok(('django_evolution.mutations', '*'),
               'no mutation constructor replaces a falsy argument by a '
               'non-empty default')


def r10_empty_plan_is_not_no_plan(ctx):
    """execute_tasks() decides `migrating` by `full_migration_plan is not
    None`: an *empty* plan means "nothing left to execute, but the
    migrations MoveToDjangoMigrations marked still have to be recorded".
    The value stored under 'full_migration_plan' must therefore reach the
    consumer without a truthiness collapse (`x or None`)."""
    ctx.rule('R-C10.10')
    p = ctx.program
    cons = p.func(TASK, 'EvolveAppTask.execute_tasks')
    by_identity = any(
        isinstance(c, ast.Compare) and
        isinstance(c.ops[0], (ast.Is, ast.IsNot)) and
        'full_migration_plan' in unparse(c.left)
        for c in walk_no_nested(cons.node))
    n = 0
    for q in ('EvolveAppTask.prepare_tasks',
              'EvolveAppTask._build_migrations_info'):
        f = p.func(TASK, q)
        for d in walk_no_nested(f.node):
            if not isinstance(d, ast.Dict):
                continue
            for k, v in zip(d.keys, d.values):
                if const_str(k) not in ('full_migration_plan', 'full_plan'):
                    continue
                n += 1
                collapse = any(
                    isinstance(x, ast.BoolOp) and isinstance(x.op, ast.Or)
                    and isinstance(x.values[-1], ast.Constant) and
                    x.values[-1].value is None for x in ast.walk(v)) or any(
                    isinstance(x, ast.IfExp) and
                    isinstance(x.orelse, ast.Constant) and
                    x.orelse.value is None for x in ast.walk(v))
                if collapse and by_identity:
                    ctx.finding(f, v, '%s stores %s under %r, but '
                                'execute_tasks tests the plan with `is not '
                                'None`: an empty plan (everything covered by '
                                'mark_applied) no longer counts as '
                                'migrating, so the marked migrations are '
                                'never recorded and the signature is never '
                                'synchronised with django_migrations' % (
                                    f.qualname,
                                    ' '.join(unparse(v).split()),
                                    const_str(k)),
                                key='empty-plan-collapsed')
                else:
                    ctx.ok(f, 'the full plan is handed on as it is', v)
    ctx.floor('producers of the full migration plan entry', n, 1)


def r11_pending_filter_reads_signatures_not_diff(ctx):
    """get_app_pending_mutations() keeps a mutation of an evolution file only
    if its model differs between the stored and the target signature.
    AppSignature.diff() deliberately blanks its 'changed'/'deleted' results
    when the target's upgrade method is migrations - which is exactly the
    case for an app being handed over.  The filter must therefore be computed
    from the model signatures themselves; taking it from diff() silently
    drops the pending DeleteModel / field mutations that have to run before
    the hand-over."""
    ctx.rule('R-C10.11')
    p = ctx.program
    f = p.func('utils.evolutions', 'get_app_pending_mutations')
    diffs = [c for c in walk_no_nested(f.node, include_lambda=True)
             if isinstance(c, ast.Call) and call_name(c) == 'diff']
    loops = [n for n in ast.walk(f.node) if isinstance(n, ast.comprehension)
             and 'model_sigs' in unparse(n.iter)]
    ctx.counts['R-C10.11 iterations over model signatures in the pending '
               'filter'] = len(loops)
    if diffs:
        ctx.finding(f, diffs[0], 'get_app_pending_mutations derives the '
                    'changed/deleted models from %s: for an app whose target '
                    'upgrade method is migrations that result is always '
                    'empty, so its pending evolutions for deleted models '
                    'are skipped (and still recorded as applied)' %
                    ' '.join(unparse(diffs[0]).split()),
                    key='pending-filter-from-diff')
    else:
        ctx.ok(f, 'the pending-mutation filter is computed from the model '
               'signatures')


def run(ctx):
    r11_pending_filter_reads_signatures_not_diff(ctx)
    r10_empty_plan_is_not_no_plan(ctx)
    r9_explicit_empty_honoured(ctx)
    r8_batch_simulation_unconditional(ctx)
    r7_applied_list_always_published(ctx)
    r6_recorded_list_is_only_mark_applied(ctx)
    r5_upgrade_method_compared_by_value(ctx)
    r1_simulate_writes(ctx)
    r2_one_way(ctx)
    r3_record_before_migrate(ctx)
    r4_write_back(ctx)
