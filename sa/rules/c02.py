"""C02 - evolutions preserve existing row data (structural clauses)."""
from __future__ import annotations

import ast
import re

from ..flow import ReachingDefs, names_loaded
from ..program import (AnalysisError, call_name, const_str, dotted, kwarg,
                       norm_key, unparse, walk_no_nested)
from ..util import is_self_attr, nodes_with_call, str_constants

EXPLANATION = (
    'Decided clauses, all about the SQLite table rebuild '
    '(SQLiteAlterTableSQLResult.to_sql) and the UPDATE templates: R-C02.1 the '
    'column list and the value list of INSERT..SELECT are two projections '
    '(keys / values) of one ordered mapping that is only extended by '
    'subscript assignment; R-C02.2 the loop that fills that mapping runs over '
    'the whole old-field list, skips only deleted columns, keys by the '
    'renamed column and selects the quoted old column; R-C02.3 every later '
    'assignment into the mapping that can hit an existing column keeps the '
    'old column value in its expression (coalesce(old, ...)); R-C02.4 the '
    'INSERT parameters are produced by iterating the same mapping that '
    'produces the placeholders (same order), and each parameterised UPDATE '
    'carries exactly one parameter for its one placeholder; R-C02.5 the '
    'rebuild emits CREATE TEMP, then INSERT..SELECT, then DROP of the old '
    'table, then RENAME, in that order; R-C02.6 every UPDATE template on a '
    'user table is guarded by WHERE <same column> IS NULL; R-C02.7 a declared '
    'initial value is recorded for the rebuild whenever it is not None (no '
    'other condition); R-C02.8 the optimiser\'s per-field bookkeeping '
    '(last_change_mutations) is invalidated when an entry is consumed and '
    'only holds ChangeField mutations, so initial values and null changes are '
    'never merged into a different field; R-C02.9 on SQLite only the null-change handler records an '
    'initial value on a MODIFY COLUMN item (anything else would rewrite '
    'stored NULLs of a column whose NULL-ability does not change); '
    'R-C02.10 no declared initial value is used as a truth value (shared with R-C03.8).'
    ' '
    'R-C02.11 (= R-C03.15) no function changes a local container after handing it to a signature constructor that keeps `param or <fresh>` (the change is lost for an empty container).'
    ' '
    'R-C02.12 normalize_initial() returns embed=True only under `callable(initial)` (the literal branch of the rebuild overwrites existing values).'
    ' '
    'R-C02.13 normalize_value returns a bound parameter unchanged (bool -> backend literal excepted).'
    ' '
    'R-C02.14 RenameField.simulate removes the old field entry before adding the renamed one (old and new name may coincide).'
    ' '
    'R-C02.15 (= R-C18.9) generate_table_op_sql merges backend results with add(), never add_sql().')
NOT_DECIDED = (
    'Equality of row contents before/after for all rows and sequences; '
    'behaviour of renames at the SQL level.')
TECHNIQUE = ('container-provenance dataflow on the rebuild (which mapping '
             'feeds which projection), loop-shape matching, must-precede over '
             'SQL emission events in the CFG, SQL template tokenisation')
LEVEL_NOTE = ('Trusted: Python ast, CFG, that OrderedDict/dict iteration '
              'order is insertion order and that subscript assignment to an '
              'existing key keeps its position.')

S = 'db.sqlite3'
Q = 'SQLiteAlterTableSQLResult.to_sql'


def _iter_source(e):
    """('keys'|'values'|'items', varname) for iterkeys(X)/X.keys()/X."""
    if isinstance(e, ast.Call):
        n = call_name(e)
        m = {'iterkeys': 'keys', 'itervalues': 'values',
             'iteritems': 'items', 'keys': 'keys', 'values': 'values',
             'items': 'items'}
        if n in m:
            if e.args and isinstance(e.args[0], ast.Name):
                return m[n], e.args[0].id
            if isinstance(e.func, ast.Attribute) and \
                    isinstance(e.func.value, ast.Name) and not e.args:
                return m[n], e.func.value.id
    if isinstance(e, ast.Name):
        return 'keys', e.id
    return None, None


def _find_insert(f):
    """The tuple (sql % (...), params) whose string starts with INSERT INTO."""
    for n in walk_no_nested(f.node):
        if isinstance(n, ast.Tuple) and len(n.elts) == 2 and \
                isinstance(n.elts[0], ast.BinOp) and \
                isinstance(n.elts[0].op, ast.Mod) and \
                (const_str(n.elts[0].left) or '').lstrip().upper().startswith(
                    'INSERT INTO'):
            return n
    return None


def r1_r4_copy_map(ctx, ids=None, upto=None):
    ids = ids or {}
    p = ctx.program
    f = p.func(S, Q)
    g = ctx.cfg(f)
    ins = _find_insert(f)
    ctx.rule(ids.get('R-C02.1', 'R-C02.1'))
    if ins is None:
        raise AnalysisError('R-C02.1: INSERT INTO ... SELECT template not '
                            'found in SQLite to_sql')
    fmt, params = ins.elts
    tmpl = const_str(fmt.left)
    args = fmt.right.elts if isinstance(fmt.right, ast.Tuple) else [fmt.right]
    # the two projections are the join(...) arguments over comprehensions
    projs = []
    for a in args:
        if isinstance(a, ast.Call) and call_name(a) == 'join' and a.args and \
                isinstance(a.args[0], (ast.GeneratorExp, ast.ListComp)):
            comp = a.args[0]
            kind, var = _iter_source(comp.generators[0].iter)
            projs.append((kind, var, comp, a))
    if len(projs) != 2:
        ctx.finding(f, ins, 'INSERT..SELECT is not built from exactly two '
                    'joined projections', key='insert-shape')
        return None
    (k1, v1, c1, a1), (k2, v2, c2, a2) = projs
    if v1 == v2 and v1 and {k1, k2} == {'keys', 'values'} and k1 == 'keys':
        ctx.ok(f, 'column list = keys(%s), value list = values(%s): two '
               'projections of one ordered mapping' % (v1, v2), ins)
    else:
        ctx.finding(f, ins, 'the INSERT column list iterates %s(%s) but the '
                    'SELECT value list iterates %s(%s): columns and values '
                    'can become misaligned' % (k1, v1, k2, v2),
                    key='misaligned-projections')
        return None
    if any(not (isinstance(c.elt, ast.Call) or isinstance(c.elt, ast.Name))
           or c.generators[0].ifs for c in (c1, c2)):
        ctx.finding(f, ins, 'a projection filters or transforms elements '
                    'differently from the other', key='projection-filter')
    X = v1
    # X is an ordered mapping and is only extended by X[k] = v
    creators = [n for n in walk_no_nested(f.node)
                if isinstance(n, ast.Assign) and any(
                    isinstance(t, ast.Name) and t.id == X for t in n.targets)]
    ok_ctor = creators and all(
        isinstance(n.value, ast.Call) and
        call_name(n.value) in ('OrderedDict', 'dict') and not n.value.args
        for n in creators)
    if ok_ctor and len(creators) == 1:
        ctx.ok(f, '%s is created once as an empty ordered mapping' % X,
               creators[0])
    else:
        ctx.finding(f, creators[0] if creators else None, '%s is not created '
                    'as a single empty OrderedDict()/dict()' % X,
                    key='map-ctor')
    other_mut = []
    stores = []
    for n in walk_no_nested(f.node):
        if isinstance(n, ast.Call) and isinstance(n.func, ast.Attribute) and \
                isinstance(n.func.value, ast.Name) and n.func.value.id == X \
                and n.func.attr in ('pop', 'update', 'clear', 'popitem',
                                    'setdefault', 'move_to_end',
                                    '__delitem__'):
            other_mut.append(n)
        if isinstance(n, ast.Delete) and X in unparse(n):
            other_mut.append(n)
        if isinstance(n, ast.Assign):
            for t in n.targets:
                if isinstance(t, ast.Subscript) and \
                        isinstance(t.value, ast.Name) and t.value.id == X:
                    stores.append(n)
    for m in other_mut:
        ctx.finding(f, m, '%s is modified other than by %s[k] = v' % (X, X))
    if not other_mut:
        ctx.ok(f, '%s is only modified by subscript assignment (%d sites)' % (
            X, len(stores)))

    # ---- R-C02.2 ---------------------------------------------------------
    ctx.rule(ids.get('R-C02.2', 'R-C02.2'))
    fill = None
    for n in walk_no_nested(f.node):
        if isinstance(n, ast.For) and any(s in list(ast.walk(n))
                                          for s in stores):
            # the first (filling) loop is the one whose store value is qn(..)
            for s in stores:
                if s in list(ast.walk(n)) and isinstance(s.value, ast.Call) \
                        and call_name(s.value) == 'qn':
                    fill = (n, s)
            if fill:
                break
    if fill is None:
        ctx.finding(f, None, 'no loop fills %s with the quoted old columns' %
                    X, key='no-fill-loop')
    else:
        loop, store = fill
        it = unparse(loop.iter)
        # same list feeds the new column list
        nf = [n for n in walk_no_nested(f.node) if isinstance(n, ast.Assign)
              and any(isinstance(t, ast.Name) and t.id == 'new_fields'
                      for t in n.targets)]
        feeds = nf and it in unparse(nf[0].value)
        if isinstance(loop.iter, ast.Name) and feeds:
            ctx.ok(f, 'the fill loop iterates %s, the same list that feeds '
                   'the new column list' % it, loop)
        else:
            ctx.finding(f, loop, 'the fill loop iterates %s, which is not '
                        'the list the new columns are built from' % it,
                        key='fill-loop-source')
        # only skip condition: membership in the deleted-columns set; decided
        # on the CFG so that "if x not in deleted: copy" and
        # "if x in deleted: continue" are the same thing
        snode = next((n for n in g.nodes if n.ast is store), None)
        head = next((h for h in g.nodes if h.kind == 'for' and
                     h.ast is loop), None)
        guards = []
        if snode is not None and head is not None:
            body = set()
            for s_, l in head.succ:
                if l == 'T':
                    body |= g.reachable([s_], avoid=[head], follow_exc=False)
            for t in g.nodes:
                if t.kind == 'test' and t.id in body:
                    for lab in ('T', 'F'):
                        if g.guarded_by(snode, t, lab):
                            guards.append((t, lab))
        ok_guards = [(t, lab) for t, lab in guards
                     if isinstance(t.ast, ast.Compare) and
                     len(t.ast.ops) == 1 and
                     unparse(t.ast.comparators[0]) == 'deleted_columns' and
                     ((isinstance(t.ast.ops[0], ast.NotIn) and lab == 'T') or
                      (isinstance(t.ast.ops[0], ast.In) and lab == 'F'))]
        if guards and len(guards) == len(ok_guards) == 1:
            ctx.ok(f, 'the only filter on copied columns is "not in '
                   'deleted_columns"', guards[0][0].ast)
        else:
            ctx.finding(f, guards[0][0].ast if guards else loop, 'columns '
                        'are filtered by something other than membership in '
                        'deleted_columns (%s): a surviving column may not be '
                        'copied' % [unparse(t.ast) for t, _ in guards],
                        key='fill-filter')
        # key follows the rename, value is the old column
        rd = ReachingDefs(g, f.params)
        key = store.targets[0].slice
        val = store.value
        loopvar = loop.target.id if isinstance(loop.target, ast.Name) else None
        key_src = unparse(key)
        key_def = None
        for n in ast.walk(loop):
            if isinstance(n, ast.Assign) and any(
                    isinstance(t, ast.Name) and t.id == key_src
                    for t in n.targets):
                key_def = n.value
        if key_def is None:
            key_def = key       # the expression itself (no temporary)
        if key_def is not None and isinstance(key_def, ast.Call) and \
                call_name(key_def) == 'get' and \
                'renamed_columns' in unparse(key_def.func) and \
                len(key_def.args) == 2 and \
                unparse(key_def.args[0]) == unparse(key_def.args[1]):
            ctx.ok(f, 'the map key is renamed_columns.get(old, old)', store)
            oldname = unparse(key_def.args[0])
            if unparse(val) == 'qn(%s)' % oldname:
                ctx.ok(f, 'the selected value is the quoted old column',
                       store)
            else:
                ctx.finding(f, store, 'the selected value %s is not the '
                            'quoted old column qn(%s)' % (unparse(val),
                                                          oldname))
        else:
            ctx.finding(f, store, 'the copy-map key does not follow column '
                        'renames (renamed_columns.get(old, old))',
                        key='fill-key')

    # ---- R-C02.3 ---------------------------------------------------------
    if upto == 'R-C02.2':
        return
    ctx.rule(ids.get('R-C02.3', 'R-C02.3'))
    later = [s for s in stores if fill is None or s is not fill[1]]
    ctx.floor('later assignments into the copy map', len(later), 2)
    for s in later:
        keyname = unparse(s.targets[0].slice)
        # can the key already exist?  Unless guarded by "key not in X".
        node = next((n for n in g.nodes if n.ast is s), None)
        guarded_new = False
        guarded_existing = False
        for t in g.nodes:
            if t.kind == 'test' and isinstance(t.ast, ast.Compare) and \
                    unparse(t.ast.left) == keyname and \
                    unparse(t.ast.comparators[0]) == X:
                if isinstance(t.ast.ops[0], ast.In):
                    if node is not None and g.guarded_by(node, t, 'F'):
                        guarded_new = True
                    if node is not None and g.guarded_by(node, t, 'T'):
                        guarded_existing = True
                if isinstance(t.ast.ops[0], ast.NotIn):
                    if node is not None and g.guarded_by(node, t, 'T'):
                        guarded_new = True
        if guarded_new:
            ctx.ok(f, 'assignment only for columns not yet in the map (new '
                   'column)', s)
            continue
        refs_old = any(isinstance(x, ast.Call) and call_name(x) == 'qn' and
                       x.args and unparse(x.args[0]) == keyname
                       for x in ast.walk(s.value))
        if refs_old:
            ctx.ok(f, 'replacement expression keeps the old column value '
                   '(%s)' % norm_key(s.value)[:40], s)
        else:
            ctx.finding(f, s, 'the select expression of a column that may '
                        'already exist is replaced by %s, which does not '
                        'reference the old column: existing non-NULL values '
                        'are overwritten' % unparse(s.value),
                        key='existing-column-overwritten-by:' +
                        norm_key(s.value))

    # ---- R-C02.4 ---------------------------------------------------------
    ctx.rule(ids.get('R-C02.4', 'R-C02.4'))
    ok = False
    if isinstance(params, ast.Call) and call_name(params) == 'tuple' and \
            params.args and isinstance(params.args[0], (ast.GeneratorExp,
                                                        ast.ListComp)):
        comp = params.args[0]
        kind, var = _iter_source(comp.generators[0].iter)
        if var == X and kind in ('keys', 'items'):
            ok = True
    if ok:
        ctx.ok(f, 'INSERT parameters are produced by iterating %s, the '
               'mapping that produces the placeholders (same order)' % X,
               params)
    else:
        src = unparse(params)
        ctx.finding(f, params, 'INSERT parameters (%s) are not produced by '
                    'iterating %s: placeholder order is the column order of '
                    '%s, parameter order is whatever filled %s, so initial '
                    'values can land in the wrong columns' % (src, X, X, src),
                    key='param-order')
    # one parameter per placeholder-bearing value
    ph_stores = [s for s in later if any(
        const_str(x) and '%s' in const_str(x).replace('%%s', '%s')
        for x in ast.walk(s.value))]
    pdict = None
    if ok:
        comp = params.args[0]
        for x in ast.walk(comp.elt):
            if isinstance(x, ast.Subscript) and isinstance(x.value, ast.Name):
                pdict = x.value.id
    if pdict:
        pstores = [n for n in walk_no_nested(f.node)
                   if isinstance(n, ast.Assign) and any(
                       isinstance(t, ast.Subscript) and
                       isinstance(t.value, ast.Name) and t.value.id == pdict
                       for t in n.targets)]
        # each placeholder store must be dominated by a param store with the
        # same key in the same branch
        for s in ph_stores:
            node = next((n for n in g.nodes if n.ast is s), None)
            keyname = unparse(s.targets[0].slice)
            doms = [ps for ps in pstores
                    if unparse(ps.targets[0].slice) == keyname and
                    node is not None and any(
                        g.dominates(m, node) for m in g.nodes if m.ast is ps)]
            if doms:
                ctx.ok(f, 'placeholder for column %s has its parameter '
                       'stored under the same key' % keyname, s)
            else:
                ctx.finding(f, s, 'a %%s placeholder is stored for column %s '
                            'without a parameter under the same key' %
                            keyname)
        for ps in pstores:
            node = next((n for n in g.nodes if n.ast is ps), None)
            keyname = unparse(ps.targets[0].slice)
            follows = [s for s in ph_stores
                       if unparse(s.targets[0].slice) == keyname]
            if node is not None and follows and g.must_pass(
                    node, g.exit,
                    [m for m in g.nodes if m.ast in follows],
                    follow_exc=False) is None:
                ctx.ok(f, 'every stored parameter is followed by its '
                       'placeholder', ps)
            else:
                ctx.finding(f, ps, 'a parameter is stored for column %s on a '
                            'path that stores no placeholder for it' % keyname)
    return f


def r4b_update_params(ctx):
    ctx.rule('R-C02.4')
    p = ctx.program
    n = 0
    for mod, q in (('db.common', 'BaseEvolutionOperations.add_column'),
                   ('db.common',
                    'BaseEvolutionOperations.change_column_attr_null')):
        f0 = p.func(mod, q)
        from ..util import unit_walk
        for f, t in unit_walk(ctx, f0):
            if isinstance(t, ast.Tuple) and len(t.elts) == 2 and \
                    isinstance(t.elts[1], ast.Tuple) and \
                    isinstance(t.elts[0], ast.Name):
                n += 1
                # the template bound to that name has exactly one unescaped %s
                tmpl = None
                for a in walk_no_nested(f.node):
                    if isinstance(a, ast.Assign) and any(
                            isinstance(x, ast.Name) and
                            x.id == t.elts[0].id for x in a.targets):
                        for c in str_constants(a.value):
                            if 'UPDATE' in c.value:
                                tmpl = c.value
                if tmpl is None:
                    continue
                # template is %-formatted once with names: %%s -> %s
                once = tmpl.replace('%%s', '\0')
                nph = once.count('\0')
                if nph == len(t.elts[1].elts) == 1:
                    ctx.ok(f, 'parameterised UPDATE has one placeholder and '
                           'one parameter', t)
                else:
                    ctx.finding(f, t, 'UPDATE template has %d placeholders '
                                'but %d parameters' % (nph,
                                                       len(t.elts[1].elts)))
    ctx.floor('parameterised UPDATE tuples', n, 2)


def r5_copy_before_drop(ctx):
    ctx.rule('R-C02.5')
    p = ctx.program
    f = p.func(S, Q)
    g = ctx.cfg(f)

    from ..util import nodes_emitting

    def nodes_where(pred):
        return nodes_emitting(ctx, f, g, pred)

    def starts(prefix):
        return lambda a: (const_str(a) or '').lstrip().upper().startswith(
            prefix)
    create = nodes_where(starts('CREATE TABLE'))
    insert = nodes_where(starts('INSERT INTO'))
    drop = nodes_where(lambda a: isinstance(a, ast.Call) and
                       call_name(a) == 'delete_table')
    rename = nodes_where(lambda a: isinstance(a, ast.Call) and
                         call_name(a) == 'rename_table')
    steps = [('CREATE TABLE temp', create), ('INSERT..SELECT', insert),
             ('DROP old table', drop), ('RENAME temp', rename)]
    for name, ns in steps:
        if len(ns) != 1:
            ctx.finding(f, None, 'expected exactly one %s emission in the '
                        'rebuild, found %d' % (name, len(ns)),
                        key='step-count:%s:%d' % (name, len(ns)))
            return
    for (n1, a), (n2, b) in zip(steps, steps[1:]):
        x, y = a[0], b[0]
        if g.dominates(x, y) and y.id not in {x.id} and \
                x.id not in g.reachable([y], follow_exc=False):
            ctx.ok(f, '%s is always emitted before %s' % (n1, n2), y.ast)
        else:
            ctx.finding(f, y.ast, '%s can be emitted without / before %s' % (
                n2, n1), key='order:%s<%s' % (n1, n2))
    # all four append to the same list in statement order (sql.append / +=)
    for name, ns in steps:
        st = ns[0].ast
        txt = unparse(st)
        if txt.startswith('sql.append(') or txt.startswith('sql += '):
            ctx.ok(f, '%s is appended to the rebuild statement list' % name,
                   st)
        else:
            ctx.finding(f, st, '%s is not appended to the rebuild statement '
                        'list in place' % name)
    # the dropped table is the model's table, the renamed one the temp table
    d = [a for a in drop[0].walk() if isinstance(a, ast.Call) and
         call_name(a) == 'delete_table'][0]
    if d.args and unparse(d.args[0]) == 'table_name':
        ctx.ok(f, 'the table dropped is the rebuilt model\'s table', d)
    else:
        ctx.finding(f, d, 'delete_table() is not applied to the rebuilt '
                    'model\'s table_name')
    r = [a for a in rename[0].walk() if isinstance(a, ast.Call) and
         call_name(a) == 'rename_table'][0]
    if unparse(kwarg(r, 'old_db_table') or ast.Constant(None)) == \
            'TEMP_TABLE_NAME' and unparse(kwarg(r, 'new_db_table') or
                                          ast.Constant(None)) == 'table_name':
        ctx.ok(f, 'the temp table is renamed to the model\'s table', r)
    else:
        ctx.finding(f, r, 'rename_table() does not rename TEMP_TABLE_NAME to '
                    'table_name')


UPDATE_RE = re.compile(
    r'^\s*UPDATE\s+(\S+)\s+SET\s+(\S+)\s*=\s*(.+?)(?:\s+WHERE\s+(.*?))?;?\s*$',
    re.I | re.S)


def r6_update_templates(ctx):
    ctx.rule('R-C02.6')
    p = ctx.program
    n = 0
    mods = ['db.common', 'db.sqlite3']
    if ctx.tier == 'thorough':
        mods += ['db.postgresql', 'db.mysql']
    for mod in mods:
        m = p.module(mod)
        for f in m.all_funcs():
            for c in str_constants(f.node):
                mt = UPDATE_RE.match(c.value)
                if not mt:
                    continue
                table, col, expr, where = mt.groups()
                if mod in ('db.postgresql', 'db.mysql'):
                    # outside the property's SQLite quantifier: information
                    ctx.info('%s %s: UPDATE template %r (backend outside the '
                             'SQLite scope; not an obligation)' % (
                                 f.loc(c), f.qualname, c.value.strip()[:70]))
                    continue
                if table.lower().strip('"') == 'sqlite_master':
                    ctx.info('%s: UPDATE sqlite_master (schema text, not user '
                             'rows) excluded' % f.loc(c))
                    continue
                n += 1
                if where and re.match(r'^%s\s+IS\s+NULL$' % re.escape(col),
                                      where.strip(), re.I):
                    ctx.ok(f, 'UPDATE template only touches rows where the '
                           'column IS NULL', c)
                else:
                    ctx.finding(f, c, 'UPDATE template "%s" is not guarded '
                                'by WHERE %s IS NULL: it rewrites existing '
                                'non-NULL values' % (c.value.strip()[:60],
                                                     col))
    ctx.floor('UPDATE templates on user tables', n, 2)


def r7_initials_unfiltered(ctx):
    """new_initial[...] = initial may only depend on the initial value itself
    (and on the column existing at all)."""
    ctx.rule('R-C02.7')
    p = ctx.program
    f = p.func(S, Q)
    g = ctx.cfg(f)
    stores = [n for n in g.nodes if n.kind == 'stmt' and
              isinstance(n.ast, ast.Assign) and any(
                  isinstance(t, ast.Subscript) and
                  unparse(t.value) == 'new_initial' for t in n.ast.targets)]
    ctx.floor('stores into new_initial', len(stores), 2)
    for st in stores:
        bad = []
        for t in g.nodes:
            if t.kind != 'test' or not (g.guarded_by(st, t, 'T') or
                                        g.guarded_by(st, t, 'F')):
                continue
            txt = unparse(t.ast)
            names = {x.id for x in ast.walk(t.ast) if isinstance(x, ast.Name)}
            if names <= {'initial'}:
                continue
            if names <= {'op'}:
                continue                 # the op dispatch itself
            if 'db_type' in txt and names <= {'field', 'connection'}:
                continue                 # fields without a column
            bad.append(txt)
        if bad:
            ctx.finding(f, st.ast, 'the declared initial value is recorded '
                        'for the copy only when %s: columns failing that '
                        'test are created without their initial value '
                        '(existing rows get NULL)' % ' and '.join(bad),
                        key='initial-filtered:' + ';'.join(sorted(bad)))
        else:
            ctx.ok(f, 'initial value recorded whenever one is declared',
                   st.ast)


def r8_optimiser_bookkeeping(ctx):
    """The optimiser merges attributes (null / initial) between mutations of
    one field; a stale bookkeeping entry merges them into the wrong field and
    the wrong initial value is written into existing rows.  Same clause as
    R-C03.6, necessary for C02 as well."""
    from .c03 import r6_consumed_entries_invalidated
    r6_consumed_entries_invalidated(ctx, rule_id='R-C02.8')


def r9_initial_only_for_null_change(ctx):
    """On the SQLite path an 'initial' recorded on a MODIFY COLUMN item makes
    the rebuild select coalesce(old, initial) for that column, i.e. it
    rewrites stored NULLs.  The property allows that for exactly one kind of
    change: null -> not null.  So the only producer of a MODIFY COLUMN item
    with a non-None initial is the null-change handler."""
    ctx.rule('R-C02.9')
    p = ctx.program
    ops = p.cls('db.sqlite3', 'EvolutionOperations')
    n_calls = n_init = 0
    for f in ops.methods.values():
        for c in walk_no_nested(f.node):
            if isinstance(c, ast.Call) and call_name(c) == '_change_attribute':
                n_calls += 1
                init = kwarg(c, 'initial')
                if init is None and len(c.args) >= 5:
                    init = c.args[4]
                if init is None or (isinstance(init, ast.Constant) and
                                    init.value is None):
                    ctx.ok(f, 'attribute change carries no initial value', c)
                    continue
                n_init += 1
                if f.name == 'change_column_attr_null':
                    ctx.ok(f, 'the null-change handler passes the declared '
                           'initial to the rebuild', c)
                else:
                    ctx.finding(f, c, '%s records an initial value (%s) for '
                                'a column whose NULL-ability does not change: '
                                'the rebuild would replace the stored NULLs '
                                'of that column' % (f.name, unparse(init)),
                                key='initial-outside-null-change')
            if isinstance(c, ast.Dict):
                d = {const_str(k): v for k, v in zip(c.keys, c.values)
                     if k is not None and const_str(k)}
                op = d.get('op')
                if op is None or const_str(op) != 'MODIFY COLUMN' or \
                        'initial' not in d:
                    continue
                v = d['initial']
                if isinstance(v, ast.Constant) and v.value is None:
                    ctx.ok(f, 'MODIFY COLUMN item without initial', c)
                elif f.name in ('_change_attribute',
                                'change_column_attr_null') and \
                        isinstance(v, ast.Name):
                    ctx.ok(f, 'MODIFY COLUMN item forwards the initial of '
                           'the null-change path', c)
                else:
                    ctx.finding(f, c, '%s queues a MODIFY COLUMN item with '
                                'initial=%s outside the null-change path' % (
                                    f.name, unparse(v)),
                                key='modify-initial-outside-null-change')
    ctx.floor('_change_attribute calls in the SQLite backend', n_calls, 3)
    ctx.floor('attribute changes that carry an initial value', n_init, 1)


def r10_initial_sentinel(ctx):
    from .c03 import r8_initial_sentinel
    r8_initial_sentinel(ctx, rule_id='R-C02.10')


def r11_no_write_after_handover(ctx):
    from .c03 import r15_no_write_after_conditional_handover
    r15_no_write_after_conditional_handover(ctx, rule_id='R-C02.11')


def r12_embed_only_for_callables(ctx):
    """normalize_initial() returns (value, embed).  embed=True sends the
    value down the SQLite rebuild's *literal* branch (`field_values[col] =
    initial`: every row of the column gets the literal - the known finding
    for callable SQL text), embed=False down the `coalesce(col, %s)` branch
    that keeps existing values.  The literal branch is documented for
    callables returning SQL text only; a path that returns embed=True for a
    plain value makes a null->non-null ChangeField overwrite every existing
    value of the column."""
    ctx.rule('R-C02.12')
    p = ctx.program
    n = 0
    for cls_mod, cname in (('db.common', 'BaseEvolutionOperations'),):
        for k in [p.cls(cls_mod, cname)] + p.cls(cls_mod,
                                                 cname).all_subclasses():
            f = k.methods.get('normalize_initial')
            if f is None:
                continue
            g = ctx.cfg(f)
            param = [x for x in f.params if x != 'self'][0]
            callable_tests = [t for t in g.nodes
                              if t.kind in ('test', 'operand') and
                              isinstance(t.ast, ast.Call) and
                              call_name(t.ast) == 'callable' and t.ast.args
                              and isinstance(t.ast.args[0], ast.Name) and
                              t.ast.args[0].id == param]
            for node in g.nodes:
                if node.kind != 'stmt' or not isinstance(node.ast,
                                                         ast.Return):
                    continue
                v = node.ast.value
                if not (isinstance(v, ast.Tuple) and len(v.elts) == 2):
                    continue
                n += 1
                flag = v.elts[1]
                if isinstance(flag, ast.Constant) and flag.value is False:
                    ctx.ok(f, 'parameter path', node.ast)
                    continue
                if any(g.guarded_by(node, t, 'T') for t in callable_tests):
                    ctx.ok(f, 'embedding only for the result of a callable '
                           'initial', node.ast)
                else:
                    ctx.finding(f, node.ast, '%s can return embed=%s for an '
                                'initial value that is not the result of a '
                                'callable: the SQLite rebuild then selects '
                                'the literal for every row instead of '
                                'coalesce(column, value), overwriting the '
                                'existing values of the column' % (
                                    f.qualname, unparse(flag)),
                                key='embed-for-plain-value')
    ctx.floor('returns of normalize_initial', n, 2)


def r13_parameters_bound_unchanged(ctx):
    """Initial values reach the database as *bound parameters*
    (cursor.execute(sql, params)); normalize_value() is applied to every one
    of them.  It may translate a bool into the backend's literal and must
    return everything else as it is: any text transformation (escaping,
    doubling of %, quoting) is stored literally in every row."""
    ctx.rule('R-C02.13')
    p = ctx.program
    n = 0
    base = p.cls('db.common', 'BaseEvolutionOperations')
    for k in [base] + base.all_subclasses():
        f = k.methods.get('normalize_value')
        if f is None:
            continue
        param = [x for x in f.params if x != 'self'][0]
        for r in walk_no_nested(f.node):
            if not isinstance(r, ast.Return) or r.value is None:
                continue
            n += 1
            v = r.value
            ok = (isinstance(v, ast.Name) and v.id == param) or (
                isinstance(v, ast.Call) and
                call_name(v) in ('normalize_bool', 'int', 'bool') and
                all(isinstance(a, ast.Name) and a.id == param
                    for a in v.args))
            if ok:
                ctx.ok(f, 'parameter returned unchanged / as a bool literal',
                       r)
            else:
                ctx.finding(f, r, '%s returns %s for a bound parameter: the '
                            'driver stores that text as it is, so every row '
                            'that receives the initial value holds the '
                            'transformed string' % (
                                f.qualname, ' '.join(unparse(v).split())),
                            key='parameter-transformed')
    ctx.floor('returns of normalize_value', n, 2)


def r14_rename_removes_before_it_adds(ctx):
    """RenameField.simulate() replaces the field's entry in the model
    signature.  Old and new name can be the same (a rename that only changes
    the column, or a rename chain that the optimiser collapses to f -> f): the
    old entry must be removed *before* the new one is added, otherwise the add
    overwrites the entry and the remove deletes it - the field vanishes from
    the signature and the next SQLite rebuild drops the column with its
    data."""
    ctx.rule('R-C02.14')
    p = ctx.program
    f = p.func('mutations.rename_field', 'RenameField.simulate')
    g = ctx.cfg(f)
    adds = [n for n in g.nodes if any(call_name(c) == 'add_field_sig'
                                      for c in n.calls())]
    rems = [n for n in g.nodes if any(call_name(c) == 'remove_field_sig'
                                      for c in n.calls())]
    ctx.floor('add/remove of the field entry in RenameField.simulate',
              len(adds) + len(rems), 2)
    if adds and rems and all(any(g.dominates(r, a) for r in rems)
                             for a in adds):
        ctx.ok(f, 'the old field entry is removed before the renamed one is '
               'added', adds[0].ast)
    else:
        ctx.finding(f, adds[0].ast if adds else None, 'RenameField.simulate '
                    'adds the renamed field entry before removing the old '
                    'one: when both names are equal the remove deletes the '
                    'entry that was just added and the field disappears from '
                    'the signature', key='add-before-remove')


def r15_table_op_results_are_merged(ctx):
    from .c18 import r9_table_op_results_are_merged
    r9_table_op_results_are_merged(ctx, rule_id='R-C02.15')


def run(ctx):
    r15_table_op_results_are_merged(ctx)
    r14_rename_removes_before_it_adds(ctx)
    r13_parameters_bound_unchanged(ctx)
    r12_embed_only_for_callables(ctx)
    r11_no_write_after_handover(ctx)
    r10_initial_sentinel(ctx)
    r9_initial_only_for_null_change(ctx)
    r8_optimiser_bookkeeping(ctx)
    r7_initials_unfiltered(ctx)
    r1_r4_copy_map(ctx)
    r4b_update_params(ctx)
    r5_copy_before_drop(ctx)
    r6_update_templates(ctx)
