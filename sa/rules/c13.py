"""C13 - hinted evolution text is loadable and means what the hint meant."""
from __future__ import annotations

import ast
import importlib.util
import os
from typing import Dict, List, Optional, Set

from ..program import (AnalysisError, Class, Func, call_name, const_str,
                       dotted, kwarg, norm_key, unparse, walk_no_nested)
from ..util import is_self_attr, nodes_with_call

EXPLANATION = (
    'Decided clauses: R-C13.1 (import closure) the line importing '
    'django.db.models into a generated evolution file is not conditional on '
    'the mutation type, and every other name family the value serialisers '
    'can emit has an import emitted for it; R-C13.2 the Q serialiser is '
    'total: it has a separator for every connector Django\'s Q defines '
    '(read from the installed Django source), and every subscript of a child '
    'is guarded by the tuple type test; R-C13.3 serialisers that join '
    'recursively rendered operands with an infix operator parenthesise '
    'compound operands; R-C13.4 every serializer class the dispatch can '
    'choose implements serialize_to_python, and the fall-through for unknown '
    'values raises; R-C13.5 every constructor argument a mutation stores is '
    'rendered by its get_hint_params (so the re-loaded mutation is the same '
    'mutation), and placeholders refuse to run; '
    'R-C13.1 also requires the models-import decision to be taken inside the loop over the rendered mutations when it tests a per-mutation value; '
    'R-C13.6 combined expressions are rendered through a table covering every connector django\'s Combinable defines, never value.connector itself; R-C13.7 composite serialisers render their parts through serialize_to_python(), never %r / repr().'
    ' '
    "R-C13.6 second clause: every entry of the connector tables spells its connector the way django's Combinable produces it (operator of the non-reflected dunder or the method name, read from the installed Django source)."
    ' '
    'R-C13.8 the hint text reaches stdout / the evolution file with nothing but whitespace trimming applied.'
    ' '
    'R-C13.10 change_meta_indexes looks the per-index dictionaries up under an order-insensitive key (R-C13.9, sibling key order of the two producers, was withdrawn once fix d79d704 made the order irrelevant).'
    ' '
    'R-C13.11 TupleSerialization writes the trailing comma only on a path controlled by len(value) == 1.'
    ' '
    'R-C13.12 Diff._get_initial_value hands a hint the evaluated default (get_default()) or the placeholder, never the raw `default` attribute (a callable default would be written as its repr).')
NOT_DECIDED = (
    'Semantic equality of the re-loaded mutations (same signature change, '
    'same SQL) for all values; validity of the rendered Python for every '
    'string/number/expression value.')
TECHNIQUE = ('control-dependence of import emission in the CFG, table '
             'agreement against Django\'s parsed source (Q connectors), '
             'guarded-subscript (contradiction) rule, dispatch-table '
             'totality, constructor-parameter vs hint-parameter coverage')
LEVEL_NOTE = ('Trusted: Python ast, CFG; the installed Django\'s '
              'query_utils.py is parsed (not imported) for the connector '
              'constants; one reviewed exception table for arguments that '
              'are never hinted.')

SER = 'serialization'
NEVER_HINTED = {
    ('RenameAppLabel', 'model_names'): 'Diff never produces a partial app '
        'move; only hand-written evolutions pass model_names',
    ('MoveToDjangoMigrations', 'mark_applied'): 'never produced by '
        'Diff.evolution(); hand-written only',
    ('SQLMutation', 'sql'): 'raw SQL mutations are never hinted',
    ('SQLMutation', 'update_func'): 'raw SQL mutations are never hinted',
}


def django_q_connectors() -> Set[str]:
    spec = importlib.util.find_spec('django.db.models.query_utils')
    if spec is None or not spec.origin:
        raise AnalysisError('R-C13.2: django.db.models.query_utils not found')
    with open(spec.origin) as fp:
        tree = ast.parse(fp.read())
    out = set()
    for n in tree.body:
        if isinstance(n, ast.ClassDef) and n.name == 'Q':
            for st in n.body:
                if isinstance(st, ast.Assign) and len(st.targets) == 1 and \
                        isinstance(st.targets[0], ast.Name) and \
                        st.targets[0].id.isupper() and \
                        const_str(st.value) == st.targets[0].id:
                    out.add(st.targets[0].id)
    if not {'AND', 'OR'} <= out:
        raise AnalysisError('R-C13.2: could not read Q connectors from %s' %
                            spec.origin)
    return out


def r1_import_closure(ctx):
    ctx.rule('R-C13.1')
    p = ctx.program
    f = p.func('evolve.evolve_app_task', 'EvolveAppTask.get_evolution_content')
    g = ctx.cfg(f)
    adds = []
    for n in g.nodes:
        for c in n.calls():
            if call_name(c) == 'add' and c.args and \
                    (const_str(c.args[0]) or '').strip() == \
                    'from django.db import models':
                adds.append((n, c))
    if not adds:
        ctx.finding(f, None, 'generated evolution files never import '
                    'django.db.models', key='no-models-import')
    else:
        type_tests = [t for t in g.nodes if t.kind == 'test' and any(
            isinstance(c, ast.Call) and call_name(c) == 'isinstance' and
            len(c.args) == 2 and isinstance(c.args[0], ast.Name) and
            c.args[0].id == 'mutation' for c in ast.walk(t.ast))]
        free = [(n, c) for n, c in adds
                if not any(g.guarded_by(n, t, 'T') for t in type_tests)]
        if free:
            ctx.ok(f, 'the models import is emitted independently of the '
                   'mutation type', free[0][1])
        else:
            narrow = sorted({unparse(t.ast) for t in type_tests
                             if any(g.guarded_by(n, t, 'T')
                                    for n, _ in adds)})
            ctx.finding(f, adds[0][1], '"from django.db import models" is '
                        'only emitted under %s, but ChangeField(field_type=) '
                        'and ChangeMeta(indexes/constraints with Q, F, '
                        'Index...) render "models." too: NameError when the '
                        'hint is loaded' % ', '.join(narrow),
                        key='models-import-guarded-by-AddField')
    # the decision is taken per rendered mutation: a test on a value that is
    # computed inside the loop over the mutations must itself be inside it
    from ..flow import ReachingDefs
    from ..util import for_heads, loop_body_ids
    rd = ReachingDefs(g, f.params)
    heads = [h for h in for_heads(g) if '_mutations' in unparse(h.ast.iter)]
    ctx.floor('loops over the task\'s mutations in get_evolution_content',
              len(heads), 1)
    body = set()
    for h in heads:
        body |= loop_body_ids(g, h)
    for n, c in adds:
        tests = [t for t in g.nodes if t.kind == 'test' and
                 g.guarded_by(n, t, 'T')]
        for t in tests:
            per_mutation = []
            for x in ast.walk(t.ast):
                if isinstance(x, ast.Name) and isinstance(x.ctx, ast.Load):
                    ds = [d for d in rd.reaching(t, x.id)
                          if d.kind != 'mutate']
                    if ds and all(d.node.id in body or d.kind == 'iter' and
                                  d.node in heads for d in ds):
                        per_mutation.append(x.id)
            if per_mutation and t.id not in body:
                ctx.finding(f, c, 'the models import is decided from %s '
                            'after the loop over the mutations has finished: '
                            'only the last mutation\'s line is inspected, a '
                            '"models." reference in an earlier one gets no '
                            'import' % ', '.join(sorted(set(per_mutation))),
                            key='import-decided-after-loop')
            elif per_mutation:
                ctx.ok(f, 'import decision on %s is taken per mutation' %
                       ', '.join(sorted(set(per_mutation))), c)
    # the import of the mutation classes covers every rendered mutation type
    if any(isinstance(c, ast.Call) and call_name(c) == 'sorted' and
           'mutation_types' in unparse(c) for c in walk_no_nested(f.node)):
        ctx.ok(f, 'every rendered mutation class name is imported from '
               'django_evolution.mutations')
    else:
        ctx.finding(f, None, 'the mutation class import no longer covers '
                    'mutation_types', key='mutation-types-import')
    # other name families emitted by value serialisers
    m = p.module(SER)
    emitters = []
    for cname in ('DeconstructedSerialization', 'EnumSerialization',
                  'ClassSerialization'):
        c = m.classes.get(cname)
        if c is None:
            raise AnalysisError('R-C13.1: %s not found' % cname)
        sp = c.methods.get('serialize_to_python')
        if sp is None:
            continue
        txt = unparse(sp.node)
        # a branch that renders a name without the "models." prefix
        if "'models." in txt or '"models.' in txt:
            emitters.append((c, sp))
    ctx.floor('serialisers that render class / enum names', len(emitters), 3)
    value_imports = [c for c in walk_no_nested(f.node)
                     if isinstance(c, ast.Call) and call_name(c) == 'add' and
                     c.args and isinstance(c.args[0], ast.Name) and
                     'import' in c.args[0].id]
    # import_str is only built from mutation.field_type (AddField)
    srcs = set()
    for n in walk_no_nested(f.node):
        if isinstance(n, ast.Assign) and any(
                isinstance(t, ast.Name) and t.id == 'import_str'
                for t in n.targets):
            srcs |= {a.attr for a in ast.walk(n.value)
                     if isinstance(a, ast.Attribute)}
    covers_values = any('new_value' in unparse(x) or 'field_attrs' in
                        unparse(x) for x in walk_no_nested(f.node)
                        if isinstance(x, ast.Attribute))
    if covers_values:
        ctx.ok(f, 'imports are derived from the rendered attribute values')
    else:
        ctx.finding(f, None, 'value serialisers render names from arbitrary '
                    'modules (bare ClassName(...) for non-Django '
                    'deconstructibles, module.Enum.MEMBER for enums, and '
                    '"models.X" for anything under django.db.models.* even '
                    'when django.db.models does not export X), but '
                    'get_evolution_content only derives imports from '
                    'AddField.field_type', key='no-import-for-serialized-'
                    'values')


def r2_q_total(ctx):
    ctx.rule('R-C13.2')
    p = ctx.program
    cls = p.cls(SER, 'QSerialization')
    where = ('django_evolution.serialization', 'QSerialization')
    o, node = cls.find_attr('child_separators')
    if node is None or not isinstance(node, ast.Dict):
        raise AnalysisError('R-C13.2: QSerialization.child_separators is not '
                            'a dict literal')
    keys = set()
    for k in node.keys:
        if const_str(k) is not None:
            keys.add(const_str(k))
        elif isinstance(k, ast.Attribute) and dotted(k.value) == 'Q':
            keys.add(k.attr)     # Q.AND == 'AND' in Django's source
        elif isinstance(k, ast.Call) and call_name(k) == 'getattr' and \
                len(k.args) >= 2 and const_str(k.args[1]):
            keys.add(const_str(k.args[1]))
    want = django_q_connectors()
    ctx.counts['R-C13.2 connectors defined by django.db.models.Q'] = len(want)
    for c in sorted(want):
        if c in keys:
            ctx.ok(where, 'connector %s has a separator' % c, node)
        else:
            ctx.finding(where, node, 'Q connector %s (defined by the '
                        'installed Django) has no entry in child_separators: '
                        'serialising such a Q raises KeyError' % c,
                        key='missing-connector:%s' % c)
    f = cls.methods['serialize_to_python']
    g = ctx.cfg(f)
    # values drawn from .children
    child_names = set()
    for n in walk_no_nested(f.node):
        if isinstance(n, ast.For) and 'children' in unparse(n.iter) and \
                isinstance(n.target, ast.Name):
            child_names.add(n.target.id)
        if isinstance(n, ast.Assign) and 'children' in unparse(n.value) and \
                isinstance(n.value, ast.Subscript):
            for t in n.targets:
                if isinstance(t, ast.Name):
                    child_names.add(t.id)
    subs = []
    for n in g.nodes:
        for a in n.walk():
            if isinstance(a, ast.Subscript) and isinstance(a.value, ast.Name) \
                    and a.value.id in child_names:
                subs.append((n, a))
    ctx.counts['R-C13.2 subscripts of Q children'] = len(subs)
    for n, a in subs:
        tests = [t for t in g.nodes if t.kind == 'test' and
                 isinstance(t.ast, ast.Call) and
                 call_name(t.ast) == 'isinstance' and
                 isinstance(t.ast.args[0], ast.Name) and
                 t.ast.args[0].id == a.value.id and
                 'tuple' in unparse(t.ast.args[1])]
        if any(g.guarded_by(n, t, 'T') for t in tests):
            ctx.ok(f, 'child subscript is under isinstance(child, tuple)', a)
        else:
            ctx.finding(f, a, 'a Q child is subscripted without the tuple '
                        'type test that another branch applies: a nested Q '
                        'child (negated or wrapped compound Q) raises '
                        'TypeError', key='unguarded-child-subscript')
    # nested Q children recurse
    if any(isinstance(c, ast.Call) and call_name(c) == 'serialize_to_python'
           and c.args and isinstance(c.args[0], ast.Name) and
           c.args[0].id in child_names for c in walk_no_nested(f.node)):
        ctx.ok(f, 'nested Q children are rendered recursively')
    else:
        ctx.finding(f, None, 'nested Q children are not rendered recursively',
                    key='no-recursion')
    # unknown child types raise
    if any(isinstance(n, ast.Raise) for n in walk_no_nested(f.node)):
        ctx.ok(f, 'unexpected child types raise TypeError')
    else:
        ctx.finding(f, None, 'unexpected Q child types are silently dropped',
                    key='no-raise')


def r3_parenthesise(ctx):
    ctx.rule('R-C13.3')
    p = ctx.program
    n = 0
    for cname in ('QSerialization', 'CombinedExpressionSerialization'):
        f = p.func(SER, '%s.serialize_to_python' % cname)
        n += 1
        recursive = [c for c in walk_no_nested(f.node)
                     if isinstance(c, ast.Call) and
                     call_name(c) == 'serialize_to_python']
        if not recursive:
            raise AnalysisError('R-C13.3: %s does not render operands '
                                'recursively' % cname)
        parens = [s for s in ast.walk(f.node)
                  if const_str(s) is not None and
                  const_str(s).startswith('(') and
                  const_str(s).rstrip().endswith(')') and
                  '%s' in const_str(s)]
        if parens:
            ctx.ok(f, '%s wraps compound operands in parentheses' % cname,
                   parens[0])
            # the decision to wrap may depend on the operand's *type* or
            # count, never on which operator is involved
            g = ctx.cfg(f)
            for pn in [n for n in g.nodes
                       if any(a is parens[0] for a in n.walk())]:
                for t in g.nodes:
                    if t.kind != 'test':
                        continue
                    if not (g.guarded_by(pn, t, 'T') or
                            g.guarded_by(pn, t, 'F')):
                        continue
                    if any(isinstance(a, ast.Attribute) and
                           a.attr in ('connector', 'conditional', 'op')
                           for a in ast.walk(t.ast)) and \
                            isinstance(t.ast, ast.Compare):
                        ctx.finding(f, t.ast, '%s parenthesises a compound '
                                    'operand only when "%s": grouping that '
                                    'depends on the operator loses '
                                    'right-nested operands of the same '
                                    'operator (a - (b - c) is rendered a - b '
                                    '- c)' % (cname, unparse(t.ast)),
                                    key='parens-depend-on-operator')
        else:
            ctx.finding(f, recursive[0], '%s joins recursively rendered '
                        'operands with an infix operator without '
                        'parenthesising them: Python precedence regroups '
                        'nested expressions when the hint is loaded' % cname,
                        key='operands-unparenthesised')
    ctx.floor('infix serialisers', n, 2)


def r4_dispatch_total(ctx):
    ctx.rule('R-C13.4')
    p = ctx.program
    m = p.module(SER)
    base = p.cls(SER, 'BaseSerialization')
    chosen = set()
    for fn in ('_init_serialization', '_get_serializer_for_value'):
        f = p.func(SER, fn)
        for n in walk_no_nested(f.node):
            if isinstance(n, ast.Dict):
                for v in n.values:
                    if isinstance(v, ast.Name) and v.id in m.classes:
                        chosen.add(v.id)
            if isinstance(n, ast.Assign) and isinstance(n.value, ast.Name) \
                    and n.value.id in m.classes:
                chosen.add(n.value.id)
    ctx.floor('serializer classes reachable from the dispatch', len(chosen),
              9)
    for name in sorted(chosen):
        c = m.classes[name]
        impl = c.find_method('serialize_to_python')
        if impl is not None and impl.cls is not base:
            ctx.ok(('django_evolution.serialization', name),
                   '%s renders to Python (%s.serialize_to_python)' % (
                       name, impl.cls.name))
        else:
            ctx.finding(('django_evolution.serialization', name), c.node,
                        '%s can be chosen for a value but cannot render it '
                        'to Python (NotImplementedError while hinting)' %
                        name, key='no-serialize_to_python')
    f = p.func(SER, 'serialize_to_python')
    g = ctx.cfg(f)
    from ..util import none_edges
    none_tests = none_edges(g, 'serialization_cls')
    if none_tests:
        t, lab = none_tests[0]
        r = g.reachable([s for s, l in t.succ if l == lab])
        rets = [n for n in g.nodes if n.id in r and n.kind == 'stmt' and
                isinstance(n.ast, ast.Return)]
        calls_ok = all(any(g.guarded_by(n, ct, 'T') for ct in g.nodes
                           if ct.kind == 'test' and
                           'callable' in unparse(ct.ast)) for n in rets
                       if g.guarded_by(n, t, lab))
        raises = any(n.kind == 'stmt' and isinstance(n.ast, ast.Raise) and
                     n.id in r for n in g.nodes)
        if raises and calls_ok:
            ctx.ok(f, 'values without a serializer raise TypeError '
                   '(callables excepted)')
        else:
            ctx.finding(f, None, 'serialize_to_python can return for a value '
                        'it has no serializer for', key='fallthrough')
    else:
        ctx.finding(f, None, 'serialize_to_python no longer checks for a '
                    'missing serializer', key='no-none-check')


PY_OPERATOR_OF_DUNDER = {'__add__': '+', '__sub__': '-', '__mul__': '*',
                         '__truediv__': '/', '__mod__': '%', '__pow__': '**'}


def django_combinable_connectors():
    """connector text -> Python operator that produces it (None when only a
    method such as .bitand() does), read from the installed Django source."""
    spec = importlib.util.find_spec('django.db.models.expressions')
    if spec is None or not spec.origin:
        raise AnalysisError('R-C13.6: django.db.models.expressions not found')
    with open(spec.origin) as fp:
        tree = ast.parse(fp.read())
    consts, producers = {}, {}
    for n in tree.body:
        if isinstance(n, ast.ClassDef) and n.name == 'Combinable':
            for st in n.body:
                if isinstance(st, ast.Assign) and len(st.targets) == 1 and \
                        isinstance(st.targets[0], ast.Name) and \
                        st.targets[0].id.isupper() and \
                        const_str(st.value) is not None:
                    consts[st.targets[0].id] = const_str(st.value)
                if isinstance(st, ast.FunctionDef):
                    for c in ast.walk(st):
                        if isinstance(c, ast.Call) and \
                                call_name(c) == '_combine' and \
                                len(c.args) >= 2 and isinstance(
                                    c.args[1], ast.Attribute):
                            producers.setdefault(c.args[1].attr, []).append(
                                st.name)
    out = {}
    for name, text in consts.items():
        ops = [PY_OPERATOR_OF_DUNDER[m] for m in producers.get(name, [])
               if m in PY_OPERATOR_OF_DUNDER]
        out[text] = ops[0] if ops else None
    # every spelling that produces the connector with the operands in their
    # written order: the operator of a non-reflected dunder, or a plain method
    spellings = {}
    for name, text in consts.items():
        sp = set()
        for m in producers.get(name, []):
            if m in PY_OPERATOR_OF_DUNDER:
                sp.add(PY_OPERATOR_OF_DUNDER[m])
            elif not m.startswith('__'):
                sp.add(m)
        spellings[text] = sp
    django_combinable_connectors.spellings = spellings
    return out


def r6_connector_vocabulary(ctx):
    """A combined expression is rendered as Python source that must rebuild
    it.  Django's connector constants are SQL-side text: only + - * / are
    also the Python operator that produces them (POW is '^' but written
    `**`, MOD is '%%' but written `%`, the bitwise ones have no operator at
    all and need .bitand() etc.).  The serialiser must translate through a
    table that covers every connector Django defines, never print
    value.connector itself."""
    ctx.rule('R-C13.6')
    p = ctx.program
    conns = django_combinable_connectors()
    ctx.floor('connectors defined by django Combinable', len(conns), 8)
    cls = p.cls(SER, 'CombinedExpressionSerialization')
    f = cls.methods.get('serialize_to_python')
    if f is None:
        raise AnalysisError('R-C13.6: CombinedExpressionSerialization.'
                            'serialize_to_python not found')
    verbatim = None
    for n in walk_no_nested(f.node):
        if isinstance(n, ast.BinOp) and isinstance(n.op, ast.Mod):
            for x in ast.walk(n.right):
                if isinstance(x, ast.Attribute) and x.attr == 'connector':
                    verbatim = n
    tables = {}
    for k in cls.mro():
        for name, v in k.class_attrs.items():
            if isinstance(v, ast.Dict):
                tables[name] = {const_str(x) for x in v.keys
                                if x is not None and const_str(x)}
    covered = set().union(*tables.values()) if tables else set()
    differing = sorted(c for c, op in conns.items() if op != c)
    if verbatim is not None:
        ctx.finding(f, verbatim, 'the connector of a combined expression is '
                    'written into the Python text as it is; for %s the text '
                    'is not the Python operator that rebuilds the expression '
                    '(SyntaxError / NotImplementedError / a comment for "#" '
                    'when the hint is loaded)' % ', '.join(
                        repr(c) for c in differing),
                    key='connector-verbatim')
    else:
        # every entry of the tables spells its connector the way django
        # produces it (operator of the non-reflected dunder, or the method)
        spell = django_combinable_connectors.spellings
        n_entries = 0
        for k in cls.mro():
            for name, v in k.class_attrs.items():
                if not isinstance(v, ast.Dict):
                    continue
                for kk, vv in zip(v.keys, v.values):
                    c, sp = const_str(kk), const_str(vv)
                    if c is None or sp is None or c not in spell:
                        continue
                    n_entries += 1
                    if sp in spell[c]:
                        ctx.ok(f, '%s[%r] = %r rebuilds the connector' % (
                            name, c, sp), vv)
                    else:
                        ctx.finding(f, vv, '%s maps the connector %r to %r, '
                                    'but django produces %r through %s: the '
                                    'hint loads and evaluates to a different '
                                    'expression' % (
                                        name, c, sp, c,
                                        ' / '.join(sorted(spell[c])) or '?'),
                                    key='connector-misspelt:%s' % c)
        ctx.counts['R-C13.6 connector table entries checked against django'] \
            = n_entries
        missing = sorted(set(conns) - covered)
        if missing:
            ctx.finding(f, None, 'no Python spelling for the connector(s) %s '
                        'django defines' % ', '.join(map(repr, missing)),
                        key='connector-missing:%s' % ','.join(missing))
        else:
            ctx.ok(f, 'every connector django defines (%d) is translated '
                   'through a table' % len(conns))


def r7_composites_render_recursively(ctx):
    """A composite serialiser (Q, deconstructed objects, combined
    expressions, dicts, lists, tuples, sets) renders its parts by calling
    serialize_to_python() on them.  Rendering a part with %r / repr() gives
    the same text for plain literals, but Django's __repr__ for anything else
    (`F(start)`, `<CombinedExpression: ...>`): the hint no longer loads."""
    ctx.rule('R-C13.7')
    p = ctx.program
    m = p.module(SER)
    n_comp = 0
    for c in m.classes.values():
        f = c.methods.get('serialize_to_python')
        if f is None:
            continue
        recursive = any(isinstance(x, ast.Call) and
                        isinstance(x.func, ast.Name) and
                        x.func.id == 'serialize_to_python'
                        for x in walk_no_nested(f.node, include_lambda=True))
        if not recursive:
            continue
        n_comp += 1
        parents = {}
        for a in ast.walk(f.node):
            for ch in ast.iter_child_nodes(a):
                parents[id(ch)] = a

        def in_raise(n):
            cur = n
            while id(cur) in parents:
                cur = parents[id(cur)]
                if isinstance(cur, ast.Raise):
                    return True
            return False
        bad = []
        for x in walk_no_nested(f.node, include_lambda=True):
            if isinstance(x, ast.BinOp) and isinstance(x.op, ast.Mod) and \
                    isinstance(x.left, ast.Constant) and \
                    isinstance(x.left.value, str) and '%r' in x.left.value \
                    and not in_raise(x):
                bad.append(x)
            if isinstance(x, ast.Call) and isinstance(x.func, ast.Name) and \
                    x.func.id == 'repr' and not in_raise(x):
                bad.append(x)
        if bad:
            for b in bad:
                ctx.finding(f, b, '%s renders a part of the value with '
                            'repr (%s) instead of serialize_to_python(): for '
                            'anything but a plain literal the text is '
                            'Django\'s __repr__, not Python source' % (
                                c.name, ' '.join(unparse(b).split())[:60]),
                            key='part-rendered-by-repr')
        else:
            ctx.ok(f, '%s renders its parts through serialize_to_python()' %
                   c.name)
    ctx.floor('composite serialisers', n_comp, 4)


def r5_hint_coverage(ctx):
    ctx.rule('R-C13.5')
    p = ctx.program
    base = p.cls('mutations.base', 'BaseMutation')
    classes = [c for c in base.all_subclasses()
               if not c.name.startswith('Base')]
    ctx.floor('concrete mutation classes', len(classes), 10)
    for c in sorted(classes, key=lambda x: x.name):
        # stored constructor args through the MRO
        stored = {}
        for k in c.mro():
            init = k.methods.get('__init__')
            if not init:
                continue
            for n in walk_no_nested(init.node):
                if isinstance(n, ast.Assign):
                    for t in n.targets:
                        if is_self_attr(t):
                            srcs = {x.id for x in ast.walk(n.value)
                                    if isinstance(x, ast.Name)} & set(
                                        init.params[1:])
                            if srcs:
                                stored.setdefault(t.attr, k)
        hp = c.find_method('get_hint_params')
        read = set()
        if hp is not None:
            read = {a.attr for a in walk_no_nested(hp.node,
                                                   include_lambda=True)
                    if is_self_attr(a)}
        where = ('django_evolution.' + c.module.name.split(
            'django_evolution.')[-1], c.name)
        for a in sorted(stored):
            if a in read:
                ctx.ok(where, '%s.%s is rendered by get_hint_params' % (
                    c.name, a))
            elif (c.name, a) in NEVER_HINTED:
                ctx.ok(where, '%s.%s is not hinted: %s' % (
                    c.name, a, NEVER_HINTED[(c.name, a)]))
            elif a in ('field_name',) and ('old_field_name' in read):
                ctx.ok(where, '%s.%s aliases old_field_name, which is '
                       'rendered' % (c.name, a))
            elif a in ('model_name',) and ('old_model_name' in read):
                ctx.ok(where, '%s.%s aliases old_model_name, which is '
                       'rendered' % (c.name, a))
            else:
                ctx.finding(where, c.node, '%s stores constructor argument '
                            '%s but get_hint_params never renders it: the '
                            're-loaded mutation differs from the hinted one'
                            % (c.name, a), key='hint-omits:%s' % a)
    # whether a stored argument is rendered may depend only on its own value
    for c in sorted(classes, key=lambda x: x.name):
        hp = c.methods.get('get_hint_params')
        if hp is None:
            continue
        g = ctx.cfg(hp)
        for n in g.nodes:
            for call in n.calls():
                if call_name(call) not in ('serialize_attr',
                                           'serialize_value'):
                    continue
                rendered = {a.attr for arg in call.args
                            for a in ast.walk(arg) if is_self_attr(a)}
                if not rendered:
                    continue
                for t in g.nodes:
                    if t.kind != 'test' or not (g.guarded_by(n, t, 'T') or
                                                g.guarded_by(n, t, 'F')):
                        continue
                    tested = {a.attr for a in ast.walk(t.ast)
                              if is_self_attr(a)}
                    other = tested - rendered - {'prop_name'}
                    if other:
                        ctx.finding(hp, t.ast, '%s renders %s only when a '
                                    'test on %s holds ("%s"): the argument is '
                                    'silently dropped from the hint for some '
                                    'mutations, so the re-loaded mutation '
                                    'differs' % (
                                        c.name, sorted(rendered),
                                        sorted(other), unparse(t.ast)),
                                    key='hint-conditional:%s:%s' % (
                                        sorted(rendered), sorted(other)))
    # placeholders refuse to run
    pm = p.module('placeholders')
    n = 0
    for c in pm.classes.values():
        call = c.methods.get('__call__')
        if call is None:
            continue
        n += 1
        g = ctx.cfg(call)
        if g.exit.pred:
            ctx.finding(call, None, 'placeholder %s.__call__ can return a '
                        'value: a hint that needs user input would run' %
                        c.name, key='placeholder-returns')
        else:
            ctx.ok(call, 'placeholder %s.__call__ always raises' % c.name)
    ctx.floor('placeholder classes with __call__', n, 2)
    gh = p.func('mutations.base', 'BaseMutation.generate_hint')
    if 'get_hint_params' in unparse(gh.node) and '__name__' in unparse(
            gh.node):
        ctx.ok(gh, 'generate_hint renders ClassName(<hint params>)')
    else:
        ctx.finding(gh, None, 'generate_hint no longer renders the class '
                    'name and hint params', key='generate-hint')


TEXT_PRESERVING = {'strip', 'rstrip', 'lstrip', 'encode', 'decode', 'str',
                   'text_type', 'force_str', 'force_text'}


def r8_hint_text_reaches_output_verbatim(ctx):
    """evolve --hint prints (or --write saves) the evolution text produced by
    iter_evolution_content().  Between the generator and the sink only
    whitespace trimming may be applied to it: any other text transformation
    (wrapping, replacing, truncating) can split a string literal or the
    unbracketed import line, and the printed hint no longer loads."""
    ctx.rule('R-C13.8')
    p = ctx.program
    f = p.func('management.commands.evolve',
               'Command._generate_evolution_contents')
    # names bound from the (task, content) pairs of iter_evolution_content()
    src_names = set()
    for n in walk_no_nested(f.node):
        if isinstance(n, ast.Assign) and isinstance(n.value, ast.Call) and \
                call_name(n.value) == 'iter_evolution_content':
            src_names |= {t.id for t in n.targets if isinstance(t, ast.Name)}
    content = set()
    for n in walk_no_nested(f.node):
        if isinstance(n, ast.For):
            it = n.iter
            if isinstance(it, ast.Call) and call_name(it) == 'enumerate' and \
                    it.args:
                it = it.args[0]
            if (isinstance(it, ast.Name) and it.id in src_names) or (
                    isinstance(it, ast.Call) and
                    call_name(it) == 'iter_evolution_content'):
                for x in ast.walk(n.target):
                    if isinstance(x, ast.Name):
                        content.add(x.id)
    n_sinks = 0
    for c in walk_no_nested(f.node):
        if not (isinstance(c, ast.Call) and call_name(c) == 'write' and
                c.args):
            continue
        uses = [x for x in ast.walk(c.args[0]) if isinstance(x, ast.Name)
                and x.id in content]
        if not uses:
            continue
        n_sinks += 1
        bad = [x for x in ast.walk(c.args[0]) if isinstance(x, ast.Call) and
               call_name(x) not in TEXT_PRESERVING and any(
                   isinstance(y, ast.Name) and y.id in content
                   for a in list(x.args) + [k.value for k in x.keywords]
                   for y in ast.walk(a))]
        if bad:
            ctx.finding(f, c, 'the hint text is passed through %s(...) on its '
                        'way to the output: the printed / written evolution '
                        'is no longer the text get_evolution_content() '
                        'produced and may not be loadable Python' %
                        call_name(bad[0]), key='hint-text-transformed:%s' %
                        call_name(bad[0]))
        else:
            ctx.ok(f, 'hint text reaches the sink verbatim (trimmed)', c)
    ctx.floor('sinks of the hint text in the evolve command', n_sinks, 2)


def _order_of_expr(e):
    """Key order of a dictionary-valued expression (None when unknown)."""
    if isinstance(e, ast.Dict):
        out = []
        for k, v in zip(e.keys, e.values):
            if k is None:
                sub = _order_of_expr(v)
                if sub is None:
                    return None
                out += sub
            else:
                out.append(const_str(k))
        return out
    if isinstance(e, ast.DictComp) and len(e.generators) == 1 and \
            isinstance(e.generators[0].iter, (ast.Tuple, ast.List)):
        out = []
        for pair in e.generators[0].iter.elts:
            if isinstance(pair, (ast.Tuple, ast.List)) and pair.elts and \
                    const_str(pair.elts[0]):
                out.append(const_str(pair.elts[0]))
            else:
                return None
        return out
    if isinstance(e, ast.Call) and call_name(e) == 'copy' and \
            'attrs' in unparse(e):
        return ['<attrs>']
    if isinstance(e, (ast.Attribute, ast.Name)) and 'attrs' in unparse(e):
        return ['<attrs>']
    if isinstance(e, ast.Call) and call_name(e) in ('dict', 'OrderedDict'):
        out = []
        for a in e.args:
            sub = _order_of_expr(a)
            if sub is None:
                return None
            out += sub
        for k in e.keywords:
            if k.arg is None:
                sub = _order_of_expr(k.value)
                if sub is None:
                    return None
                out += sub
            else:
                out.append(k.arg)
        return out
    return None


def _index_dict_order(fn_node):
    """Key insertion order of the per-index dictionary built in a loop over
    `*.index_sigs`: '<attrs>' for the copied attrs, constants for the
    explicit keys."""
    for comp in ast.walk(fn_node):
        if isinstance(comp, (ast.ListComp, ast.GeneratorExp)) and any(
                'index_sigs' in unparse(g.iter) for g in comp.generators):
            order = _order_of_expr(comp.elt)
            if order is not None:
                return order, comp
    for loop in ast.walk(fn_node):
        if not (isinstance(loop, ast.For) and
                'index_sigs' in unparse(loop.iter)):
            continue
        order, name = [], None
        for st in loop.body:
            if isinstance(st, ast.Assign) and len(st.targets) == 1 and \
                    isinstance(st.targets[0], ast.Name):
                v = st.value
                if isinstance(v, ast.Call) and call_name(v) == 'copy' and \
                        'attrs' in unparse(v):
                    name, order = st.targets[0].id, ['<attrs>']
                elif isinstance(v, ast.Call) and call_name(v) in (
                        'dict', 'OrderedDict'):
                    name, order = st.targets[0].id, []
                    for a in v.args:
                        if isinstance(a, ast.Dict):
                            order += [const_str(k) for k in a.keys
                                      if k is not None]
                        elif 'attrs' in unparse(a):
                            order.append('<attrs>')
                    for k in v.keywords:
                        if k.arg is None and 'attrs' in unparse(k.value):
                            order.append('<attrs>')
                        elif k.arg:
                            order.append(k.arg)
                elif isinstance(v, ast.Dict):
                    name = st.targets[0].id
                    order = [const_str(k) if k is not None else '<attrs>'
                             for k in v.keys]
            for x in ast.walk(st):
                if isinstance(x, ast.Assign):
                    for t in x.targets:
                        if isinstance(t, ast.Subscript) and \
                                isinstance(t.value, ast.Name) and \
                                t.value.id == name and const_str(t.slice) \
                                and const_str(t.slice) not in order:
                            order.append(const_str(t.slice))
                if isinstance(x, ast.Call) and call_name(x) == 'update' and \
                        isinstance(x.func, ast.Attribute) and \
                        isinstance(x.func.value, ast.Name) and \
                        x.func.value.id == name and 'attrs' in unparse(x) \
                        and '<attrs>' not in order:
                    order.append('<attrs>')
        if name:
            return order, loop
    return None, None


def r9_index_dict_producers_agree(ctx):   # withdrawn, see DESIGN (C13)
    """change_meta_indexes() decides which indexes to drop / create by
    comparing repr() of the per-index dictionaries of the old value (built
    by ModelMutator.change_meta from the signature) and of the mutation's new
    value.  The hinted mutation's dictionaries are built by Diff.evolution():
    both producers must insert their keys in the same order, otherwise every
    untouched named index looks changed to the hinted mutation (DROP + CREATE)
    but not to the same mutation loaded from its hint text."""
    ctx.rule('R-C13.9')
    p = ctx.program
    a = p.func('diff', 'Diff.evolution')
    b = p.func('mutators.model_mutator', 'ModelMutator.change_meta')
    oa, la = _index_dict_order(a.node)
    ob, lb = _index_dict_order(b.node)
    if oa is None or ob is None:
        raise AnalysisError('R-C13.9: the per-index dictionary producers were '
                            'not recognised')
    ctx.counts['R-C13.9 keys of the per-index dictionaries'] = len(oa)
    if oa == ob:
        ctx.ok(a, 'Diff.evolution and ModelMutator.change_meta build the '
               'per-index dictionaries in the same key order %s' % oa, la)
    else:
        ctx.finding(a, la, 'Diff.evolution builds the per-index dictionary '
                    'in the order %s, ModelMutator.change_meta in the order '
                    '%s: their repr() differ for identical indexes, so the '
                    'hinted ChangeMeta drops and re-creates untouched '
                    'indexes while the mutation loaded from the hint text '
                    'does not' % (oa, ob), key='index-dict-order-differs')


def r10_index_dicts_compared_order_insensitively(ctx, rule_id='R-C13.10'):
    """change_meta_indexes() decides which indexes to drop and which to
    create by looking each per-index dictionary up under a key.  The same
    index arrives with different key orders (built by Diff.evolution, by
    ModelMutator.change_meta from the signature, or loaded from hint text,
    where get_hint_params() sorts the keys): a key that depends on insertion
    order - repr() of the dictionary itself - makes an untouched index look
    removed-and-added to one of them, so the mutation loaded from a hint
    generates different SQL (DROP INDEX + CREATE INDEX) than the hinted
    one."""
    ctx.rule(rule_id)
    p = ctx.program
    f = p.func('db.common', 'BaseEvolutionOperations.change_meta_indexes')
    n = 0
    bad = None
    for comp in walk_no_nested(f.node):
        if not isinstance(comp, ast.DictComp):
            continue
        tgt = comp.generators[0].target
        if not isinstance(tgt, ast.Name):
            continue
        n += 1
        k = comp.key
        if isinstance(k, ast.Call) and call_name(k) in ('repr', 'str') and \
                k.args and isinstance(k.args[0], ast.Name) and \
                k.args[0].id == tgt.id:
            bad = k
    ctx.floor('lookup maps of per-index dictionaries in change_meta_indexes',
              n, 2)
    if bad is not None:
        ctx.finding(f, bad, 'change_meta_indexes keys the per-index '
                    'dictionaries by %s, which depends on their key '
                    'insertion order: the same set of indexes in another '
                    'key order (a mutation loaded from its hint text) drops '
                    'and re-creates every index that has extra attributes' %
                    ' '.join(unparse(bad).split()),
                    key='index-dict-key-order-sensitive')
    else:
        ctx.ok(f, 'per-index dictionaries are looked up under an '
               'order-insensitive key')


def r11_tuple_comma_only_for_one_element(ctx):
    """Python writes a one-element tuple with a trailing comma and the empty
    tuple without one: `(x,)`, `()`.  In TupleSerialization the comma may be
    produced only on a path controlled by `len(value) == 1`; `(,)` is a
    SyntaxError and the hint does not load."""
    ctx.rule('R-C13.11')
    p = ctx.program
    f = p.cls(SER, 'TupleSerialization').methods['serialize_to_python']
    g = ctx.cfg(f)
    n = 0
    for node in g.nodes:
        for x in node.walk():
            if isinstance(x, ast.Constant) and isinstance(x.value, str) and \
                    (x.value == ',' or ',)' in x.value):
                n += 1
                one = [t for t in g.nodes if t.kind in ('test', 'operand')
                       and isinstance(t.ast, ast.Compare) and
                       'len(' in unparse(t.ast) and
                       isinstance(t.ast.ops[0], ast.Eq) and
                       unparse(t.ast.comparators[0]) == '1' and
                       g.guarded_by(node, t, 'T')]
                if one:
                    ctx.ok(f, 'trailing comma only for one-element tuples',
                           x)
                else:
                    ctx.finding(f, x, 'TupleSerialization writes the '
                                'trailing comma (%r) on a path that is not '
                                'restricted to one-element tuples: the empty '
                                'tuple is rendered as "(,)", which does not '
                                'parse' % x.value,
                                key='tuple-comma-not-only-for-one')
    ctx.floor('trailing-comma literals in TupleSerialization', n, 1)


def r12_hinted_initial_is_an_evaluated_default(ctx):
    """The initial value a hint carries is written out with
    serialize_to_python(), which renders a function / lambda / bound method
    by repr() - `<function f at 0x...>`, not loadable.  Diff._get_initial_value
    therefore hands out either the *evaluated* default (field.get_default())
    or the NullFieldInitialCallback placeholder, never the raw `default`
    attribute of the field, which may be any callable."""
    ctx.rule('R-C13.12')
    from ..util import expand_expr, unit
    p = ctx.program
    f = p.func('diff', 'Diff._get_initial_value')
    n_ret = n_eval = 0
    for fn in unit(ctx, f):
        for r in walk_no_nested(fn.node):
            if not (isinstance(r, ast.Return) and r.value is not None):
                continue
            n_ret += 1
            e = expand_expr(fn, r.value)
            raw = [a for a in ast.walk(e) if isinstance(a, ast.Attribute) and
                   a.attr in ('default', '_default') and
                   isinstance(a.ctx, ast.Load)]
            called = {id(c.func) for c in ast.walk(e)
                      if isinstance(c, ast.Call)}
            raw = [a for a in raw if id(a) not in called]
            if any(isinstance(c, ast.Call) and call_name(c) == 'get_default'
                   for c in ast.walk(e)):
                n_eval += 1
            if raw:
                ctx.finding(f, r, 'Diff._get_initial_value returns the '
                            'field\'s raw default attribute (%s): a callable '
                            'default reaches the hint unevaluated and is '
                            'written as its repr(), which cannot be loaded' %
                            ' '.join(unparse(r.value).split()),
                            key='raw-default-returned')
            else:
                ctx.ok(f, 'returned initial value is not the raw default '
                       'attribute', r)
    ctx.floor('returns of Diff._get_initial_value', n_ret, 2)
    ctx.floor('returns carrying get_default()', n_eval, 1)


def run(ctx):
    r12_hinted_initial_is_an_evaluated_default(ctx)
    r11_tuple_comma_only_for_one_element(ctx)
    r10_index_dicts_compared_order_insensitively(ctx)
    r8_hint_text_reaches_output_verbatim(ctx)
    r1_import_closure(ctx)
    r2_q_total(ctx)
    r3_parenthesise(ctx)
    r4_dispatch_total(ctx)
    r5_hint_coverage(ctx)
    r6_connector_vocabulary(ctx)
    r7_composites_render_recursively(ctx)
