"""C11 - renames and deletions keep every cross-reference consistent."""
from __future__ import annotations

import ast
from typing import Dict, List, Optional, Set

from ..program import (AnalysisError, Func, call_name, const_str, dotted,
                       kwarg, norm_key, unparse, walk_no_nested)
from ..util import is_self_attr

EXPLANATION = (
    'Decided clauses: R-C11.1 (reference shape) every site that parses a '
    'dotted "app_label.ModelName" reference splits it and then uses the '
    'resulting parts as parts: indexing or unpacking a *component* string '
    '(the result of indexing the split list) and comparing it with a label '
    'is a shape error; R-C11.2 the loops that rewrite relation targets in '
    'RenameModel.simulate and RenameAppLabel.simulate run over every app, '
    'every model and every field of the project signature; the only filters '
    'are on the reference itself (and, for partial app moves, on the moved '
    'model names); R-C11.3 the optimiser rewrites related_model of an added '
    'relation from the model/app rename tables when a rename follows; '
    'R-C11.4 a rename updates both ends: RenameModel/RenameField remove the '
    'old signature entry and add the clone under the new name (and '
    'table_name for models); R-C11.5 RenameAppLabel moves the models into a '
    'signature created with app_id = the new label; '
    'R-C11.6 ProjectSignature.get_app_sig resolves an app id by exact match before the legacy-label alias (shared with R-C15.5); '
    'R-C11.7 a REFERENCES clause names the related primary key field\'s current column (shared with R-C01.10).'
    ' '
    "R-C11.8 positions read from PRAGMA foreign_key_list / index_list / index_info rows agree with SQLite's documented layout for the role they are used in (referenced table = 2, referenced column = 4, index name = 1, unique = 2, column name = 2)."
    ' '
    'hygiene .97: a list filled with tuples of named values and consumed by unpacking uses the names in the same order on both sides (closure consumers included).'
    ' '
    'R-C11.10 all readers of a RenameModel chain take the final name from the same element.'
    ' '
    'R-C11.11 = R-C12.14.'
    ' '
    'R-C11.12 Simulation.get_app_sig consults the legacy app label only after the lookup by app_label (dominance on the CFG, or evaluation order inside one expression).')
NOT_DECIDED = (
    'Absence of dangling references for all signatures and sequences; '
    'foreign-key validity in the database after the generated SQL.')
TECHNIQUE = ('abstract string-shape analysis of split()/index/unpack '
             '(dotted-str, list-of-components, component), loop-nest '
             'matching over the project signature, dataflow from rename '
             'tables to the rewritten attribute, paired remove/add check')
LEVEL_NOTE = ('Trusted: Python ast; shape kinds are inferred per function '
              'from str.split with a "." separator applied to a related_model '
              '/ through_model value.')


def shape_sites(ctx):
    """All `<expr>.split('.'...)` sites on relation references in the
    package with the way their result is used."""
    out = []
    for f in ctx.program.all_funcs():
        mod = f.module.name
        for n in walk_no_nested(f.node, include_lambda=True):
            if isinstance(n, ast.Call) and call_name(n) == 'split' and \
                    n.args and const_str(n.args[0]) == '.':
                recv = unparse(n.func.value)
                if 'related_model' in recv or 'through_model' in recv:
                    out.append((f, n))
    return out


def r1_reference_shape(ctx):
    ctx.rule('R-C11.1')
    sites = shape_sites(ctx)
    ctx.floor('dotted-reference parse sites', len(sites), 5)
    for f, call in sites:
        # how is the split result used?
        parents = {}
        for n in ast.walk(f.node):
            for c in ast.iter_child_nodes(n):
                parents[id(c)] = n
        par = parents.get(id(call))
        # direct index of the split list -> component
        if isinstance(par, ast.Subscript) and par.value is call:
            gp = parents.get(id(par))
            # component assigned to a name that is then indexed / unpacked?
            bad = None
            if isinstance(gp, ast.Assign) and len(gp.targets) == 1:
                t = gp.targets[0]
                if isinstance(t, (ast.Tuple, ast.List)):
                    bad = 'a single component string is unpacked into %d ' \
                          'names' % len(t.elts)
                elif isinstance(t, ast.Name):
                    for u in walk_no_nested(f.node):
                        if isinstance(u, ast.Subscript) and \
                                isinstance(u.value, ast.Name) and \
                                u.value.id == t.id and \
                                isinstance(u.ctx, ast.Load):
                            bad = 'the component string %r is indexed ' \
                                  '(%s): characters, not labels, are ' \
                                  'compared' % (t.id, unparse(u))
            if bad:
                ctx.finding(f, gp, 'dotted reference shape error: %s' % bad,
                            key=norm_key(par))
            else:
                ctx.ok(f, 'component of the split reference used as a whole '
                       'string', par)
            continue
        # unpack or bind the list
        if isinstance(par, ast.Assign) and len(par.targets) == 1:
            t = par.targets[0]
            maxsplit = call.args[1].value if len(call.args) > 1 and \
                isinstance(call.args[1], ast.Constant) else None
            if isinstance(t, (ast.Tuple, ast.List)):
                if len(t.elts) == 2:
                    ctx.ok(f, 'reference unpacked into (app_label, '
                           'model_name)', par)
                else:
                    ctx.finding(f, par, 'a dotted reference is unpacked into '
                                '%d names' % len(t.elts))
            elif isinstance(t, ast.Name):
                # list of components: indices 0/1 only
                idx = [u for u in walk_no_nested(f.node)
                       if isinstance(u, ast.Subscript) and
                       isinstance(u.value, ast.Name) and u.value.id == t.id]
                ok = all(isinstance(u.slice, ast.Constant) and
                         u.slice.value in (0, 1) for u in idx) and idx
                if ok:
                    ctx.ok(f, 'split result %r is used as [app_label, '
                           'model_name]' % t.id, par)
                else:
                    ctx.finding(f, par, 'split result %r is used with '
                                'unexpected indices' % t.id)
            else:
                ctx.ok(f, 'split reference stored', par)
        else:
            ctx.ok(f, 'split reference consumed directly', call)


def _loop_nest(f: Func, store: ast.AST):
    """Enclosing for-loops of a statement, outermost first."""
    path = []

    def rec(node, stack):
        if node is store:
            path.extend(stack)
            return True
        for c in ast.iter_child_nodes(node):
            ns = stack + [node] if isinstance(node, ast.For) else stack
            if rec(c, ns):
                return True
        return False
    rec(f.node, [])
    return path


def r2_rewrite_loops(ctx, rule_id='R-C11.2'):
    ctx.rule(rule_id)
    p = ctx.program
    for mod, q, extra_ok in (
            ('mutations.rename_model', 'RenameModel.simulate', ()),
            ('mutations.rename_app_label', 'RenameAppLabel.simulate',
             ('model_names',))):
        f = p.func(mod, q)
        stores = [n for n in walk_no_nested(f.node)
                  if isinstance(n, ast.Assign) and any(
                      isinstance(t, ast.Attribute) and
                      t.attr == 'related_model' for t in n.targets)]
        if not stores:
            ctx.finding(f, None, '%s never rewrites related_model '
                        'references' % q, key='no-rewrite')
            continue
        for st in stores:
            nest = _loop_nest(f, st)
            iters = [unparse(l.iter) for l in nest]
            want = ('app_sigs', 'model_sigs', 'field_sigs')
            ok = len(nest) >= 3 and all(w in it for w, it in
                                        zip(want, iters[-3:]))
            proj = ok and 'project_sig' in iters[-3]
            if ok and proj:
                ctx.ok(f, 'rewrite is nested in loops over project_sig.'
                       'app_sigs / model_sigs / field_sigs', st)
            else:
                ctx.finding(f, st, 'the related_model rewrite does not run '
                            'over every app, model and field of the project '
                            'signature (loops: %s): references from other '
                            'apps are left dangling' % iters,
                            key='rewrite-scope')
                continue
            # filters between the loops and the store
            conds = []

            def rec(node, acc):
                if node is st:
                    conds.extend(acc)
                    return True
                for c in ast.iter_child_nodes(node):
                    na = acc + [node.test] if isinstance(node, ast.If) and \
                        c in node.body else acc
                    if rec(c, na):
                        return True
                return False
            rec(nest[-3], [])
            bad = []
            for c in conds:
                names = {x.id for x in ast.walk(c) if isinstance(x, ast.Name)}
                attrs = {x.attr for x in ast.walk(c)
                         if isinstance(x, ast.Attribute)}
                allowed = {'related_model'} | set(extra_ok)
                # the test may only mention the reference itself, its parts,
                # the old/new labels and allowed extras
                if not (attrs <= allowed | {'related_model'}):
                    bad.append(unparse(c))
            if bad:
                ctx.finding(f, st, 'the rewrite is filtered by %s, not only '
                            'by the reference itself' % bad,
                            key='rewrite-filter')
            else:
                ctx.ok(f, 'the only filters are on the reference itself%s' % (
                    ' and the moved model names' if extra_ok else ''), st)
            # the renamed clone must already be part of the project
            # signature when the loop runs (clone() deep-copies the fields,
            # so self-references live in the clone, not in the old object)
            if q == 'RenameModel.simulate':
                g = ctx.cfg(f)
                adds = [n for n in g.nodes for c in n.calls()
                        if call_name(c) == 'add_model_sig']
                head = next((h for h in g.nodes if h.kind == 'for' and
                             h.ast is nest[-3]), None)
                if adds and head is not None and \
                        any(g.dominates(a, head) for a in adds):
                    ctx.ok(f, 'the renamed clone is added to the app '
                           'signature before references are rewritten', st)
                else:
                    ctx.finding(f, st, 'references are rewritten before the '
                                'renamed clone is put into the signature: '
                                'the loop updates the old signature object '
                                'that is about to be discarded, so relations '
                                'of the renamed model to itself keep the old '
                                'name', key='rewrite-before-swap')
            # the comparison uses the old label / old dotted name
            txt = ' '.join(unparse(c) for c in conds)
            if 'old_' in txt:
                ctx.ok(f, 'references are matched against the old name', st)
            else:
                ctx.finding(f, st, 'references are not matched against the '
                            'old name', key='rewrite-no-old')


def r3_optimiser_follows_renames(ctx):
    ctx.rule('R-C11.3')
    p = ctx.program
    f = p.func('mutators.app_mutator', 'AppMutator._process_mutation_batch')
    from ..util import unit_walk, param_argument
    f_main = f
    found = [(g_, n) for g_, n in unit_walk(ctx, f)
             if isinstance(n, ast.Assign) and any(
                 isinstance(t, ast.Subscript) and
                 const_str(t.slice) == 'related_model'
                 for t in n.targets)]
    stores = [n for _, n in found]
    if found:
        f = found[0][0]
    if not stores:
        ctx.finding(f, None, 'the optimiser never rewrites '
                    "field_attrs['related_model'] of an added relation: an "
                    'AddField followed by a RenameModel of its target keeps '
                    'the old name', key='no-related-rewrite')
        return
    for st in stores:
        names = {x.id for x in ast.walk(st.value) if isinstance(x, ast.Name)}
        # new_model_name / new_app_label must come from the rename tables
        srcs = set()
        for n in walk_no_nested(f.node):
            if isinstance(n, ast.Assign) and any(
                    isinstance(t, ast.Name) and t.id in names
                    for t in n.targets):
                srcs |= {x.attr for x in ast.walk(n.value)
                         if isinstance(x, ast.Attribute)}
        tables = {x.id for n in walk_no_nested(f.node)
                  if isinstance(n, ast.Assign)
                  for x in ast.walk(n.value) if isinstance(x, ast.Name)}
        if f is not f_main:
            # helper: its rename-table parameters are fed from the tables of
            # the optimiser
            for prm in f.params:
                for arg in param_argument(ctx, f_main, f, prm):
                    tables |= {x.id for x in ast.walk(arg)
                               if isinstance(x, ast.Name)}
        if {'new_model_name', 'new_app_label'} & srcs and \
                {'model_renames', 'app_label_renames'} <= tables:
            ctx.ok(f, 'related_model of an added relation is rebuilt from '
                   'the model and app-label rename tables', st)
        else:
            ctx.finding(f, st, 'the rewritten related_model does not derive '
                        'from the rename tables')
        # split of the old reference into exactly two parts
        ok = any(isinstance(n, ast.Assign) and
                 isinstance(n.targets[0], (ast.Tuple, ast.List)) and
                 len(n.targets[0].elts) == 2 and
                 isinstance(n.value, ast.Call) and
                 call_name(n.value) == 'split'
                 for n in walk_no_nested(f.node))
        if ok:
            ctx.ok(f, 'the old reference is split into (app_label, '
                   'model_name)')


def r4_both_ends(ctx):
    ctx.rule('R-C11.4')
    p = ctx.program
    for mod, q, rem, add, extra in (
            ('mutations.rename_model', 'RenameModel.simulate',
             'remove_model_sig', 'add_model_sig', ('model_name',
                                                   'table_name')),
            ('mutations.rename_field', 'RenameField.simulate',
             'remove_field_sig', 'add_field_sig', ('field_name',))):
        f = p.func(mod, q)
        g = ctx.cfg(f)
        rems = [n for n in g.nodes for c in n.calls() if call_name(c) == rem]
        adds = [n for n in g.nodes for c in n.calls() if call_name(c) == add]
        if not rems or not adds:
            ctx.finding(f, None, '%s does not both remove the old entry and '
                        'add the new one' % q, key='rename-one-sided')
            continue
        if all(g.must_pass(g.entry, g.exit, x, follow_exc=False) is None
               for x in (rems, adds)):
            ctx.ok(f, '%s removes the old entry and adds the renamed one on '
                   'every path' % q)
        else:
            ctx.finding(f, None, '%s can return having done only one of '
                        'remove/add' % q, key='rename-path')
        # removal uses the old name, the added object carries the new one
        rc = [c for n in rems for c in n.calls() if call_name(c) == rem][0]
        if rc.args and 'old_' in unparse(rc.args[0]):
            ctx.ok(f, 'the entry removed is the old name', rc)
        else:
            ctx.finding(f, rc, '%s does not remove the old name' % q)
        written = {t.attr for n in walk_no_nested(f.node)
                   if isinstance(n, ast.Assign) for t in n.targets
                   if isinstance(t, ast.Attribute) and
                   isinstance(t.value, ast.Name) and
                   t.value.id.endswith('_sig')}
        for a in extra:
            if a in written:
                ctx.ok(f, 'the renamed signature gets its new %s' % a)
            else:
                ctx.finding(f, None, '%s does not set %s on the renamed '
                            'signature' % (q, a), key='rename-no-%s' % a)
        # works on a clone (the old object may still be referenced)
        if any(isinstance(c, ast.Call) and call_name(c) == 'clone'
               for c in walk_no_nested(f.node)):
            ctx.ok(f, 'the renamed entry is a clone of the old one')
        else:
            ctx.finding(f, None, '%s renames the shared signature object in '
                        'place' % q, key='rename-no-clone')


def r5_applabel_target(ctx):
    """After RenameAppLabel the moved models must live in a signature whose
    app_id is the new label."""
    ctx.rule('R-C11.5')
    p = ctx.program
    f = p.func('mutations.rename_app_label', 'RenameAppLabel.simulate')
    g = ctx.cfg(f)
    from ..flow import ReachingDefs
    rd = ReachingDefs(g, f.params)
    moves = [(n, c) for n in g.nodes for c in n.calls()
             if call_name(c) == 'add_model_sig']
    if not moves:
        ctx.finding(f, None, 'RenameAppLabel.simulate moves no models',
                    key='no-move')
        return
    for n, c in moves:
        recv = c.func.value
        if not isinstance(recv, ast.Name):
            ctx.finding(f, c, 'models are moved into %s' % unparse(recv))
            continue
        defs = rd.reaching(n, recv.id)
        bad = [d for d in defs if not (
            d.value is not None and isinstance(d.value, ast.Call) and
            call_name(d.value) == 'AppSignature' and
            kwarg(d.value, 'app_id') is not None and
            'new_app_label' in unparse(kwarg(d.value, 'app_id')))]
        if defs and not bad:
            ctx.ok(f, 'moved models go into AppSignature(app_id='
                   'new_app_label)', c)
        else:
            ctx.finding(f, c, 'the signature receiving the moved models can '
                        'be %s instead of a signature created with '
                        'app_id=new_app_label: a lookup that also matches '
                        'legacy labels can return an app stored under '
                        'another id, leaving every rewritten reference '
                        '"new.Model" dangling' % (
                            unparse(bad[0].value) if bad and
                            bad[0].value is not None else 'undefined'),
                        key='target-not-new-label')
    adds = [c for n in g.nodes for c in n.calls()
            if call_name(c) == 'add_app_sig']
    if adds:
        ctx.ok(f, 'the new app signature is added to the project', adds[0])
    else:
        ctx.finding(f, None, 'the new app signature is never added to the '
                    'project signature', key='no-add-app-sig')


def r6_exact_app_lookup(ctx):
    """Every rename resolves the app it works on through
    ProjectSignature.get_app_sig: an app whose *current* id is X must win
    over another app whose *legacy* label is X, otherwise a RenameModel for
    app X renames the model of the other app and rewrites references to the
    wrong target (shared with R-C15.5)."""
    from .c15 import r5_exact_lookup_first
    r5_exact_lookup_first(ctx, rule_id='R-C11.6')


def r7_fk_references_live_column(ctx):
    """Foreign keys generated or rebuilt after a rename must reference the
    related model's *current* primary key column: the REFERENCES clause is
    built from the related primary key field's `.column` (shared with
    R-C01.10), not from a name recorded elsewhere that renames do not keep up
    to date."""
    from .c01 import r10_quoted_identifiers
    r10_quoted_identifiers(ctx, rule_id='R-C11.7')


# Column layout of the SQLite PRAGMA result sets the backend reads
# (https://www.sqlite.org/pragma.html); stable since SQLite 3.6.19 / 3.8.9.
PRAGMA_LAYOUT = {
    'foreign_key_list': ['id', 'seq', 'table', 'from', 'to', 'on_update',
                         'on_delete', 'match'],
    'index_list': ['seq', 'name', 'unique', 'origin', 'partial'],
    'index_info': ['seqno', 'cid', 'name'],
}


def _pragma_of(call):
    if not (isinstance(call, ast.Call) and call_name(call) == 'execute' and
            call.args):
        return None
    for x in ast.walk(call.args[0]):
        if isinstance(x, ast.Constant) and isinstance(x.value, str) and \
                x.value.upper().startswith('PRAGMA '):
            name = x.value[7:].split('(')[0].split(';')[0].split('=')[0]
            return name.strip().lower()
    return None


def r8_pragma_row_layout(ctx):
    """The SQLite backend finds out whether a column is referenced by other
    tables (and has to rewrite their REFERENCES clauses after a rename on
    SQLite < 3.26) from `PRAGMA foreign_key_list`, and reads index state from
    `PRAGMA index_list` / `index_info`.  The rows are plain tuples: which
    position is compared with / stored as what must agree with SQLite's
    documented layout (foreign_key_list: 2 = referenced table, 3 = the
    referencing column, 4 = the referenced column)."""
    ctx.rule('R-C11.8')
    p = ctx.program
    from ..util import through_copies
    m = p.module('db.sqlite3')
    n_reads = 0
    for f in m.all_funcs():
        # row sources in source order: for loops and comprehension generators
        # over cursor.fetchall(); the pragma is the last one executed before
        # (or inside) the iterable
        events = []
        for n in walk_no_nested(f.node):
            pr = _pragma_of(n) if isinstance(n, ast.Call) else None
            if pr:
                events.append((n.lineno, n.col_offset, 'pragma', pr, n))
            if isinstance(n, ast.For) and isinstance(n.target, ast.Name):
                events.append((n.iter.lineno, n.iter.col_offset, 'rows',
                               n.target.id, (n.iter, n)))
            if isinstance(n, (ast.ListComp, ast.GeneratorExp, ast.SetComp,
                              ast.DictComp)):
                for gen in n.generators:
                    if isinstance(gen.target, ast.Name):
                        events.append((gen.iter.lineno, gen.iter.col_offset,
                                       'rows', gen.target.id, (gen.iter, n)))
        events.sort(key=lambda e: (e[0], e[1]))
        last = None
        sources = []   # (row var, scope node, pragma)
        for _l, _c, kind, val, node in events:
            if kind == 'pragma':
                last = val
            else:
                it, scope = node
                if any(isinstance(c, ast.Call) and
                       call_name(c) in ('fetchall', 'fetchmany')
                       for c in ast.walk(it)) and last:
                    sources.append((val, scope, last))
        params = [x for x in f.params if x != 'self']
        for row, scope, pragma in sources:
            layout = PRAGMA_LAYOUT.get(pragma)
            if layout is None:
                continue
            bound = {}
            for st in ast.walk(scope):
                if isinstance(st, ast.Assign) and len(st.targets) == 1:
                    t, v = st.targets[0], st.value
                    if isinstance(v, ast.Subscript) and \
                            isinstance(v.value, ast.Name) and \
                            v.value.id == row:
                        sl = v.slice
                        if isinstance(sl, ast.Constant) and \
                                isinstance(t, ast.Name):
                            bound[t.id] = sl.value
                        elif isinstance(sl, ast.Slice) and \
                                isinstance(t, (ast.Tuple, ast.List)):
                            lo = sl.lower.value if isinstance(
                                sl.lower, ast.Constant) else 0
                            for k, e in enumerate(t.elts):
                                if isinstance(e, ast.Name):
                                    bound[e.id] = lo + k
                    elif isinstance(v, ast.Name) and v.id == row and \
                            isinstance(t, (ast.Tuple, ast.List)):
                        for k, e in enumerate(t.elts):
                            if isinstance(e, ast.Name):
                                bound[e.id] = k

            def col_indices(e):
                """column positions of the row that e is computed from"""
                out = []
                for x in ast.walk(e):
                    if isinstance(x, ast.Subscript) and \
                            isinstance(x.value, ast.Name) and \
                            x.value.id == row and \
                            isinstance(x.slice, ast.Constant):
                        out.append(x.slice.value)
                    elif isinstance(x, ast.Name) and x.id in bound:
                        out.append(bound[x.id])
                    elif isinstance(x, ast.Name) and x.id != row:
                        v = through_copies(f, x)
                        if v is not x:
                            out.extend(col_indices(v))
                return out

            def expect(e, role, node, what):
                nonlocal n_reads
                for i in col_indices(e):
                    n_reads += 1
                    have = layout[i] if 0 <= i < len(layout) else '?'
                    if have == role:
                        ctx.ok(f, 'PRAGMA %s: column %d (%s) used as %s' % (
                            pragma, i, have, what), node)
                    else:
                        ctx.finding(
                            f, node, '%s reads column %d of a PRAGMA %s row '
                            'as %s, but that column is "%s" (%s is column '
                            '%d): %s' % (
                                f.qualname, i, pragma, what, have, role,
                                layout.index(role),
                                'the referenced column is compared with the '
                                'referencing table\'s own column name, so '
                                'references to a renamed column are never '
                                'found and never rewritten'
                                if pragma == 'foreign_key_list' else
                                'the index state read from the database is '
                                'wrong'),
                            key='pragma-column:%s:%s' % (pragma, role))
            # a comprehension over the rows that is itself a dict value
            if isinstance(scope, (ast.ListComp, ast.GeneratorExp)) and \
                    pragma == 'index_info':
                for d in walk_no_nested(f.node):
                    if isinstance(d, ast.Dict):
                        for k, v in zip(d.keys, d.values):
                            if v is scope and const_str(k) == 'columns':
                                expect(scope.elt, 'name', d,
                                       'the column name')
            for n in ast.walk(scope):
                if isinstance(n, ast.Compare) and len(n.ops) == 1 and \
                        isinstance(n.ops[0], (ast.Eq, ast.NotEq)) and \
                        pragma == 'foreign_key_list':
                    sides = [n.left, n.comparators[0]]
                    for a_, b_ in (sides, sides[::-1]):
                        if isinstance(a_, ast.Name) and a_.id in params:
                            if 'table' in a_.id:
                                expect(b_, 'table', n, 'the referenced table '
                                       '(compared with %s)' % a_.id)
                            elif 'col' in a_.id:
                                expect(b_, 'to', n, 'the referenced column '
                                       '(compared with %s)' % a_.id)
                if isinstance(n, ast.Dict):
                    for k, v in zip(n.keys, n.values):
                        if const_str(k) == 'unique' and \
                                pragma == 'index_list':
                            expect(v, 'unique', n, 'the unique flag')
                        if const_str(k) == 'columns' and \
                                pragma == 'index_info' and \
                                isinstance(v, (ast.ListComp,
                                               ast.GeneratorExp)):
                            expect(v.elt, 'name', n, 'the column name')
                if isinstance(n, ast.Call) and call_name(n) == 'append' and \
                        pragma == 'index_info' and n.args and \
                        'columns' in unparse(n.func):
                    expect(n.args[0], 'name', n, 'the column name')
                if isinstance(n, ast.Call) and \
                        _pragma_of(n) == 'index_info' and \
                        pragma == 'index_list':
                    expect(n.args[0], 'name', n, 'the index name')
    ctx.floor('PRAGMA row columns read by role in db.sqlite3', n_reads, 5)


def r10_rename_chain_readers_agree(ctx):
    """The optimiser records the RenameModel mutations of a model as a chain
    (built while scanning the batch backwards, so element 0 is the *last*
    rename and carries the final name).  Every place that reads the final
    name from a chain (`<info>['mutations'][k].new_model_name`) must use the
    same element as the RenameModel branch that collapses the chain; another
    index names an intermediate model, and an AddField(ForeignKey) placed
    before the chain is lowered against a model that never exists."""
    ctx.rule('R-C11.10')
    p = ctx.program
    f = p.func('mutators.app_mutator', 'AppMutator._process_mutation_batch')
    from ..util import unit
    sites = []
    for fn in unit(ctx, f):
        idx_of = {}
        for n in walk_no_nested(fn.node):
            if isinstance(n, ast.Assign) and len(n.targets) == 1 and \
                    isinstance(n.targets[0], ast.Name) and \
                    isinstance(n.value, ast.Subscript):
                v = n.value
                k = v.slice
                if isinstance(k, ast.UnaryOp) and \
                        isinstance(k.op, ast.USub) and \
                        isinstance(k.operand, ast.Constant):
                    kval = -k.operand.value
                elif isinstance(k, ast.Constant):
                    kval = k.value
                else:
                    continue
                base = v.value
                chain = (isinstance(base, ast.Subscript) and
                         const_str(base.slice) == 'mutations') or (
                    isinstance(base, ast.Name) and 'rename' in base.id)
                if chain and isinstance(kval, int):
                    idx_of.setdefault(n.targets[0].id, []).append((kval, n))
        for n in walk_no_nested(fn.node):
            if isinstance(n, ast.Attribute) and n.attr == 'new_model_name' \
                    and isinstance(n.ctx, ast.Load) and \
                    isinstance(n.value, ast.Name) and n.value.id in idx_of:
                for kval, asg in idx_of[n.value.id]:
                    sites.append((fn, kval, asg))
    ctx.floor('reads of the final name from a rename chain', len(sites), 2)
    ks = {k for _f, k, _a in sites}
    if len(ks) == 1:
        ctx.ok(f, 'every reader of a rename chain takes the final name from '
               'element %d' % ks.pop())
    else:
        from collections import Counter
        common = Counter(k for _f, k, _a in sites).most_common(1)[0][0]
        for fn, k, asg in sites:
            if k != common:
                ctx.finding(fn, asg, 'this reader takes the final model name '
                            'from element %d of the rename chain, the others '
                            'from element %d: for a chain of two or more '
                            'RenameModels it sees an intermediate name' % (
                                k, common), key='chain-index-disagrees')


def r11_rejection_is_not_cannot_simulate(ctx):
    from .c12 import r14_rejection_is_not_cannot_simulate
    r14_rejection_is_not_cannot_simulate(ctx, rule_id='R-C11.11')


def r12_simulation_resolves_its_own_app_first(ctx):
    """Every model-level simulation (RenameModel, RenameField, DeleteField,
    DeleteModel ...) works on Simulation.get_app_sig() and rewrites
    references built from simulation.app_label.  The two agree only if the
    signature it works on is the one stored under app_label whenever there
    is one; the legacy label is a fallback for signatures written before the
    app was relabelled.  Looking the legacy label up first hands the
    simulation another app's models when that label is also some other
    app's id: the rename happens there and the references are rewritten
    here."""
    ctx.rule('R-C11.12')
    p = ctx.program
    f = p.func('mutations.base', 'Simulation.get_app_sig')
    g = ctx.cfg(f)
    own, legacy = [], []
    for n in g.nodes:
        for c in n.calls():
            if call_name(c) != 'get_app_sig' or not c.args:
                continue
            if is_self_attr(c.args[0], 'app_label'):
                own.append((n, c))
            elif is_self_attr(c.args[0], 'legacy_app_label'):
                legacy.append((n, c))
    ctx.floor('lookups by app_label in Simulation.get_app_sig', len(own), 1)
    for ln, lc in legacy:
        first = False
        for on, oc in own:
            if on is ln:
                if (oc.lineno, oc.col_offset) < (lc.lineno, lc.col_offset):
                    first = True
            elif g.dominates(on, ln, follow_exc=False):
                first = True
        if first:
            ctx.ok(f, 'the legacy label is consulted only after the app '
                   'label', lc)
        else:
            ctx.finding(f, lc, 'Simulation.get_app_sig looks the app up by '
                        'its legacy label before (or without) its app '
                        'label: when the legacy label is another app\'s id '
                        'the simulation edits that app while references are '
                        'rewritten for this one', key='legacy-label-first')


def run(ctx):
    r12_simulation_resolves_its_own_app_first(ctx)
    r11_rejection_is_not_cannot_simulate(ctx)
    r10_rename_chain_readers_agree(ctx)
    r8_pragma_row_layout(ctx)
    r7_fk_references_live_column(ctx)
    r6_exact_app_lookup(ctx)
    r5_applabel_target(ctx)
    r1_reference_shape(ctx)
    r2_rewrite_loops(ctx)
    r3_optimiser_follows_renames(ctx)
    r4_both_ends(ctx)
