"""C09 - execution order respects every evolution/migration dependency."""
from __future__ import annotations

import ast
from typing import Dict, List, Set

from .. import determinism
from ..program import (AnalysisError, Func, call_name, const_str, dotted,
                       kwarg, norm_key, unparse, walk_no_nested)
from ..util import (is_self_attr, nodes_with_call, subscript_const,
                    through_copies)

EXPLANATION = (
    'Decided clauses: R-C09.1 every add_dependency call site passes its '
    'arguments in the right direction (a "before" requirement makes the '
    'current node the dependency of the target, an "after" requirement the '
    'other way round; sequence chaining and migration parents make the '
    'earlier unit the dependency); R-C09.2 the four dependency keys and the '
    'module attributes AFTER_/BEFORE_ x EVOLUTIONS/MIGRATIONS agree between '
    'producers and the graph consumers; R-C09.3 ties are broken '
    'deterministically (every set-typed edge container is iterated through '
    'sorted(key=insert_index)); R-C09.4 get_ordered emits every node at most '
    'once (append guarded by the result set, which is updated); R-C09.5 '
    'requirements that cannot all be met are reported by get_ordered: a '
    'raise guarded by membership of a scheduled dependency in the walk\'s '
    'in-progress set (cycle reachable from a leaf) and a raise guarded by a '
    'comparison of the emitted nodes with the node table that dominates '
    'every return (cycle no leaf reaches); R-C09.6 grouping the ordered nodes into execution '
    'batches preserves their order (no regrouping by task across '
    'interleaved nodes); R-C09.7 every mapping attribute of the graph classes '
    'is filled and probed with the same kind of key (app object vs app label '
    'vs node key); R-C09.8 the applied evolutions / migrations that prune '
    'the graph are read from the database being evolved; '
    'R-C09.9 app-level before-requirements attach to the app\'s __last__ anchor and after-requirements to its __first__ anchor (reaching definitions of the node argument in EvolutionGraph.add_evolutions); '
    'R-C09.1 sequence chaining is decided by data flow (the freshly created unit depends on the carried-over one); R-C09.10 mutation-generated requirements are merged per key into the declared ones, never assigned over them.'
    ' '
    'R-C09.11 the loops registering the four kinds of declared requirements are not nested in one another.'
    ' '
    'R-C09.1 follows single-assignment copies of the key arguments; R-C09.12 no add_dependency call of EvolutionGraph is conditional on what the graph already contains.'
    ' '
    "R-C09.5 classifies the walk's sets on the CFG within one iteration: the in-progress set is the one marked before the dependencies are scanned."
    ' '
    'R-C09.13 = R-C08.5.'
    ' '
    'R-C09.14 MoveToDjangoMigrations.generate_dependencies builds after_migrations from the whole of self.mark_applied (no slice, subscript, filter or early exit).')
NOT_DECIDED = (
    'Correctness of the topological sort on all graphs, and the behaviour '
    'of Django\'s own migration planner.')
TECHNIQUE = ('argument-direction table over all add_dependency call sites '
             '(data dependence on the loop variable vs the current node), '
             'key-vocabulary agreement, order-taint (determinism engine), '
             'guarded-append pairing, guard provenance of the two cycle-error '
             'raises plus CFG dominance over the returns, '
             'order-preserving regroup check')
LEVEL_NOTE = ('Trusted: Python ast, CFG; the direction rule identifies the '
              'current node by the local bound from node.key / node.')

G = 'utils.graph'
DEP_KEYS = {'after_evolutions', 'after_migrations', 'before_evolutions',
            'before_migrations'}


def _chain_direction(ctx, m, call, nk, dk):
    """'forward' when node_key names a unit created right here (all reaching
    definitions are creation calls) and dep_node_key names the carried-over
    previous unit (all reaching definitions are copies of another node
    variable); 'reversed' for the opposite; None otherwise."""
    from ..flow import ReachingDefs
    if not (isinstance(nk, ast.Attribute) and isinstance(dk, ast.Attribute)
            and nk.attr == 'key' and dk.attr == 'key' and
            isinstance(nk.value, ast.Name) and isinstance(dk.value, ast.Name)):
        return None
    g = ctx.cfg(m)
    rd = ReachingDefs(g, m.params)
    node = next((n for n in g.nodes if call in n.calls()), None)
    if node is None:
        return None

    def kind(name):
        kinds = set()
        for d in rd.reaching(node, name):
            if d.kind == 'mutate':
                continue
            v = d.value
            if isinstance(v, ast.Call):
                kinds.add('created')
            elif isinstance(v, ast.Name):
                kinds.add('copied')
            else:
                kinds.add('?')
        return kinds
    a, b = kind(nk.value.id), kind(dk.value.id)
    if nk.value.id == dk.value.id:
        return None
    if a == {'created'} and b == {'copied'}:
        return 'forward'
    if a == {'copied'} and b == {'created'}:
        return 'reversed'
    return None


def r1_edge_direction(ctx):
    ctx.rule('R-C09.1')
    p = ctx.program
    cls = p.cls(G, 'EvolutionGraph')
    sites = []
    for m in cls.methods.values():
        for c in walk_no_nested(m.node):
            if isinstance(c, ast.Call) and call_name(c) == 'add_dependency' \
                    and is_self_attr(c.func):
                sites.append((m, c))
    ctx.floor('add_dependency call sites in EvolutionGraph', len(sites), 8)
    for m, c in sites:
        nk, dk = kwarg(c, 'node_key'), kwarg(c, 'dep_node_key')
        if nk is None or dk is None:
            if len(c.args) == 2:
                nk, dk = c.args
            else:
                ctx.finding(m, c, 'add_dependency call without both keys')
                continue
        # enclosing loop
        loop = None
        for l in walk_no_nested(m.node):
            if isinstance(l, ast.For) and c in list(ast.walk(l)):
                loop = l
        loop_vars = {x.id for x in ast.walk(loop.target)
                     if isinstance(x, ast.Name)} if loop is not None else set()
        it = unparse(loop.iter) if loop is not None else ''
        from ..util import expand_expr
        nk_names = {x.id for e in (nk, expand_expr(m, nk))
                    for x in ast.walk(e) if isinstance(x, ast.Name)}
        dk_names = {x.id for e in (dk, expand_expr(m, dk))
                    for x in ast.walk(e) if isinstance(x, ast.Name)}
        # current node: 'key' (bound from node.key) or node.key
        cur_nk = 'key' in nk_names or unparse(nk) == 'node.key'
        cur_dk = 'key' in dk_names or unparse(dk) == 'node.key'
        tgt_nk = bool(nk_names & loop_vars)
        tgt_dk = bool(dk_names & loop_vars)
        if "'before_" in it or 'before_' in it and 'deps' in it:
            if cur_dk and tgt_nk and not cur_nk:
                ctx.ok(m, '"before" requirement: the target depends on the '
                       'current node', c)
            else:
                ctx.finding(m, c, '"before" requirement with reversed edge: '
                            'node_key=%s dep_node_key=%s' % (unparse(nk),
                                                             unparse(dk)))
        elif 'after_' in it and 'deps' in it:
            if cur_nk and tgt_dk and not cur_dk:
                ctx.ok(m, '"after" requirement: the current node depends on '
                       'the target', c)
            else:
                ctx.finding(m, c, '"after" requirement with reversed edge: '
                            'node_key=%s dep_node_key=%s' % (unparse(nk),
                                                             unparse(dk)))
        elif m.name == 'add_migration_plan' and tgt_dk and not tgt_nk:
            ctx.ok(m, 'migration parents become dependencies of the '
                   'migration', c)
        elif _chain_direction(ctx, m, c, nk, dk) == 'forward':
            ctx.ok(m, 'sequence chaining: the later unit depends on the '
                   'previous one', c)
        elif _chain_direction(ctx, m, c, nk, dk) == 'reversed':
            ctx.finding(m, c, 'sequence chaining with reversed edge: the '
                        'freshly created unit (%s) is made a dependency of '
                        'the previous one (%s)' % (unparse(dk), unparse(nk)))
        else:
            ctx.finding(m, c, 'add_dependency(node_key=%s, dep_node_key=%s) '
                        'does not match any known direction pattern: the '
                        'earlier unit must be the dependency' % (
                            unparse(nk), unparse(dk)))
    # add_dependency itself records (node, dep) and finalize wires
    # node.dependencies.add(dep_node)
    fin = p.func(G, 'DependencyGraph.finalize')
    txt = unparse(fin.node)
    if 'node.dependencies.add(dep_node)' in txt and \
            'dep_node.required_by.add(node)' in txt:
        ctx.ok(fin, 'finalize wires node.dependencies / dep.required_by in '
               'the recorded direction')
    else:
        ctx.finding(fin, None, 'finalize no longer wires dependencies in the '
                    'recorded direction', key='finalize-direction')
    ad = p.func(G, 'DependencyGraph.add_dependency')
    tup = [t for t in walk_no_nested(ad.node) if isinstance(t, ast.Tuple) and
           len(t.elts) == 2 and all(isinstance(e, ast.Name) for e in t.elts)]
    if tup and [e.id for e in tup[-1].elts] == ['node_key', 'dep_node_key']:
        ctx.ok(ad, 'pending dependencies are stored as (node_key, '
               'dep_node_key)')
    else:
        ctx.finding(ad, None, 'add_dependency stores its pair in a different '
                    'order than finalize unpacks', key='pair-order')
    lp = [l for l in walk_no_nested(fin.node) if isinstance(l, ast.For)]
    if lp and unparse(lp[0].target) in ('(node_key, dep_node_key)',
                                        'node_key, dep_node_key'):
        ctx.ok(fin, 'finalize unpacks (node_key, dep_node_key)')
    else:
        ctx.finding(fin, None, 'finalize unpacks pending dependencies in a '
                    'different order', key='unpack-order')


def r2_key_vocabulary(ctx):
    ctx.rule('R-C09.2')
    p = ctx.program
    for q in ('get_evolution_dependencies', 'get_evolution_app_dependencies'):
        f = p.func('utils.evolutions', q)
        pairs = {}
        keys = set()
        for d in walk_no_nested(f.node, include_lambda=True):
            if isinstance(d, ast.Dict):
                for k, v in zip(d.keys, d.values):
                    ks = const_str(k) if k is not None else None
                    if ks in DEP_KEYS:
                        keys.add(ks)
                        for c in ast.walk(v):
                            if isinstance(c, ast.Call) and \
                                    call_name(c) == 'getattr' and \
                                    len(c.args) >= 2 and \
                                    const_str(c.args[1]):
                                pairs[ks] = const_str(c.args[1])
            if isinstance(d, (ast.Tuple, ast.List)) and d.elts and all(
                    const_str(e) in DEP_KEYS for e in d.elts):
                keys |= {const_str(e) for e in d.elts}
        if keys == DEP_KEYS:
            ctx.ok(f, '%s produces exactly the four dependency keys' % q)
        else:
            ctx.finding(f, None, '%s produces keys %s, expected %s' % (
                q, sorted(keys), sorted(DEP_KEYS)),
                key='keys:%s' % sorted(keys ^ DEP_KEYS))
        for k, attr in sorted(pairs.items()):
            if attr == k.upper():
                ctx.ok(f, 'module attribute %s feeds key %r' % (attr, k))
            else:
                ctx.finding(f, None, 'module attribute %s feeds key %r: '
                            'declared %s requirements are applied as %s' % (
                                attr, k, attr.lower(), k),
                            key='attr-key:%s:%s' % (attr, k))
        if len(pairs) < 4:
            ctx.finding(f, None, '%s reads only %d of the four module '
                        'attributes' % (q, len(pairs)), key='attr-count')
    cls = p.cls(G, 'EvolutionGraph')
    consumed = set()
    for mname in ('_add_evolution_node_before_deps',
                  '_add_evolution_node_after_deps'):
        m = cls.methods[mname]
        want_prefix = 'before_' if 'before' in mname else 'after_'
        for n in walk_no_nested(m.node):
            k = None
            if isinstance(n, ast.Subscript) and 'deps' in unparse(n.value):
                k = subscript_const(n)
            if isinstance(n, ast.Call) and call_name(n) == 'get' and \
                    'deps' in unparse(n.func.value) and n.args:
                k = const_str(n.args[0])
            if k:
                consumed.add(k)
                if not k.startswith(want_prefix):
                    ctx.finding(m, n, '%s consumes key %r' % (mname, k))
    if consumed == DEP_KEYS:
        ctx.ok(('django_evolution.utils.graph', 'EvolutionGraph'),
               'the graph consumes exactly the four dependency keys')
    else:
        ctx.finding(('django_evolution.utils.graph', 'EvolutionGraph'), None,
                    'the graph consumes %s, producers emit %s' % (
                        sorted(consumed), sorted(DEP_KEYS)),
                    key='consumed:%s' % sorted(consumed ^ DEP_KEYS))
    # process flags gate the right families
    for mname in ('_add_evolution_node_before_deps',
                  '_add_evolution_node_after_deps'):
        m = cls.methods[mname]
        g = ctx.cfg(m)
        for fam, flag in (('evolutions', 'process_evolution_deps'),
                          ('migrations', 'process_migration_deps')):
            loops = [h for h in g.nodes if h.kind == 'for' and
                     fam in unparse(h.ast.iter)]
            tests = [t for t in g.nodes if t.kind == 'test' and
                     is_self_attr(t.ast, flag)]
            if loops and tests and all(any(g.guarded_by(h, t, 'T')
                                           for t in tests) for h in loops):
                ctx.ok(m, '%s requirements are processed under self.%s' % (
                    fam, flag))
            else:
                ctx.finding(m, None, '%s requirements in %s are not gated by '
                            'self.%s' % (fam, mname, flag),
                            key='flag:%s:%s' % (mname, fam))
    mv = p.func('mutations.move_to_django_migrations',
                'MoveToDjangoMigrations.generate_dependencies')
    keys = {const_str(k) for d in walk_no_nested(mv.node)
            if isinstance(d, ast.Dict) for k in d.keys if k is not None}
    if keys == {'after_migrations'}:
        ctx.ok(mv, 'MoveToDjangoMigrations requires its evolution after the '
               'migrations it marks applied')
    else:
        ctx.finding(mv, None, 'MoveToDjangoMigrations.generate_dependencies '
                    'emits %s' % sorted(k for k in keys if k),
                    key='move-deps')
    ged = p.func('utils.evolutions', 'get_evolution_dependencies')
    if 'generate_dependencies' in unparse(ged.node) and \
            'assert key in deps' in unparse(ged.node):
        ctx.ok(ged, 'mutation-generated dependencies are merged into the '
               'same keys (unknown keys asserted)')
    else:
        ctx.finding(ged, None, 'mutation-generated dependencies are no '
                    'longer merged/validated', key='mutation-deps')


def r3_tie_break(ctx):
    ctx.rule('R-C09.3')
    determinism.run_rule(
        ctx, lambda f: f.module.name.endswith('utils.graph'), floor=2,
        what='set-iteration sites in utils.graph')
    p = ctx.program
    go = p.func(G, 'DependencyGraph.get_ordered')
    sorts = [c for c in walk_no_nested(go.node, include_lambda=True)
             if isinstance(c, ast.Call) and call_name(c) == 'sorted' and
             'dependencies' in unparse(c.args[0])]
    if sorts and all('insert_index' in unparse(kwarg(c, 'key') or
                                               ast.Constant(None))
                     for c in sorts):
        ctx.ok(go, 'dependencies are visited in insert_index order', sorts[0])
    else:
        ctx.finding(go, None, 'get_ordered does not visit dependencies in a '
                    'sorted(key=insert_index) order', key='deps-unsorted')
    ln = p.func(G, 'DependencyGraph.get_leaf_nodes')
    if any(isinstance(c, ast.Call) and call_name(c) == 'sorted' and
           'insert_index' in unparse(c) for c in walk_no_nested(
               ln.node, include_lambda=True)):
        ctx.ok(ln, 'leaf nodes are ordered by insert_index')
    else:
        ctx.finding(ln, None, 'leaf nodes are not ordered by insert_index',
                    key='leaves-unsorted')
    an = p.func(G, 'DependencyGraph.add_node')
    if 'insert_index=len(self._nodes)' in unparse(an.node):
        ctx.ok(an, 'insert_index is the insertion position (unique)')
    else:
        ctx.finding(an, None, 'insert_index is no longer the unique '
                    'insertion position', key='insert-index')


def r4_exact_once(ctx):
    ctx.rule('R-C09.4')
    p = ctx.program
    f = p.func(G, 'DependencyGraph.get_ordered')
    g = ctx.cfg(f)
    apps = [(n, c) for n, c in nodes_with_call(g, 'append')
            if unparse(c.func.value) == 'result']
    ctx.floor('result.append sites in get_ordered', len(apps), 1)
    for n, c in apps:
        arg = unparse(c.args[0])
        tests = [t for t in g.nodes if t.kind == 'test' and
                 isinstance(t.ast, ast.Compare) and
                 isinstance(t.ast.ops[0], ast.NotIn) and
                 unparse(t.ast.left) == arg and
                 unparse(t.ast.comparators[0]) == 'result_set']
        adds = [m for m in g.nodes for cc in m.calls()
                if call_name(cc) == 'add' and
                unparse(cc.func.value) == 'result_set' and cc.args and
                unparse(cc.args[0]) == arg]
        guarded = any(g.guarded_by(n, t, 'T') for t in tests)
        followed = adds and g.must_pass(n, g.exit, adds, follow_exc=False) \
            is None
        # the add must come before the next append (same iteration)
        if guarded and followed:
            ctx.ok(f, 'append is guarded by "not in result_set" and followed '
                   'by result_set.add', c)
        else:
            ctx.finding(f, c, 'result.append(%s) is %s: a node can be '
                        'emitted twice' % (arg, 'not guarded by the result '
                                           'set' if not guarded else
                                           'not followed by result_set.add'))
    rets = [n for n in g.nodes if n.kind == 'stmt' and
            isinstance(n.ast, ast.Return)]
    if rets and all(unparse(r.ast.value) == 'result' for r in rets):
        ctx.ok(f, 'get_ordered returns the accumulated list')
    # every non-anchor node of the order is put in exactly one batch
    ib = p.func(G, 'EvolutionGraph.iter_batches')
    gb = ctx.cfg(ib)
    apps = [(n, c) for n, c in nodes_with_call(gb, 'append')
            if unparse(c.func.value) == 'batch_nodes']
    conts = [n for n in gb.nodes if n.kind == 'stmt' and
             isinstance(n.ast, ast.Continue)]
    heads = [h for h in gb.nodes if h.kind == 'for']
    ok = len(apps) == 1 and heads
    if ok:
        # from the loop head's T edge, every path back to the head passes the
        # append or the anchor 'continue'
        h = heads[0]
        body_entry = [s for s, l in h.succ if l == 'T']
        via = [apps[0][0]] + conts
        w = gb.path(body_entry[0], h, avoid=via, follow_exc=False)
        if w is None:
            ctx.ok(ib, 'every ordered non-anchor node is appended to a batch')
        else:
            ctx.finding(ib, None, 'a node can be skipped by iter_batches',
                        path=w, key='node-skipped')
    else:
        ctx.finding(ib, None, 'iter_batches no longer appends each node to '
                    'exactly one batch', key='batch-append')
    ys = [n for n in walk_no_nested(ib.node) if isinstance(n, ast.Yield)]
    tail = [y for y in ys if not any(
        isinstance(l, ast.For) and y in list(ast.walk(l))
        for l in walk_no_nested(ib.node))]
    if tail:
        ctx.ok(ib, 'the last batch is yielded after the loop')
    else:
        ctx.finding(ib, None, 'the trailing batch is never yielded',
                    key='no-tail-yield')


def _guards_of(fn, target):
    """Tests of the If statements that enclose *target* in fn (syntactic
    guards, with polarity: True when target is in the body)."""
    out = []

    def rec(stmts, acc):
        for st in stmts:
            if st is target:
                out.extend(acc)
                return True
            if isinstance(st, ast.If):
                if rec(st.body, acc + [(st.test, True)]) or \
                        rec(st.orelse, acc + [(st.test, False)]):
                    return True
            elif isinstance(st, (ast.For, ast.While, ast.With, ast.Try)):
                for blk in ('body', 'orelse', 'finalbody'):
                    if rec(getattr(st, blk, []) or [], acc):
                        return True
                for h in getattr(st, 'handlers', []):
                    if rec(h.body, acc):
                        return True
        return False
    rec(fn.body, [])
    return out


def r5_error_path(ctx):
    """Requirements that cannot all be met (a dependency cycle) are reported.
    Two structural obligations on get_ordered, both necessary:
      (a) back edge: where the walk expands a node and schedules its
          dependencies, a dependency that is itself expanded-but-not-yet-
          emitted (membership in the set the expansion branch adds to) leads
          to a raise;
      (b) completeness: the normal return is preceded by a raise guarded by a
          comparison of what was emitted with the graph's node table (a cycle
          no leaf reaches emits nothing)."""
    ctx.rule('R-C09.5')
    p = ctx.program
    f = p.func(G, 'DependencyGraph.get_ordered')
    fn = f.node
    raises = [n for n in walk_no_nested(fn) if isinstance(n, ast.Raise)]
    ctx.counts['R-C09.5 raise statements in get_ordered'] = len(raises)
    rets = [n for n in walk_no_nested(fn) if isinstance(n, ast.Return) and
            isinstance(n.value, ast.Name)]
    if not rets:
        raise AnalysisError('R-C09.5: get_ordered no longer returns a local')
    result = rets[-1].value.id
    # classify the sets of the walk on the CFG, within one iteration of the
    # worklist loop (paths that do not go through the `while` head):
    #   emitted     - S.add(..) from which the emit (result.append) is
    #                 reachable, or which is reachable from it
    #   in-progress - S.add(..) from which the scan of `.dependencies` is
    #                 reachable (the node is marked *before* its dependencies
    #                 are looked at) and the emit is not
    dep_sites = [n for n in walk_no_nested(fn)
                 if isinstance(n, ast.Attribute) and n.attr == 'dependencies']
    if not dep_sites:
        raise AnalysisError('R-C09.5: get_ordered no longer reads '
                            '.dependencies')
    g = ctx.cfg(f)
    heads = [n for n in g.nodes if isinstance(n.stmt, ast.While)
             and n.kind in ('test', 'operand', 'loop', 'while')]
    if not heads:
        heads = [n for n in g.nodes if isinstance(n.stmt, ast.While)]
    dep_nodes = [n for n in g.nodes
                 if any(d is x for d in dep_sites for x in n.walk())]
    emit_nodes = [n for n in g.nodes if any(
        call_name(c) == 'append' and isinstance(c.func, ast.Attribute) and
        isinstance(c.func.value, ast.Name) and c.func.value.id == result
        for c in n.calls())]
    emitted, in_progress = {result}, set()
    for n in g.nodes:
        for c in n.calls():
            if not (call_name(c) == 'add' and
                    isinstance(c.func, ast.Attribute) and
                    isinstance(c.func.value, ast.Name)):
                continue
            name = c.func.value.id
            fwd = g.reachable([s_ for s_, _l in n.succ], avoid=heads,
                              follow_exc=False)
            to_emit = any(e.id in fwd or e is n for e in emit_nodes)
            from_emit = any(
                n.id in g.reachable([s_ for s_, _l in e.succ], avoid=heads,
                                    follow_exc=False) for e in emit_nodes)
            to_deps = any(d.id in fwd for d in dep_nodes)
            if to_emit or from_emit:
                emitted.add(name)
            elif to_deps:
                in_progress.add(name)
    in_progress -= emitted
    ctx.counts['R-C09.5 in-progress sets of the walk'] = len(in_progress)

    def mentions(expr, names):
        return any(isinstance(x, ast.Name) and x.id in names
                   for x in ast.walk(expr))

    def is_attr(expr, attr):
        return any(isinstance(x, ast.Attribute) and x.attr == attr
                   for x in ast.walk(expr))

    back_edge = None
    complete = None
    for r in raises:
        for test, pol in _guards_of(fn, r):
            if not pol:
                continue
            for c in ast.walk(test):
                if not isinstance(c, ast.Compare) or len(c.ops) != 1:
                    continue
                left, op, right = c.left, c.ops[0], c.comparators[0]
                if isinstance(op, ast.In) and isinstance(right, ast.Name) \
                        and right.id in in_progress:
                    back_edge = r
                sides = [through_copies(f, left), through_copies(f, right)]
                em = [mentions(x, emitted) for x in sides]
                nd = [is_attr(x, '_nodes') for x in sides]
                if isinstance(op, ast.NotEq) and \
                        ((em[0] and nd[1]) or (em[1] and nd[0])):
                    complete = r
                if isinstance(op, ast.Lt) and em[0] and nd[1]:
                    complete = r
                if isinstance(op, ast.Gt) and em[1] and nd[0]:
                    complete = r
    if back_edge is not None:
        ctx.ok(f, 'a dependency that is still being expanded (an ancestor '
               'in the walk) raises', back_edge)
    else:
        ctx.finding(f, None, 'get_ordered schedules the dependencies of a '
                    'node without an error path for a dependency that is '
                    'itself still waiting on its dependencies (a cycle '
                    'reachable from a leaf): the nodes are emitted in an '
                    'order that breaks a requirement',
                    key='no-cycle-error')
    if complete is not None:
        # it must not be bypassed: every normal return comes after it
        g = ctx.cfg(f)
        ifn = next(t for t, _ in [(x, 0) for x in walk_no_nested(fn)
                                  if isinstance(x, ast.If) and
                                  complete in list(ast.walk(x))])
        bypass = False
        for ret in [n for n in walk_no_nested(fn)
                    if isinstance(n, ast.Return)]:
            rn = next((x for x in g.nodes if x.stmt is ret), None)
            tn = next((x for x in g.nodes if x.stmt is ifn and
                       x.kind in ('if', 'test', 'branch')), None) or \
                next((x for x in g.nodes if x.stmt is ifn), None)
            if rn is not None and tn is not None and \
                    not g.dominates(tn, rn):
                bypass = True
        if bypass:
            ctx.finding(f, complete, 'a return of get_ordered is not '
                        'preceded by the emitted-vs-known-nodes check',
                        key='completeness-check-bypassed')
        else:
            ctx.ok(f, 'the normal return is preceded by a raise when fewer '
                   'nodes were emitted than the graph holds', complete)
    else:
        ctx.finding(f, None, 'get_ordered returns without comparing what it '
                    'emitted with the graph\'s node table: a cycle that no '
                    'leaf node reaches is silently dropped (nothing is '
                    'executed, no error)', key='no-completeness-error')


def r6_batches_preserve_order(ctx):
    ctx.rule('R-C09.6')
    p = ctx.program
    f = p.func('evolve.evolve_app_task', 'EvolveAppTask._build_batches')
    # accumulation keyed by task over the ordered batch nodes
    loops = [l for l in walk_no_nested(f.node) if isinstance(l, ast.For) and
             unparse(l.iter) == 'batch_nodes']
    regroup = None
    for l in loops:
        for c in ast.walk(l):
            if isinstance(c, ast.Call) and call_name(c) == 'setdefault' and \
                    c.args and isinstance(c.args[0], ast.Name) and \
                    c.args[0].id == 'task':
                regroup = (l, c)
    if regroup is None:
        ctx.ok(f, 'ordered evolution nodes are not regrouped by task')
        return
    l, c = regroup
    # is there a contiguity check (comparison of task with a previous one)?
    contiguous = any(
        isinstance(t, ast.Compare) and 'task' in unparse(t) and
        ('prev' in unparse(t) or 'last' in unparse(t))
        for t in ast.walk(l))
    if contiguous:
        ctx.ok(f, 'per-task accumulation is split when tasks interleave', c)
    else:
        ctx.finding(f, c, 'the ordered evolution nodes of a batch are '
                    'regrouped per task (%s) and executed task by task: when '
                    'evolutions of different apps interleave in the '
                    'dependency order (a1, b1, a2) the later evolution of '
                    'the first task runs before the one it depends on' %
                    norm_key(c), key='regroup-by-task')
    # execution iterates that mapping in insertion order
    ex = p.func('evolve.evolve_app_task', 'EvolveAppTask.execute_tasks')
    if any(isinstance(c2, ast.Call) and call_name(c2) in ('iteritems',
                                                          'items') and
           'task_evolutions' in unparse(c2) for c2 in
           walk_no_nested(ex.node)):
        ctx.ok(ex, 'execute_tasks runs the batch entries in their stored '
               'order')
    else:
        ctx.finding(ex, None, 'execute_tasks no longer iterates '
                    'task_evolutions in order', key='exec-order')
    # batches themselves are executed in list order
    heads = [l2 for l2 in walk_no_nested(ex.node) if isinstance(l2, ast.For)
             and unparse(l2.iter) == 'batches']
    if heads:
        ctx.ok(ex, 'batches are executed in list order', heads[0])
    else:
        ctx.finding(ex, None, 'execute_tasks does not iterate batches in '
                    'order', key='batch-order')


def _key_kind(e) -> str:
    t = unparse(e)
    last = t.split('.')[-1]
    if last.endswith('label') or last.endswith('_name') or \
            isinstance(e, ast.BinOp) or 'make_' in t and 'key' in t:
        return 'label/str'
    if last == 'app' or last.endswith('_app') or last == 'app_config':
        return 'app object'
    if last == 'task':
        return 'task object'
    if last.endswith('key'):
        return 'node key'
    return 'other'


def r7_mapping_key_kinds(ctx):
    """A mapping attribute must be filled and probed with the same kind of
    key (app module vs app label, node key vs node ...)."""
    ctx.rule('R-C09.7')
    p = ctx.program
    n = 0
    for cname in ('DependencyGraph', 'EvolutionGraph'):
        cls = p.cls(G, cname)
        uses = {}
        for m in cls.methods.values():
            for x in walk_no_nested(m.node, include_lambda=True):
                key = attr = None
                if isinstance(x, ast.Subscript) and is_self_attr(x.value):
                    attr, key = x.value.attr, x.slice
                elif isinstance(x, ast.Call) and \
                        isinstance(x.func, ast.Attribute) and \
                        x.func.attr in ('setdefault', 'get', 'pop') and \
                        is_self_attr(x.func.value) and x.args:
                    attr, key = x.func.value.attr, x.args[0]
                elif isinstance(x, ast.Compare) and len(x.ops) == 1 and \
                        isinstance(x.ops[0], (ast.In, ast.NotIn)) and \
                        is_self_attr(x.comparators[0]):
                    attr, key = x.comparators[0].attr, x.left
                if attr and key is not None and attr.startswith('_'):
                    uses.setdefault(attr, []).append((m, x, key))
        for attr, sites in sorted(uses.items()):
            kinds = {}
            for m, x, key in sites:
                kinds.setdefault(_key_kind(key), []).append((m, x, key))
            n += 1
            named = {k: v for k, v in kinds.items() if k != 'other'}
            if len(named) <= 1:
                ctx.ok(('django_evolution.utils.graph', cname),
                       'self.%s is keyed consistently (%s; %d sites)' % (
                           attr, ', '.join(sorted(kinds)), len(sites)))
            else:
                # report the minority site
                minority = sorted(named.items(), key=lambda kv: len(kv[1]))[0]
                m, x, key = minority[1][0]
                ctx.finding(m, x, 'self.%s is filled with %s keys but probed '
                            'with a %s key (%s): the lookup can never match' %
                            (attr, sorted(k for k in named
                                          if k != minority[0])[0],
                             minority[0], unparse(key)),
                            key='key-kind:%s:%s' % (attr, unparse(key)))
    ctx.floor('mapping attributes of the graph classes', n, 2)


def r8_applied_from_evolved_database(ctx):
    """"Requirements on already-applied units are ignored": the applied sets
    must be those of the database being evolved."""
    ctx.rule('R-C09.8')
    p = ctx.program
    f = p.func('evolve.evolve_app_task',
               'EvolveAppTask._build_evolutions_graph')
    calls = [c for c in walk_no_nested(f.node)
             if isinstance(c, ast.Call) and
             call_name(c) == 'get_applied_evolutions']
    marks = [c for c in walk_no_nested(f.node)
             if isinstance(c, ast.Call) and
             call_name(c) == 'mark_evolutions_applied']
    ctx.floor('mark_evolutions_applied calls', len(marks), 1)
    if not calls:
        ctx.finding(f, None, 'the graph is no longer pruned by the applied '
                    'evolutions of each app', key='no-applied-lookup')
    for c in calls:
        db = kwarg(c, 'database') or (c.args[1] if len(c.args) > 1 else None)
        src = unparse(db) if db is not None else None
        ok = False
        if db is not None:
            if 'database_name' in src:
                ok = True
            elif isinstance(db, ast.Name):
                for a in walk_no_nested(f.node):
                    if isinstance(a, ast.Assign) and any(
                            isinstance(t, ast.Name) and t.id == db.id
                            for t in a.targets) and \
                            'database_name' in unparse(a.value):
                        ok = True
        if ok:
            ctx.ok(f, 'applied evolutions are read from the evolver\'s '
                   'database', c)
        else:
            ctx.finding(f, c, 'get_applied_evolutions(%s) does not name the '
                        'database being evolved: on a second database the '
                        'graph is pruned by the default database\'s history '
                        '(pending units lose their ordering edges, applied '
                        'ones keep unmeetable ones)' % unparse(c)[len(
                            'get_applied_evolutions('):-1],
                        key='applied-from-default-db')
    bm = p.func('evolve.evolve_app_task',
                'EvolveAppTask._build_migrations_info')
    ml = [c for c in walk_no_nested(bm.node) if isinstance(c, ast.Call) and
          call_name(c) == 'from_database']
    if ml and all('evolver.connection' in unparse(c) for c in ml):
        ctx.ok(bm, 'applied migrations are read through the evolver\'s '
               'connection', ml[0])
    else:
        ctx.finding(bm, ml[0] if ml else None, 'applied migrations are not '
                    'read from the evolver\'s connection',
                    key='migrations-from-other-db')


def r9_anchor_polarity(ctx):
    """App-level requirements attach to the app's anchors: "this app before
    X" must make X depend on the app's *last* anchor (after every model
    creation and evolution of the app), "this app after X" must make the
    app's *first* anchor depend on X.  Attaching a before-requirement to the
    first anchor keeps every edge and every unit, but only orders X after
    the start of the app."""
    ctx.rule('R-C09.9')
    p = ctx.program
    f = p.func(G, 'EvolutionGraph.add_evolutions')
    g = ctx.cfg(f)
    from ..flow import ReachingDefs
    rd = ReachingDefs(g, f.params)
    want = {'_add_evolution_node_before_deps': '__last__',
            '_add_evolution_node_after_deps': '__first__'}
    seen = 0
    for node in g.nodes:
        for c in node.calls():
            nm = call_name(c)
            if nm not in want or not c.args:
                continue
            seen += 1
            arg = c.args[0]
            anchors = set()
            for on, oe in rd.origins(node, arg):
                if isinstance(oe, ast.Call) and call_name(oe) == 'add_node':
                    k = kwarg(oe, 'key') or (oe.args[0] if oe.args else None)
                    txt = unparse(k) if k is not None else ''
                    anchors.add('__last__' if '__last__' in txt else
                                '__first__' if '__first__' in txt else '?')
                elif isinstance(oe, ast.Call) and call_name(oe) in (
                        '_add_create_model', '_add_evolution'):
                    anchors.add('unit')
            if anchors == {want[nm]}:
                ctx.ok(f, 'app-level %s requirements attach to the %s anchor'
                       % ('before' if 'before' in nm else 'after', want[nm]),
                       c)
            else:
                ctx.finding(f, c, 'app-level %s requirements are attached to '
                            '%s instead of the app\'s %s anchor: the other '
                            'unit is only ordered relative to the %s of the '
                            'app' % ('before' if 'before' in nm else 'after',
                                     sorted(anchors) or ['<unknown>'],
                                     want[nm], 'start' if 'before' in nm
                                     else 'end'),
                            key='anchor:%s' % nm)
    ctx.floor('app-level dependency registrations in add_evolutions', seen, 2)


def r10_mutation_deps_merged(ctx):
    """An evolution's requirements are the ones its module declares *plus*
    the ones its mutations generate (MoveToDjangoMigrations: after the
    migrations it marks as applied).  Folding the generated ones into the
    dict must merge per key; a dict-level update()/assignment replaces the
    declared set under that key and the declared requirement silently
    disappears from the graph."""
    ctx.rule('R-C09.10')
    p = ctx.program
    f = p.func('utils.evolutions', 'get_evolution_dependencies')
    g = ctx.cfg(f)
    from ..flow import ReachingDefs
    rd = ReachingDefs(g, f.params)
    n_folds = 0
    for n in g.nodes:
        for c in n.calls():
            if not (isinstance(c.func, ast.Attribute) and
                    c.func.attr in ('update', '__ior__') and c.args):
                continue
            src = ' '.join(unparse(e) for _, e in rd.origins(n, c.args[0]))
            if 'generate_dependencies' not in src:
                continue
            n_folds += 1
            tgt = c.func.value
            if isinstance(tgt, ast.Subscript):
                ctx.ok(f, 'generated requirements are merged into the '
                       'declared set of their key', c)
            else:
                ctx.finding(f, c, '%s replaces the declared requirement sets '
                            'by the ones a mutation generates (dict-level '
                            'update): an evolution that contains '
                            'MoveToDjangoMigrations loses its own '
                            'AFTER_MIGRATIONS' % ' '.join(unparse(c).split()),
                            key='mutation-deps-overwrite')
        a = n.ast
        if n.kind == 'stmt' and isinstance(a, ast.Assign) and any(
                isinstance(t, ast.Subscript) and
                unparse(t.value) == 'deps' for t in a.targets):
            src = ' '.join(unparse(e) for _, e in rd.origins(n, a.value))
            if 'generate_dependencies' in src and 'deps[' not in \
                    unparse(a.value):
                n_folds += 1
                ctx.finding(f, a, 'deps[...] is assigned (not merged) from '
                            'the requirements a mutation generates',
                            key='mutation-deps-overwrite')
    ctx.floor('folds of mutation-generated requirements', n_folds, 1)


def r11_dependency_kinds_registered_independently(ctx):
    """The four kinds of declared requirements (before/after x
    evolutions/migrations) are independent lists.  A loop that registers the
    edges of one kind must not sit inside the loop over another kind: the
    edge set is a set, so repeating the inner loop is invisible whenever the
    outer list is non-empty - and when it is empty the inner requirements
    are never registered at all (BEFORE_MIGRATIONS without
    BEFORE_EVOLUTIONS)."""
    ctx.rule('R-C09.11')
    p = ctx.program
    m = p.module(G)
    n_loops = 0

    def dep_key(expr):
        for x in ast.walk(expr):
            if isinstance(x, ast.Subscript) and \
                    const_str(x.slice) in DEP_KEYS:
                return const_str(x.slice)
            if isinstance(x, ast.Call) and call_name(x) == 'get' and x.args \
                    and const_str(x.args[0]) in DEP_KEYS:
                return const_str(x.args[0])
        return None
    for f in m.all_funcs():
        def rec(stmts, outer):
            nonlocal n_loops
            for st in stmts:
                k = dep_key(st.iter) if isinstance(st, ast.For) else None
                if k:
                    n_loops += 1
                    if outer and outer[-1][0] != k:
                        ctx.finding(f, st, '%s registers the %s requirements '
                                    'inside the loop over %s (line %d): with '
                                    'no %s entry they are never registered, '
                                    'and the units they constrain are ordered '
                                    'as if nothing had been declared' % (
                                        f.qualname, k, outer[-1][0],
                                        outer[-1][1].lineno, outer[-1][0]),
                                    key='dep-kind-nested:%s-in-%s' % (
                                        k, outer[-1][0]))
                    else:
                        ctx.ok(f, 'the %s requirements are registered in a '
                               'loop of their own' % k, st)
                for blk in ('body', 'orelse', 'finalbody'):
                    b = getattr(st, blk, None)
                    if isinstance(b, list) and b and \
                            isinstance(b[0], ast.stmt) and not isinstance(
                                st, (ast.FunctionDef, ast.ClassDef)):
                        rec(b, outer + ([(k, st)] if k and blk == 'body'
                                        else []))
                for h in getattr(st, 'handlers', []):
                    rec(h.body, outer)
        rec(f.node.body, [])
    ctx.floor('loops over declared requirement lists in utils.graph',
              n_loops, 2)


def r12_declared_requirements_registered_unconditionally(ctx):
    """DependencyGraph accepts a dependency on a node that is added later
    (finalize() resolves the keys, and rejects unknown ones).
    _build_evolutions_graph relies on that: evolutions are registered before
    the post-stage migrations are.  Registering a declared requirement only
    when its target *already is* a node (`if key in self._nodes`) silently
    drops every requirement on a later-registered unit, and turns a
    requirement on a unit that does not exist from an error into a no-op."""
    ctx.rule('R-C09.12')
    p = ctx.program
    cls = p.cls(G, 'EvolutionGraph')
    n = 0
    for m in cls.methods.values():
        g = None
        for c in walk_no_nested(m.node):
            if not (isinstance(c, ast.Call) and
                    call_name(c) == 'add_dependency' and
                    is_self_attr(c.func)):
                continue
            n += 1
            if g is None:
                g = ctx.cfg(m)
            node = next((x for x in g.nodes if c in x.calls()), None)
            if node is None:
                continue
            bad = []
            for t in g.nodes:
                if t.kind not in ('test', 'operand') or t.ast is None:
                    continue
                if not (g.guarded_by(node, t, 'T') or
                        g.guarded_by(node, t, 'F')):
                    continue
                if any(isinstance(x, ast.Attribute) and x.attr == '_nodes'
                       for x in ast.walk(t.ast)) or any(
                        isinstance(x, ast.Call) and
                        call_name(x) in ('get_node', 'has_node')
                        for x in ast.walk(t.ast)):
                    bad.append(' '.join(unparse(t.ast).split()))
            if bad:
                ctx.finding(m, c, '%s registers a requirement only when '
                            '"%s": a requirement on a unit that is added to '
                            'the graph later (post-stage migrations are '
                            'added after the evolutions) is silently '
                            'dropped' % (m.qualname, '; '.join(bad)),
                            key='requirement-depends-on-graph-content')
            else:
                ctx.ok(m, 'requirement registered whatever the graph '
                       'contains so far', c)
    ctx.floor('add_dependency call sites in EvolutionGraph', n, 8)


def r13_batch_sql_from_batch_labels(ctx):
    from .c08 import r5_batch_labels
    r5_batch_labels(ctx, rule_id='R-C09.13')


def r14_hand_over_depends_on_every_marked_migration(ctx):
    """MoveToDjangoMigrations marks a set of migrations as applied; the
    evolution carrying it must be ordered after *each* of them (they need
    not form a chain - two branches off 0001 are both marked), which is what
    the implied after_migrations dependency says.  Every generator / loop in
    generate_dependencies that reads self.mark_applied must iterate the
    whole collection: no subscript or slice, no filter, no early exit."""
    ctx.rule('R-C09.14')
    p = ctx.program
    f = p.func('mutations.move_to_django_migrations',
               'MoveToDjangoMigrations.generate_dependencies')
    from ..util import expand_expr
    n = 0

    def whole(it):
        e = expand_expr(f, it)
        while isinstance(e, ast.Call) and len(e.args) == 1 and \
                not e.keywords and (call_name(e) or '') in (
                    'sorted', 'list', 'tuple', 'set', 'frozenset', 'iter'):
            e = e.args[0]
        return is_self_attr(e, 'mark_applied'), e
    for x in ast.walk(f.node):
        gens = []
        if isinstance(x, (ast.GeneratorExp, ast.ListComp, ast.SetComp,
                          ast.DictComp)):
            gens = [(g_.iter, g_.ifs) for g_ in x.generators]
        elif isinstance(x, ast.For):
            gens = [(x.iter, [b for b in ast.walk(x)
                              if isinstance(b, (ast.Break, ast.Return))])]
        for it, restr in gens:
            if 'mark_applied' not in unparse(expand_expr(f, it)):
                continue
            n += 1
            ok, e = whole(it)
            if ok and not restr:
                ctx.ok(f, 'after_migrations names every marked migration',
                       it)
            else:
                ctx.finding(f, it, 'the implied after_migrations dependency '
                            'is built from part of mark_applied (%s%s): the '
                            'evolution may be ordered before a pending '
                            'migration it marks as applied' % (
                                ' '.join(unparse(it).split()),
                                ', filtered' if restr else ''),
                            key='after-migrations-partial')
    ctx.floor('iterations over mark_applied in generate_dependencies', n, 1)


def run(ctx):
    r14_hand_over_depends_on_every_marked_migration(ctx)
    r13_batch_sql_from_batch_labels(ctx)
    r12_declared_requirements_registered_unconditionally(ctx)
    r11_dependency_kinds_registered_independently(ctx)
    r10_mutation_deps_merged(ctx)
    r9_anchor_polarity(ctx)
    r8_applied_from_evolved_database(ctx)
    r7_mapping_key_kinds(ctx)
    r1_edge_direction(ctx)
    r2_key_vocabulary(ctx)
    r3_tie_break(ctx)
    r4_exact_once(ctx)
    r5_error_path(ctx)
    r6_batches_preserve_order(ctx)
