"""C05 - the hinted evolution resolves the change; == iff empty diff."""
from __future__ import annotations

import ast
from typing import Dict, List, Optional, Set, Tuple

from ..program import (AnalysisError, Class, Func, call_name, const_str,
                       dotted, kwarg, norm_key, unparse, walk_no_nested)
from ..util import expand_expr, is_self_attr, subscript_const

EXPLANATION = (
    'Decided clauses: R-C05.1 every key that a *Signature.diff() can emit is '
    'consumed by Diff (hint generation), level by level, except two reviewed '
    'keys; R-C05.2 every mutation Diff.evolution() constructs has a '
    'simulate() that writes the signature attribute(s) the corresponding '
    'diff compares (ChangeMeta per property, ChangeField for type, '
    'attributes and relation target), and every site that copies a '
    "mutation's field_attrs into a field signature first splits "
    "'related_model' off; R-C05.3 for each signature class __eq__ and diff "
    'read the same attributes with the same comparison mode (raw, set, '
    'list, default-aware); R-C05.4 clone() carries every attribute set in '
    '__init__ and does not share mutable containers with the original; '
    'R-C05.5 Diff.evolution never uses, inside one loop, a per-model value '
    'bound only in a different, finished loop (stale loop variable); '
    'R-C05.6 a signature class that defines __hash__ hashes only state its '
    '__eq__ compares exactly (no repr of loosely compared dicts, no '
    'identity), because model signatures compare their index/constraint '
    'signatures through set(); R-C05.7 a simulate() that rewrites '
    'unique_together / index_together (which diff compares as ordered '
    'lists) keeps the order of the entries it keeps (no set / sorted on the '
    'way); '
    'R-C05.6 also accepts the guard-clause spelling of __eq__ and a hash over tuple(self.x) for attributes compared through one normaliser on both sides.'
    ' '
    'R-C05.8 precedence of the type-specific over the common attribute defaults in every reader that combines them.'
    ' '
    'R-C05.9 the facets a diff() reports through one list are tested independently (no reporting site is excluded by the test that admits another).'
    ' '
    'R-C05.10 (= R-C15.5) get_app_sig resolves the exact app id before the legacy-label alias.')
NOT_DECIDED = (
    'Closure of diff -> hint -> simulate for all signature pairs (needs '
    'execution of the three functions on generated pairs).')
TECHNIQUE = ('table agreement between diff emitters and Diff consumers, '
             'write-set vs read-set comparison of simulate() and diff(), '
             'attribute/mode extraction from __eq__ and diff (sibling '
             'agreement), clone coverage and sharing scan')
LEVEL_NOTE = ('Trusted: Python ast; attribute sets are extracted '
              'syntactically from self.<attr> / other.<attr> reads, following '
              'one level of same-class helper calls.')

SIG = 'signature'
LEVELS = (('ProjectSignature', 'diff'), ('AppSignature', 'app_changes'),
          ('ModelSignature', 'model_change'),
          ('FieldSignature', 'field_change'))
UNCONSUMED_OK = {
    'upgrade_method': 'only the hand-written MoveToDjangoMigrations mutation '
                      'can resolve a change of upgrade method; Diff reports '
                      'it in __str__ but cannot hint it',
}
CLONE_NOT_CARRIED = {
    ('AppSignature', 'loaded_sig_version'):
        'load-time provenance; a clone is a fresh in-memory object',
}


def _emitted(f: Func):
    """(top-level keys, meta keys) emitted by a diff() method."""
    top, meta = set(), set()
    for n in walk_no_nested(f.node, include_lambda=True):
        if isinstance(n, ast.Return) and n.value is not None:
            for t in ast.walk(n.value):
                if isinstance(t, ast.Tuple) and len(t.elts) == 2 and \
                        const_str(t.elts[0]) is not None and \
                        isinstance(t.elts[1], ast.Name):
                    top.add(const_str(t.elts[0]))
        if isinstance(n, ast.Call) and call_name(n) == 'append' and \
                n.args and const_str(n.args[0]) is not None:
            recv = unparse(n.func.value)
            if 'meta_changed' in recv:
                meta.add(const_str(n.args[0]))
            elif 'changed_attrs' in recv:
                top.add(const_str(n.args[0]))
        if isinstance(n, ast.Assign):
            for t in n.targets:
                if isinstance(t, ast.Subscript) and \
                        'meta_changed' in unparse(t.value):
                    k = subscript_const(t)
                    if k:
                        meta.add(k)
                    elif isinstance(t.slice, ast.Name):
                        # for key in ('a', 'b'): meta_changed[key] = ...
                        for loop in walk_no_nested(f.node):
                            if isinstance(loop, ast.For) and \
                                    isinstance(loop.target, ast.Name) and \
                                    loop.target.id == t.slice.id and \
                                    isinstance(loop.iter, (ast.Tuple,
                                                           ast.List)):
                                meta |= {const_str(e) for e in loop.iter.elts
                                         if const_str(e)}
    return top, meta


def _consumed(funcs: List[Func]):
    """receiver name -> set of constant keys read (.get / in / subscript)."""
    out: Dict[str, Set[str]] = {}
    for f in funcs:
        for n in walk_no_nested(f.node, include_lambda=True):
            if isinstance(n, ast.Call) and call_name(n) == 'get' and n.args \
                    and const_str(n.args[0]) is not None and \
                    isinstance(n.func.value, ast.Name):
                out.setdefault(n.func.value.id, set()).add(
                    const_str(n.args[0]))
            if isinstance(n, ast.Compare) and isinstance(n.ops[0], ast.In) \
                    and const_str(n.left) is not None and \
                    isinstance(n.comparators[0], ast.Name):
                out.setdefault(n.comparators[0].id, set()).add(
                    const_str(n.left))
            if isinstance(n, ast.comprehension) and isinstance(
                    n.iter, (ast.Tuple, ast.List)):
                for c in n.ifs:
                    if isinstance(c, ast.Compare) and \
                            isinstance(c.ops[0], ast.In) and \
                            isinstance(c.comparators[0], ast.Name):
                        out.setdefault(c.comparators[0].id, set()).update(
                            const_str(e) for e in n.iter.elts
                            if const_str(e))
    return out


def r1_diff_keys_consumed(ctx):
    ctx.rule('R-C05.1')
    p = ctx.program
    from ..util import unit
    cons = _consumed([p.func('diff', 'Diff.__init__')] +
                     unit(ctx, p.func('diff', 'Diff.evolution')))
    meta_cons = set()
    for k, v in cons.items():
        if 'meta_changed' in k:
            meta_cons |= v
    total = 0
    for cname, recv in LEVELS:
        f = p.func(SIG, '%s.diff' % cname)
        top, meta = _emitted(f)
        total += len(top) + len(meta)
        got = cons.get(recv, set())
        for k in sorted(top):
            if k in got:
                ctx.ok(f, '%s.diff key %r is consumed by Diff (%s)' % (
                    cname, k, recv))
            elif cname == 'ProjectSignature' and k == 'deleted':
                # consumed in Diff.__init__ as self.deleted, resolved by purge
                ctx.ok(f, 'project-level %r feeds Diff.deleted (resolved by '
                       'purging, not by a hint)' % k)
            else:
                ctx.finding(f, None, '%s.diff can report %r but Diff never '
                            'reads it from %s: such a change is never hinted '
                            'and never resolves' % (cname, k, recv),
                            key='unconsumed:%s' % k)
        for k in sorted(meta):
            if k in meta_cons:
                ctx.ok(f, '%s meta key %r is consumed by Diff.evolution' % (
                    cname, k))
            elif k in UNCONSUMED_OK:
                ctx.ok(f, '%s meta key %r is reviewed as not hintable: %s' % (
                    cname, k, UNCONSUMED_OK[k]))
            else:
                ctx.finding(f, None, '%s.diff can report meta change %r but '
                            'Diff.evolution never handles it' % (cname, k),
                            key='unconsumed-meta:%s' % k)
    ctx.floor('keys emitted by the four diff() methods', total, 16)


def _self_attr_stores(f: Func, base: str) -> Set[str]:
    """Attributes stored on <base> (assign / augassign / container call)."""
    out = set()
    for n in walk_no_nested(f.node):
        ts = []
        if isinstance(n, ast.Assign):
            ts = n.targets
        elif isinstance(n, ast.AugAssign):
            ts = [n.target]
        for t in ts:
            cur = t
            while isinstance(cur, ast.Subscript):
                cur = cur.value
            if isinstance(cur, ast.Attribute) and \
                    isinstance(cur.value, ast.Name) and cur.value.id == base:
                out.add(cur.attr.lstrip('_'))
        if isinstance(n, ast.Call) and isinstance(n.func, ast.Attribute) and \
                n.func.attr in ('update', 'append', 'pop', 'clear') and \
                isinstance(n.func.value, ast.Attribute) and \
                isinstance(n.func.value.value, ast.Name) and \
                n.func.value.value.id == base:
            out.add(n.func.value.attr.lstrip('_'))
    return out


def _meta_compared_attrs(ctx) -> Dict[str, Set[str]]:
    """meta key -> ModelSignature attributes its diff test reads."""
    p = ctx.program
    cls = p.cls(SIG, 'ModelSignature')
    f = cls.methods['diff']
    out: Dict[str, Set[str]] = {}
    for n in walk_no_nested(f.node):
        if isinstance(n, ast.If):
            keys = [const_str(c.args[0]) for st in n.body
                    for c in ast.walk(st)
                    if isinstance(c, ast.Call) and call_name(c) == 'append'
                    and c.args and const_str(c.args[0]) and
                    'meta_changed' in unparse(c.func)]
            if not keys:
                continue
            attrs = {a.attr.lstrip('_') for a in ast.walk(n.test)
                     if is_self_attr(a) and not isinstance(
                         getattr(a, 'ctx', None), ast.Store)}
            for c in ast.walk(n.test):
                if isinstance(c, ast.Call) and is_self_attr(c.func) and \
                        c.func.attr in cls.methods:
                    attrs.discard(c.func.attr)
                    h = cls.methods[c.func.attr]
                    attrs |= {a.attr.lstrip('_')
                              for a in walk_no_nested(h.node)
                              if is_self_attr(a)}
            for k in keys:
                out[k] = attrs
    return out


def r2_simulate_writes_what_diff_reads(ctx):
    ctx.rule('R-C05.2')
    p = ctx.program
    # mutation classes constructed by Diff.evolution
    evo = p.func('diff', 'Diff.evolution')
    from ..util import unit_walk
    built = {call_name(c) for _, c in unit_walk(ctx, evo)
             if isinstance(c, ast.Call) and isinstance(c.func, ast.Name) and
             c.func.id[:1].isupper()}
    built &= {'AddField', 'ChangeField', 'ChangeMeta', 'DeleteField',
              'DeleteModel', 'RenameAppLabel'}
    ctx.floor('mutation classes constructed by Diff.evolution', len(built), 6)
    calls_needed = {
        'AddField': ('mutations.add_field', {'add_field_sig'}),
        'DeleteField': ('mutations.delete_field', {'remove_field_sig'}),
        'DeleteModel': ('mutations.delete_model', {'remove_model_sig'}),
        'RenameAppLabel': ('mutations.rename_app_label',
                           {'add_app_sig', 'add_model_sig',
                            'remove_model_sig'}),
    }
    for cname, (mod, need) in sorted(calls_needed.items()):
        f = p.func(mod, '%s.simulate' % cname)
        have = {call_name(c) for c in walk_no_nested(f.node)
                if isinstance(c, ast.Call)}
        if need <= have:
            ctx.ok(f, '%s.simulate applies %s to the signature' % (
                cname, ', '.join(sorted(need))))
        else:
            ctx.finding(f, None, '%s.simulate does not call %s: the hinted '
                        'mutation would leave the difference it was hinted '
                        'for' % (cname, sorted(need - have)),
                        key='simulate-missing:%s' % sorted(need - have))
    # ChangeMeta per property
    cm = p.func('mutations.change_meta', 'ChangeMeta.simulate')
    compared = _meta_compared_attrs(ctx)
    ctx.floor('Meta keys compared by ModelSignature.diff', len(compared), 3)
    mcls = p.cls(SIG, 'ModelSignature')
    from ..util import compare_consts
    branches: Dict[str, List[ast.stmt]] = {}
    for n in walk_no_nested(cm.node):
        if isinstance(n, ast.If):
            test, body = n.test, n.body
            while isinstance(test, ast.UnaryOp) and isinstance(test.op,
                                                               ast.Not):
                test, body = test.operand, (n.orelse if body is n.body
                                            else n.body)
            for k in compare_consts(test, lambda e: isinstance(e, ast.Name)
                                    and e.id == 'prop_name'):
                branches[k] = body
    for k, attrs in sorted(compared.items()):
        body = branches.get(k)
        if body is None:
            ctx.finding(cm, None, 'ChangeMeta.simulate has no branch for %r, '
                        'which ModelSignature.diff can report' % k,
                        key='changemeta-no-branch:%s' % k)
            continue
        written = set()
        for st in body:
            for n in ast.walk(st):
                if isinstance(n, ast.Assign):
                    for t in n.targets:
                        if isinstance(t, ast.Attribute) and \
                                isinstance(t.value, ast.Name) and \
                                t.value.id == 'model_sig':
                            written.add(t.attr.lstrip('_'))
                if isinstance(n, ast.Call) and \
                        isinstance(n.func, ast.Attribute) and \
                        isinstance(n.func.value, ast.Name) and \
                        n.func.value.id == 'model_sig' and \
                        n.func.attr in mcls.methods:
                    written |= _self_attr_stores(mcls.methods[n.func.attr],
                                                 'self')
        if attrs & written == attrs or (attrs and attrs <= written):
            ctx.ok(cm, 'ChangeMeta(%r) writes %s, which the diff compares' % (
                k, sorted(attrs)))
        elif attrs & written:
            ctx.finding(cm, None, 'ChangeMeta(%r) writes %s but the diff '
                        'compares %s' % (k, sorted(written), sorted(attrs)),
                        key='changemeta-partial:%s' % k)
        else:
            ctx.finding(cm, None, 'ChangeMeta(%r) writes %s; the diff '
                        'compares %s, so the hinted mutation never resolves '
                        'the change' % (k, sorted(written), sorted(attrs)),
                        key='changemeta-miss:%s' % k)
    # ChangeField: field_type, field_attrs, related_model
    cf = p.func('mutations.change_field', 'ChangeField.simulate')
    written = _self_attr_stores(cf, 'field_sig')
    fdiff = p.func(SIG, 'FieldSignature.diff')
    compared_f = {a.attr for a in walk_no_nested(fdiff.node,
                                                 include_lambda=True)
                  if is_self_attr(a)} & {'field_type', 'field_attrs',
                                         'related_model'}
    ctx.floor('FieldSignature attributes compared by diff', len(compared_f),
              3)
    for a in sorted(compared_f):
        if a in written:
            ctx.ok(cf, 'ChangeField.simulate writes field_sig.%s' % a)
        else:
            ctx.finding(cf, None, 'ChangeField.simulate never writes '
                        'field_sig.%s although FieldSignature.diff compares '
                        'it and Diff.evolution hints ChangeField(%s=...): '
                        'the hinted change of a relation target leaves a '
                        'residual difference' % (a, a),
                        key='changefield-not-written:%s' % a)
    # the transfer of the mutation's attributes must be unfiltered: Diff
    # hints "back to the default" by passing the default value itself
    for mod, q in (('mutations.change_field', 'ChangeField.simulate'),
                   ('mutations.add_field', 'AddField.simulate')):
        sf = p.func(mod, q)
        bad = None
        for n in walk_no_nested(sf.node, include_lambda=True):
            if isinstance(n, ast.comprehension) and \
                    'self.field_attrs' in unparse(n.iter) and n.ifs:
                bad = n.ifs[0]
            if isinstance(n, ast.For) and 'self.field_attrs' in \
                    unparse(n.iter):
                for x in ast.walk(n):
                    if isinstance(x, ast.If) and any(
                            isinstance(y, (ast.Assign, ast.Call)) and
                            'field_attrs' in unparse(y)
                            for st in x.body for y in ast.walk(st)):
                        bad = x.test
        if bad is not None:
            ctx.finding(sf, bad, '%s copies only the attributes satisfying '
                        '"%s" into the field signature: a hinted change '
                        'whose new value fails that test (e.g. '
                        'db_column=None, back to the default) is never '
                        'resolved' % (q, unparse(bad)),
                        key='filtered-attr-transfer')
        else:
            ctx.ok(sf, '%s transfers every given attribute to the field '
                   'signature (no value filter)' % q)
    # sibling rule: sites copying mutation.field_attrs into a signature /
    # field must split 'related_model' off first
    sites = (('mutations.add_field', 'AddField.simulate'),
             ('mutations.add_field', 'AddField._create_field'),
             ('mutations.change_field',
              'ChangeField._get_field_type_change'),
             ('mutations.change_field', 'ChangeField.simulate'))
    n = 0
    for mod, q in sites:
        f = p.func(mod, q)
        uses = [a for a in walk_no_nested(f.node)
                if is_self_attr(a, 'field_attrs')]
        if not uses:
            continue
        n += 1
        pops = [c for c in walk_no_nested(f.node)
                if isinstance(c, ast.Call) and call_name(c) == 'pop' and
                c.args and const_str(c.args[0]) == 'related_model']
        if pops:
            ctx.ok(f, "splits 'related_model' off the copied field_attrs",
                   pops[0])
        else:
            ctx.finding(f, None, "%s copies self.field_attrs into the field "
                        "signature without splitting 'related_model' off "
                        "(siblings do): a relation target passed as "
                        "related_model= ends up inside field_attrs" % q,
                        key='related-model-not-split')
    ctx.floor('sites copying mutation.field_attrs', n, 4)


def _attr_modes(f: Func, cls: Class, depth=0) -> Dict[str, Set[str]]:
    """attribute -> set of comparison modes in which self.<attr> is read."""
    out: Dict[str, Set[str]] = {}

    def mode_of(node, parents):
        # innermost interesting wrapper
        for par in parents:
            if isinstance(par, ast.Call):
                nm = call_name(par)
                if nm in ('set', 'list', 'sorted', 'tuple'):
                    return nm
                if nm == '__eq__':
                    return 'raw'
                if nm in ('get_attr_value',):
                    return 'default-aware'
        return 'raw'

    def walk(n, parents):
        if is_self_attr(n) and not (parents and isinstance(
                parents[0], ast.Call) and parents[0].func is n):
            out.setdefault(n.attr.lstrip('_'), set()).add(
                mode_of(n, parents))
        if isinstance(n, ast.Call) and is_self_attr(n.func) and \
                n.func.attr in cls.methods and depth < 1:
            h = cls.methods[n.func.attr]
            if n.func.attr in ('get_attr_value',):
                out.setdefault('field_attrs', set()).add('default-aware')
            else:
                for a, ms in _attr_modes(h, cls, depth + 1).items():
                    out.setdefault(a, set()).update(ms)
        if isinstance(n, ast.Compare) and any(
                isinstance(o, (ast.Is, ast.IsNot)) for o in n.ops):
            for side in [n.left] + n.comparators:
                if is_self_attr(side):
                    out.setdefault(side.attr.lstrip('_'), set()).add(
                        'identity')
        for c in ast.iter_child_nodes(n):
            if isinstance(c, (ast.FunctionDef, ast.ClassDef)):
                continue
            walk(c, [n] + parents)

    for st in f.node.body:
        walk(st, [])
    # getattr(self, key) with key drawn from a constant tuple
    for n in walk_no_nested(f.node):
        if isinstance(n, ast.Call) and call_name(n) == 'getattr' and \
                len(n.args) >= 2 and isinstance(n.args[0], ast.Name) and \
                n.args[0].id == 'self' and isinstance(n.args[1], ast.Name):
            for loop in walk_no_nested(f.node):
                if isinstance(loop, ast.For) and \
                        isinstance(loop.target, ast.Name) and \
                        loop.target.id == n.args[1].id and \
                        isinstance(loop.iter, (ast.Tuple, ast.List)):
                    for e in loop.iter.elts:
                        if const_str(e):
                            out.setdefault(const_str(e).lstrip('_'),
                                           set()).add('raw')
    return out


def r3_eq_vs_diff(ctx):
    ctx.rule('R-C05.3')
    p = ctx.program
    n_cls = 0
    for cname in ('ProjectSignature', 'AppSignature', 'ModelSignature',
                  'FieldSignature', 'IndexSignature', 'ConstraintSignature'):
        cls = p.cls(SIG, cname)
        eq = cls.methods.get('__eq__')
        df = cls.methods.get('diff')
        if eq is None or df is None:
            continue
        n_cls += 1
        A = _attr_modes(eq, cls)
        B = _attr_modes(df, cls)
        # identity attributes are the key under which the parent stores the
        # object (compared by the parent's mapping equality / lookup)
        ident = {'AppSignature': 'app_id', 'ModelSignature': 'model_name',
                 'FieldSignature': 'field_name'}.get(cname)
        for a in sorted(set(A) | set(B)):
            if a == ident:
                ctx.ok(eq, '%s.%s is the identity key under which the parent '
                       'stores and looks up the object' % (cname, a))
                continue
            ma, mb = A.get(a, set()), B.get(a, set())
            ma = {m for m in ma if m != 'identity'} or ma
            mb = {m for m in mb if m != 'identity'} or mb
            where = eq
            if a in A and a not in B:
                ctx.finding(where, None, '%s.__eq__ compares %s but diff() '
                            'never looks at it: two signatures differing '
                            'only in %s are unequal with an empty diff' % (
                                cname, a, a), key='eq-only:%s' % a)
            elif a in B and a not in A:
                ctx.finding(where, None, '%s.diff() compares %s but __eq__ '
                            'ignores it: equal signatures with a non-empty '
                            'diff' % (cname, a), key='diff-only:%s' % a)
            elif ma != mb:
                ctx.finding(where, None, '%s compares %s as %s in __eq__ but '
                            'as %s in diff(): the two can disagree' % (
                                cname, a, sorted(ma), sorted(mb)),
                            key='mode:%s:%s:%s' % (a, sorted(ma), sorted(mb)))
            else:
                ctx.ok(where, '%s.%s is compared the same way (%s) by __eq__ '
                       'and diff' % (cname, a, sorted(ma)))
    ctx.floor('signature classes with both __eq__ and diff', n_cls, 4)


def r4_clone(ctx):
    ctx.rule('R-C05.4')
    p = ctx.program
    n_cls = 0
    for cname in ('ProjectSignature', 'AppSignature', 'ModelSignature',
                  'FieldSignature', 'IndexSignature', 'ConstraintSignature'):
        cls = p.cls(SIG, cname)
        init = cls.methods['__init__']
        clone = cls.methods.get('clone')
        if clone is None:
            raise AnalysisError('R-C05.4: %s has no clone()' % cname)
        n_cls += 1
        attrs = {}
        for n in walk_no_nested(init.node):
            if isinstance(n, ast.Assign):
                for t in n.targets:
                    if is_self_attr(t):
                        attrs.setdefault(t.attr.lstrip('_'), n.value)
        # how each attribute reaches the clone
        ctor_kw = {}
        for c in walk_no_nested(clone.node):
            if isinstance(c, ast.Call) and isinstance(c.func, ast.Name) and \
                    c.func.id == cname:
                for k in c.keywords:
                    ctor_kw[k.arg] = k.value
        assigned = {}
        for n in walk_no_nested(clone.node):
            if isinstance(n, ast.Assign):
                for t in n.targets:
                    if isinstance(t, ast.Attribute) and \
                            isinstance(t.value, ast.Name) and \
                            t.value.id != 'self':
                        assigned[t.attr.lstrip('_')] = n.value
        adders = {}
        for n in walk_no_nested(clone.node):
            if isinstance(n, ast.For):
                for c in ast.walk(n):
                    if isinstance(c, ast.Call) and \
                            (call_name(c) or '').startswith('add_') and \
                            c.args:
                        adders[unparse(n.iter)] = c.args[0]
        init_params = init.params[1:]
        for a, v in sorted(attrs.items()):
            # parameter name feeding this attribute in __init__
            src = None
            for prm in init_params:
                if prm in {x.id for x in ast.walk(v)
                           if isinstance(x, ast.Name)}:
                    src = prm
            carrier = None
            if src and src in ctor_kw:
                carrier = ctor_kw[src]
            elif a in ctor_kw:
                carrier = ctor_kw[a]
            elif a in assigned:
                carrier = assigned[a]
            else:
                for it, arg in adders.items():
                    if a in it.replace('self.', '').lstrip('_') or \
                            a.replace('_sigs', '') in it:
                        carrier = arg
            if carrier is None:
                if (cname, a) in CLONE_NOT_CARRIED:
                    ctx.ok(clone, '%s.%s is deliberately not cloned: %s' % (
                        cname, a, CLONE_NOT_CARRIED[(cname, a)]))
                else:
                    ctx.finding(clone, None, '%s.clone() does not carry '
                                'attribute %s over: the clone differs from '
                                'the original' % (cname, a),
                                key='clone-missing:%s' % a)
                continue
            # sharing
            mutable = isinstance(v, (ast.List, ast.Dict, ast.Set)) or (
                isinstance(v, ast.Call) and call_name(v) in (
                    'OrderedDict', 'dict', 'list', 'set')) or \
                a in ('attrs', 'field_attrs', 'expressions', 'fields',
                      'applied_migrations', 'index_together',
                      'unique_together')
            txt = unparse(expand_expr(clone, carrier))
            unshared = ('deepcopy(' in txt or '.clone()' in txt or
                        not mutable)
            if not unshared and a in ('index_together', 'unique_together'):
                # normalising property setter rebuilds the list
                setter = cls.methods.get('_normalize_together')
                unshared = setter is not None and any(
                    isinstance(x, (ast.ListComp, ast.List))
                    for x in ast.walk(setter.node))
            if unshared:
                ctx.ok(clone, '%s.%s reaches the clone unshared (%s)' % (
                    cname, a, txt[:40]))
            else:
                ctx.finding(clone, carrier, '%s.clone() shares the mutable '
                            'attribute %s with the original (%s)' % (
                                cname, a, txt[:40]),
                            key='clone-shares:%s' % a)
    ctx.floor('signature classes with clone()', n_cls, 6)


def r5_no_stale_loop_variable(ctx):
    """Inside Diff.evolution every per-model / per-field object used in a
    loop body must be (re)bound in that loop: a value whose only definitions
    sit in the body of a *different*, already finished loop belongs to the
    last element of that other loop."""
    ctx.rule('R-C05.5')
    p = ctx.program
    from ..flow import ReachingDefs
    from ..util import loop_body_ids
    f = p.func('diff', 'Diff.evolution')
    g = ctx.cfg(f)
    rd = ReachingDefs(g, f.params)
    heads = [h for h in g.nodes if h.kind == 'for']
    bodies = {h.id: loop_body_ids(g, h) for h in heads}
    ctx.floor('loops in Diff.evolution', len(heads), 4)
    seen = set()
    n_uses = 0
    for n in g.nodes:
        if n.kind not in ('stmt', 'test', 'operand', 'iter'):
            continue
        in_loops = [h for h in heads if n.id in bodies[h.id]]
        if not in_loops:
            continue
        for x in n.walk():
            if not (isinstance(x, ast.Name) and isinstance(x.ctx, ast.Load)):
                continue
            defs = [d for d in rd.reaching(n, x.id) if d.kind != 'mutate']
            if not defs or any(d.kind in ('param', 'import', 'def')
                               for d in defs):
                continue
            n_uses += 1
            # all definitions inside some loop body that does not contain
            # the use, and the value depends on that loop's element
            for h in heads:
                if n.id in bodies[h.id]:
                    continue
                if all(d.node.id in bodies[h.id] for d in defs):
                    if (x.id, h.id) in seen:
                        continue
                    seen.add((x.id, h.id))
                    ctx.finding(f, n.ast, '"%s" is used in a loop over %s '
                                'but is only ever bound inside the earlier '
                                'loop over %s: every iteration sees the value '
                                'of that loop\'s last element, so hints for '
                                'all but one model are built from the wrong '
                                'signature' % (
                                    x.id, unparse(in_loops[-1].ast.iter)[:40],
                                    unparse(h.ast.iter)[:40]),
                                key='stale-loop-variable:%s' % x.id)
    if not seen:
        ctx.ok(f, 'no use of a value bound only in a different, finished '
               'loop (%d uses checked)' % n_uses)


def _self_reads(node, base='self') -> Set[str]:
    return {n.attr for n in ast.walk(node)
            if isinstance(n, ast.Attribute) and isinstance(n.value, ast.Name)
            and n.value.id == base and isinstance(n.ctx, ast.Load)}


def _eq_conjuncts(fn_node):
    """The terms an __eq__ requires to hold: the conjuncts of its returned
    and-chain, plus the terms of `if not <term>: return False` guards (the
    guard-clause spelling of the same chain)."""
    out = []
    for st in fn_node.body:
        if isinstance(st, ast.If) and not st.orelse and \
                len(st.body) == 1 and isinstance(st.body[0], ast.Return) and \
                isinstance(st.body[0].value, ast.Constant) and \
                st.body[0].value.value is False:
            t = st.test
            if isinstance(t, ast.UnaryOp) and isinstance(t.op, ast.Not):
                t = t.operand
                out += t.values if isinstance(t, ast.BoolOp) and \
                    isinstance(t.op, ast.And) else [t]
            elif isinstance(t, ast.Compare) and len(t.ops) == 1 and \
                    isinstance(t.ops[0], (ast.NotEq, ast.IsNot)):
                op = ast.Eq() if isinstance(t.ops[0], ast.NotEq) else ast.Is()
                out.append(ast.Compare(left=t.left, ops=[op],
                                       comparators=t.comparators))
            elif isinstance(t, ast.BoolOp) and isinstance(t.op, ast.Or):
                # if a or b: return False  ==  not a and not b
                for v in t.values:
                    if isinstance(v, ast.UnaryOp) and isinstance(v.op,
                                                                 ast.Not):
                        out.append(v.operand)
                    else:
                        out.append(ast.UnaryOp(op=ast.Not(), operand=v))
            else:
                out.append(ast.UnaryOp(op=ast.Not(), operand=t))
        elif isinstance(st, ast.Return) and st.value is not None:
            v = st.value
            if isinstance(v, ast.Constant) and v.value is True:
                continue
            out += v.values if isinstance(v, ast.BoolOp) and \
                isinstance(v.op, ast.And) else [v]
    return out


def r6_hash_agrees_with_eq(ctx):
    """Objects that compare equal must hash equal (they are compared through
    set(...) in ModelSignature.__eq__): __hash__ may only depend on state
    that __eq__ compares exactly (self.x == other.x / self.x is other.x as a
    direct conjunct).  State compared loosely - dict.__eq__ (key order
    ignored), 'both empty' equivalences - or not compared at all must not
    reach the hash, directly or through repr(self)."""
    ctx.rule('R-C05.6')
    m = ctx.program.module(SIG)
    n_classes = 0
    for c in m.classes.values():
        h = c.methods.get('__hash__')
        eq = c.methods.get('__eq__')
        if h is None or eq is None:
            continue
        n_classes += 1
        reads = _self_reads(h.node)
        via = []
        for call in walk_no_nested(h.node):
            if isinstance(call, ast.Call) and isinstance(call.func, ast.Name) \
                    and call.func.id in ('repr', 'str') and call.args and \
                    isinstance(call.args[0], ast.Name) and \
                    call.args[0].id == 'self':
                meth = c.find_method('__repr__' if call.func.id == 'repr'
                                     else '__str__') or \
                    c.find_method('__repr__')
                if meth is not None:
                    reads |= _self_reads(meth.node)
                    via.append(meth.qualname)
        for call in walk_no_nested(h.node):
            if isinstance(call, ast.Call) and (
                    (isinstance(call.func, ast.Name) and call.func.id == 'id')
                    or (isinstance(call.func, ast.Attribute) and
                        call.func.attr == '__hash__')):
                reads.add('<identity>')
        exact, loose, seq_exact = set(), set(), set()
        for conj in [_eq_conjuncts(eq.node)]:
            for v in conj:
                if isinstance(v, ast.Compare) and len(v.ops) == 1 and \
                        isinstance(v.ops[0], (ast.Eq, ast.Is)) and \
                        isinstance(v.left, ast.Attribute) and \
                        isinstance(v.left.value, ast.Name) and \
                        v.left.value.id == 'self' and \
                        isinstance(v.comparators[0], ast.Attribute) and \
                        v.comparators[0].attr == v.left.attr:
                    exact.add(v.left.attr)
                elif isinstance(v, ast.Compare) and len(v.ops) == 1 and \
                        isinstance(v.ops[0], ast.Eq) and \
                        isinstance(v.left, ast.Call) and \
                        isinstance(v.comparators[0], ast.Call) and \
                        isinstance(v.left.func, ast.Name) and \
                        unparse(v.left.func) == \
                        unparse(v.comparators[0].func) and \
                        v.left.func.id in m.functions and \
                        len(_self_reads(v.left)) == 1 and \
                        all(isinstance(a, ast.Attribute) for a in v.left.args):
                    # N(self.x) == N(other.x) with N a module-level
                    # normaliser: exact up to sequence type; a hash may use
                    # tuple(self.x)
                    seq_exact |= _self_reads(v.left)
                else:
                    loose |= _self_reads(v)
        exact -= loose
        for a in sorted(seq_exact - loose):
            in_tuple = [x for c2 in walk_no_nested(h.node)
                        if isinstance(c2, ast.Call) and
                        isinstance(c2.func, ast.Name) and
                        c2.func.id == 'tuple'
                        for x in ast.walk(c2) if is_self_attr(x, a)]
            all_reads = [x for x in walk_no_nested(h.node)
                         if is_self_attr(x, a)]
            if all_reads and len(in_tuple) == len(all_reads):
                exact.add(a)
        bad = sorted(reads - exact)
        if not bad:
            ctx.ok(h, '__hash__ depends only on state __eq__ compares '
                   'exactly (%s)' % ', '.join(sorted(reads)) or '-')
            continue
        for a in bad:
            how = 'compared loosely by __eq__ (key order / emptiness ' \
                'ignored)' if a in loose else 'not compared by __eq__'
            ctx.finding(h, None, '%s.__hash__ depends on self.%s%s, which is '
                        '%s: equal signatures can hash differently, and '
                        'ModelSignature.__eq__ compares them through set()'
                        % (c.name, a, ' (through %s)' % ', '.join(via)
                           if via else '', how), key='hash-depends-on:%s' % a)
    ctx.floor('signature classes defining __eq__ and __hash__', n_classes, 2)


ORDER_DESTROYING = ('sorted', 'set', 'frozenset', 'reversed')


def r7_order_preserving_rewrites(ctx):
    """ModelSignature.diff compares unique_together / index_together as
    ordered lists.  A simulate() that rewrites one of them (DeleteField drops
    the deleted field from every entry) must keep the order of the entries it
    keeps; building the new value through a set or sorted() re-orders an
    attribute the mutation was not asked to change, and the hinted evolution
    no longer resolves to the target signature."""
    ctx.rule('R-C05.7')
    p = ctx.program
    ms = p.cls(SIG, 'ModelSignature')
    modes = _attr_modes(ms.methods['diff'], ms)
    ordered = sorted(a for a in ('unique_together', 'index_together')
                     if 'raw' in modes.get(a, set()) and
                     not (modes.get(a, set()) & {'set', 'sorted'}))
    ctx.floor('*_together attributes that diff compares as ordered lists',
              len(ordered), 1)
    from ..flow import ReachingDefs
    from ..util import unit
    n_writes = 0
    for m in p.modules.values():
        if '.mutations.' not in m.name:
            continue
        for c in m.classes.values():
            sim = c.methods.get('simulate')
            if sim is None:
                continue
            for fn in unit(ctx, sim):
                g = ctx.cfg(fn)
                rd = None
                for node in g.nodes:
                    a = node.ast
                    if not (node.kind == 'stmt' and isinstance(a, ast.Assign)):
                        continue
                    for t in a.targets:
                        if not (isinstance(t, ast.Attribute) and
                                t.attr in ordered and
                                not is_self_attr(t)):
                            continue
                        n_writes += 1
                        rd = rd or ReachingDefs(g, fn.params)
                        bad = None
                        names = set()
                        for on, oe in rd.origins(node, a.value):
                            for x in ast.walk(oe):
                                if isinstance(x, (ast.Set, ast.SetComp)):
                                    bad = unparse(x)
                                elif isinstance(x, ast.Call) and \
                                        isinstance(x.func, ast.Name) and \
                                        x.func.id in ORDER_DESTROYING:
                                    bad = unparse(x)
                                elif isinstance(x, ast.Name):
                                    names.add(x.id)
                        for x in walk_no_nested(fn.node):
                            if isinstance(x, ast.Call) and \
                                    isinstance(x.func, ast.Attribute) and \
                                    x.func.attr in ('sort', 'reverse') and \
                                    isinstance(x.func.value, ast.Name) and \
                                    x.func.value.id in names:
                                bad = unparse(x)
                        if bad:
                            ctx.finding(fn, a, '%s rewrites %s through %s: '
                                        'the entries it keeps are re-ordered, '
                                        'but ModelSignature.diff compares %s '
                                        'as an ordered list' % (
                                            fn.qualname, t.attr,
                                            ' '.join(bad.split())[:60],
                                            t.attr),
                                        key='reordered:%s' % t.attr)
                        else:
                            ctx.ok(fn, '%s is rewritten order-preservingly' %
                                   t.attr, a)
    ctx.floor('simulate() writes of ordered *_together attributes', n_writes,
              2)


def _defaults_kind(e):
    """'C' for the common table (_ATTRIBUTE_DEFAULTS['*']), 'T' for a
    type-specific one (_ATTRIBUTE_DEFAULTS[<type>] / .get(<type>, ...)),
    through .copy() / dict(...)."""
    if isinstance(e, ast.Call) and isinstance(e.func, ast.Attribute) and \
            e.func.attr == 'copy' and not e.args:
        return _defaults_kind(e.func.value)
    if isinstance(e, ast.Call) and isinstance(e.func, ast.Name) and \
            e.func.id in ('dict', 'OrderedDict') and len(e.args) == 1 and \
            not e.keywords:
        return _defaults_kind(e.args[0])
    key = None
    base = None
    if isinstance(e, ast.Subscript):
        base, key = e.value, e.slice
    elif isinstance(e, ast.Call) and isinstance(e.func, ast.Attribute) and \
            e.func.attr == 'get' and e.args:
        base, key = e.func.value, e.args[0]
    if base is None or not (isinstance(base, ast.Attribute) and
                            base.attr == '_ATTRIBUTE_DEFAULTS'):
        return None
    if isinstance(key, ast.Constant):
        return 'C' if key.value == '*' else None
    return 'T'


def _precedence_winner(f):
    """Which table wins for a key present in both, in function f: 'T', 'C',
    or None when f does not combine the two tables / in an unknown form."""
    from ..util import expand_expr
    fn = f.node
    kinds_seen = set()
    for n in walk_no_nested(fn):
        if isinstance(n, (ast.Subscript, ast.Call)):
            k = _defaults_kind(expand_expr(f, n))
            if k:
                kinds_seen.add(k)
    if kinds_seen != {'T', 'C'}:
        return None, None
    # P1: for d in (e1, e2): first hit returns
    for n in walk_no_nested(fn):
        if isinstance(n, ast.For) and isinstance(n.iter, (ast.Tuple,
                                                          ast.List)):
            ks = [_defaults_kind(expand_expr(f, x)) for x in n.iter.elts]
            if len(ks) == 2 and set(ks) == {'T', 'C'} and any(
                    isinstance(x, ast.Return) for st in n.body
                    for x in ast.walk(st)):
                return ks[0], n
    # P3: dict(e1, **e2) / {**e1, **e2}
    for n in walk_no_nested(fn):
        if isinstance(n, ast.Call) and isinstance(n.func, ast.Name) and \
                n.func.id in ('dict', 'OrderedDict') and len(n.args) == 1:
            stars = [kw.value for kw in n.keywords if kw.arg is None]
            if len(stars) == 1:
                k1 = _defaults_kind(expand_expr(f, n.args[0]))
                k2 = _defaults_kind(expand_expr(f, stars[0]))
                if {k1, k2} == {'T', 'C'}:
                    return k2, n
        if isinstance(n, ast.Dict) and len(n.keys) == 2 and \
                all(k is None for k in n.keys):
            k1, k2 = [_defaults_kind(expand_expr(f, v)) for v in n.values]
            if {k1, k2} == {'T', 'C'}:
                return k2, n
        if isinstance(n, ast.Call) and call_name(n) == 'ChainMap' and \
                len(n.args) == 2:
            k1, k2 = [_defaults_kind(expand_expr(f, v)) for v in n.args]
            if {k1, k2} == {'T', 'C'}:
                return k1, n
    # P4: e1.get(k, e2.get(k)) / e1.get(k, e2[k])
    for n in walk_no_nested(fn):
        if isinstance(n, ast.Call) and isinstance(n.func, ast.Attribute) and \
                n.func.attr == 'get' and len(n.args) == 2:
            k1 = _defaults_kind(expand_expr(f, n.func.value))
            inner = n.args[1]
            k2 = None
            if isinstance(inner, ast.Call) and \
                    isinstance(inner.func, ast.Attribute) and \
                    inner.func.attr == 'get':
                k2 = _defaults_kind(expand_expr(f, inner.func.value))
            elif isinstance(inner, ast.Subscript):
                k2 = _defaults_kind(expand_expr(f, inner.value))
            if k1 and k2 and {k1, k2} == {'T', 'C'}:
                return k1, n
    # P2: x = <e1 copy>; x.update(<e2>)   (the last update wins)
    for n in walk_no_nested(fn):
        if isinstance(n, ast.Call) and isinstance(n.func, ast.Attribute) and \
                n.func.attr == 'update' and len(n.args) == 1 and \
                isinstance(n.func.value, ast.Name):
            k2 = _defaults_kind(expand_expr(f, n.args[0]))
            k1 = _defaults_kind(expand_expr(f, n.func.value))
            if k1 and k2 and {k1, k2} == {'T', 'C'}:
                return k2, n
    # P5: e1[k] if k in e1 else e2[k]   /  if k in e1: return e1[k]
    for n in walk_no_nested(fn):
        if isinstance(n, (ast.IfExp, ast.If)) and \
                isinstance(n.test, ast.Compare) and len(n.test.ops) == 1 and \
                isinstance(n.test.ops[0], (ast.In, ast.NotIn)):
            k = _defaults_kind(expand_expr(f, n.test.comparators[0]))
            if k:
                pos = isinstance(n.test.ops[0], ast.In)
                return (k if pos else ('C' if k == 'T' else 'T')), n
    return 'unknown', None


def r8_defaults_precedence(ctx, rule_id='R-C05.8'):
    """_ATTRIBUTE_DEFAULTS has a common table ('*') and per-field-type
    tables that override it (db_index is False in general and True for
    ForeignKey/OneToOneField).  Every reader that combines the two must let
    the type-specific entry win - the writer of a signature
    (_get_defaults_for_field_type, used by from_field) and the readers
    (get_attr_default, used by diff / get_attr_value) otherwise disagree on
    what an omitted attribute means: a ForeignKey's index change is then
    invisible to the diff and produces no SQL."""
    ctx.rule(rule_id)
    p = ctx.program
    cls = p.cls(SIG, 'FieldSignature')
    n = 0
    for f in cls.methods.values():
        win, node = _precedence_winner(f)
        if win is None:
            continue
        n += 1
        if win == 'T':
            ctx.ok(f, 'type-specific defaults override the common ones', node)
        elif win == 'C':
            ctx.finding(f, node, '%s lets the common defaults '
                        '(_ATTRIBUTE_DEFAULTS[\'*\']) win over the '
                        'field-type-specific ones: db_index of a '
                        'ForeignKey/OneToOneField reads as False when '
                        'omitted, while from_field() omitted it because it '
                        'is True' % f.qualname,
                        key='common-defaults-win')
        else:
            ctx.infos.append('%s: %s combines the two default tables in a '
                             'form the precedence matcher does not know; '
                             'not decided' % (rule_id, f.qualname))
    ctx.floor('readers combining common and type-specific defaults', n, 1)


def r9_difference_facets_independent(ctx):
    """A diff() method reports each facet that differs (`X.append('<facet>')`
    with a constant).  The facets are independent: two Meta properties can
    change in one edit (index_together replaced by Meta.indexes).  No
    reporting site may therefore be excluded by the test that admits another
    one (an `elif`, or an early exit after the first hit) - the hinted
    evolution would resolve only the first facet and a residual difference
    remains."""
    ctx.rule('R-C05.9')
    p = ctx.program
    n_sites = 0
    for cname in ('ModelSignature', 'AppSignature', 'FieldSignature',
                  'ProjectSignature'):
        f = p.cls(SIG, cname).methods.get('diff')
        if f is None:
            continue
        g = ctx.cfg(f)
        sites = []
        for node in g.nodes:
            for c in node.calls():
                if call_name(c) == 'append' and c.args and \
                        const_str(c.args[0]) is not None and \
                        isinstance(c.func, ast.Attribute) and \
                        isinstance(c.func.value, ast.Name):
                    sites.append((node, c.func.value.id,
                                  const_str(c.args[0]), c))
        by_list = {}
        for s_ in sites:
            by_list.setdefault(s_[1], []).append(s_)
        for lst, ss in by_list.items():
            if len(ss) < 2:
                continue
            n_sites += len(ss)
            tests = [t for t in g.nodes if t.kind in ('test', 'operand')]
            bad = None
            for t in tests:
                on_t = [s_ for s_ in ss if g.guarded_by(s_[0], t, 'T')]
                on_f = [s_ for s_ in ss if g.guarded_by(s_[0], t, 'F')]
                if on_t and on_f:
                    bad = (t, on_t[0], on_f[0])
                    break
            if bad:
                t, a, b = bad
                ctx.finding(f, b[3], '%s.diff reports %r only when the test '
                            'that admits %r (%s) is false: when both differ '
                            'only the first is reported, the hinted '
                            'evolution resolves only that one and a residual '
                            'difference remains' % (
                                cname, b[2], a[2],
                                ' '.join(unparse(t.ast).split())[:70]),
                            key='facets-exclusive:%s:%s' % (a[2], b[2]))
            else:
                ctx.ok(f, '%s.diff: the %d facets reported through %s are '
                       'tested independently' % (cname, len(ss), lst))
    ctx.floor('facet reporting sites in the diff methods', n_sites, 5)


def r10_exact_lookup_first(ctx):
    from .c15 import r5_exact_lookup_first
    r5_exact_lookup_first(ctx, rule_id='R-C05.10')


def run(ctx):
    r10_exact_lookup_first(ctx)
    r9_difference_facets_independent(ctx)
    r8_defaults_precedence(ctx)
    r7_order_preserving_rewrites(ctx)
    r6_hash_agrees_with_eq(ctx)
    r5_no_stale_loop_variable(ctx)
    r1_diff_keys_consumed(ctx)
    r2_simulate_writes_what_diff_reads(ctx)
    r3_eq_vs_diff(ctx)
    r4_clone(ctx)
