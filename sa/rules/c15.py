"""C15 - purging and deleting remove exactly what was named."""
from __future__ import annotations

import ast
from typing import Dict, List, Set

from ..flow import ReachingDefs
from ..program import (AnalysisError, Func, call_name, const_str, dotted,
                       kwarg, norm_key, unparse, walk_no_nested)
from ..util import expand_expr, is_self_attr, nodes_with_call, str_constants

EXPLANATION = (
    'Decided clauses: R-C15.1 (who may drop) DROP TABLE is only produced by '
    'BaseEvolutionOperations.delete_table and compat sql_delete, and '
    'delete_table is only called from DeleteModel.mutate, DeleteField.mutate '
    '(many-to-many table) and the SQLite rebuild; R-C15.2 (argument '
    'provenance) the names DeleteModel drops derive only from the model\'s '
    'own db_table and the m2m tables of its own ManyToManyField signatures; '
    'DeleteApplication iterates only the model signatures of its own app '
    'label and filters each through DeleteModel.is_mutable; R-C15.3 purging '
    'is opt-in: queue_purge_old_apps is control-dependent on --purge, '
    'iterates initial_diff.deleted, and the gate ignores deleted apps exactly '
    'when not purging; R-C15.4 signature entries are removed only from the '
    'simulation\'s own app signature with the mutation\'s own model name; '
    'R-C15.5 ProjectSignature.get_app_sig resolves a name by exact app id '
    'first and uses the legacy-label alias only as a fallback; '
    'R-C15.6 BaseEvolutionTask.execute_tasks reaches the loop over its tasks on every normal path (an empty list excepted) and every iteration calls task.execute(); PurgeAppTask.execute runs its SQL under no condition other than evolution_required; '
    'R-C15.4 also: purging removes the app\'s own, emptied signature entry (guarded by is_empty); R-C15.7 a stored custom many-to-many db_table survives loading (shared with R-C06.10).'
    ' '
    'R-C15.8 keyed probes of ProjectSignature._app_sigs occur only inside get_app_sig (the lookup that honours legacy labels).'
    ' '
    'R-C15.9 (= R-C17.7) a generator of statement batches is iterated once in run_sql.'
    ' '
    'R-C15.11 AppSignature.is_empty() depends on the model signatures only.'
    ' '
    'R-C15.12 the evolve command queues the purge after every app task.'
    ' '
    'R-C15.13 model field defaults in models.py are callables or constants, not call results.'
    ' '
    'R-C15.14 queue_purge_old_apps iterates initial_diff.deleted in stored order (list()/tuple() wrappers accepted, sorted()/reversed()/set() not): a stale app referencing another stale app must be prepared while that app is still in the signature.')
NOT_DECIDED = (
    'Non-interference with other apps\' tables and rows for every project '
    'layout (prefix table names, shared m2m tables).')
TECHNIQUE = ('who-may-call over the package (DROP TABLE emitters), '
             'provenance slices of dropped table names, control dependence '
             'of purge queuing on the --purge option')
LEVEL_NOTE = ('Trusted: Python ast, CFG, reaching definitions; table names '
              'are followed to the attribute they are read from.')

ALLOWED_DROP_CALLERS = {
    'DeleteModel.mutate': 'drops the model\'s table and its m2m tables',
    'DeleteField.mutate': 'drops the m2m table of a deleted ManyToManyField',
    'SQLiteAlterTableSQLResult.to_sql': 'drops the old table after the copy '
                                        '(order checked under R-C02.5)',
}
ALLOWED_DROP_LITERALS = {
    'BaseEvolutionOperations.delete_table': 'the single DROP TABLE emitter',
}


def r1_who_may_drop(ctx):
    ctx.rule('R-C15.1')
    p = ctx.program
    n = 0
    for f in p.all_funcs():
        for c in str_constants(f.node):
            if 'DROP TABLE' in c.value.upper():
                n += 1
                if f.qualname in ALLOWED_DROP_LITERALS:
                    ctx.ok(f, 'designated DROP TABLE emitter: %s' %
                           ALLOWED_DROP_LITERALS[f.qualname], c)
                else:
                    ctx.finding(f, c, 'DROP TABLE literal outside the '
                                'designated emitter')
        for c in walk_no_nested(f.node, include_lambda=True):
            if isinstance(c, ast.Call) and call_name(c) == 'delete_table':
                n += 1
                if f.qualname in ALLOWED_DROP_CALLERS:
                    ctx.ok(f, 'designated caller of delete_table: %s' %
                           ALLOWED_DROP_CALLERS[f.qualname], c)
                else:
                    ctx.finding(f, c, 'delete_table() is called from %s, '
                                'which is not a designated table-dropping '
                                'site' % f.qualname)
            if isinstance(c, ast.Call) and call_name(c) == 'delete_model' \
                    and 'schema_editor' in unparse(c.func):
                if f.qualname == 'sql_delete':
                    ctx.ok(f, 'compat sql_delete drops the models of the app '
                           'it is given', c)
                else:
                    ctx.finding(f, c, 'schema_editor.delete_model() outside '
                                'compat.db.sql_delete')
    ctx.floor('table-dropping sites', n, 5)
    # sql_delete is not reachable from the evolve command
    users = [f for f, c in p.callers_of('sql_delete')
             if f.name != 'sql_delete']
    for f in users:
        ctx.finding(f, None, 'compat sql_delete (drops every table of an '
                    'app) is used by %s' % f.qualname, key='sql_delete-user')
    if not users:
        ctx.ok(('django_evolution.compat.db', 'sql_delete'),
               'sql_delete has no caller in the package (test helper only)')


def r2_argument_provenance(ctx):
    ctx.rule('R-C15.2')
    p = ctx.program
    f = p.func('mutations.delete_model', 'DeleteModel.mutate')
    g = ctx.cfg(f)
    rd = ReachingDefs(g, f.params)
    drops = nodes_with_call(g, 'delete_table')
    ctx.floor('delete_table calls in DeleteModel.mutate', len(drops), 2)
    for n, c in drops:
        arg = c.args[0]
        origin_txt = ' ; '.join(unparse(e) for _, e in rd.origins(n, arg))
        if '_meta.db_table' in origin_txt and 'model' in origin_txt and \
                '_get_m2m_db_table' not in origin_txt:
            ctx.ok(f, 'drops the model\'s own table (model._meta.db_table)',
                   c)
        elif '_get_m2m_db_table(model._meta)' in origin_txt:
            # the field comes from the model's own field signatures
            loops = [l for l in walk_no_nested(f.node)
                     if isinstance(l, ast.For) and c in list(ast.walk(l))]
            ok = loops and 'mutator.model_sig.field_sigs' in unparse(
                loops[0].iter)
            m2m = any(isinstance(t, ast.If) and 'ManyToManyField' in
                      unparse(t.test) and c in list(ast.walk(t))
                      for t in walk_no_nested(f.node))
            if ok and m2m:
                ctx.ok(f, 'drops the m2m table of one of the model\'s own '
                       'ManyToManyField signatures', c)
            else:
                ctx.finding(f, c, 'an m2m table is dropped for a field that '
                            'is not drawn from the model\'s own '
                            'ManyToManyField signatures')
        else:
            ctx.finding(f, c, 'DeleteModel drops a table whose name does not '
                        'derive from the model being deleted (%s)' %
                        origin_txt[:80])
    for q, getter in (('DeleteApplication.simulate',
                       'simulation.get_app_sig()'),
                      ('DeleteApplication.mutate',
                       'get_app_sig(mutator.app_label)')):
        df = p.func('mutations.delete_application', q)
        loops = [l for l in walk_no_nested(df.node) if isinstance(l, ast.For)]
        ok = False
        for l in loops:
            it = unparse(l.iter)
            if 'model_sigs' in it:
                # the app signature it iterates
                name = it.split('.model_sigs')[0].replace('list(', '')
                for a in walk_no_nested(df.node):
                    if isinstance(a, ast.Assign) and any(
                            isinstance(t, ast.Name) and t.id == name
                            for t in a.targets) and \
                            unparse(a.value).endswith(getter) or (
                                isinstance(a, ast.Assign) and any(
                                    isinstance(t, ast.Name) and t.id == name
                                    for t in a.targets) and
                                getter in unparse(a.value)):
                        ok = True
        if ok:
            ctx.ok(df, '%s iterates only the model signatures of its own '
                   'app (%s)' % (q, getter))
        else:
            ctx.finding(df, None, '%s does not iterate the model signatures '
                        'of its own app label' % q, key='wrong-app-sig')
        # the DeleteModel it builds is for that model name
        built = [c for c in walk_no_nested(df.node)
                 if isinstance(c, ast.Call) and call_name(c) == 'DeleteModel']
        # ... that is, <loop variable>.model_name of the model_sigs loop
        # that encloses the constructor call (read directly or through
        # single-assignment locals)
        def _for_iterated(c):
            if not c.args:
                return False
            for l in loops:
                if 'model_sigs' in unparse(l.iter) and \
                        isinstance(l.target, ast.Name) and \
                        any(x is c for x in ast.walk(l)):
                    return unparse(expand_expr(df, c.args[0])) == \
                        '%s.model_name' % l.target.id
            return False
        if built and all(_for_iterated(c) for c in built):
            ctx.ok(df, 'DeleteModel is built for the iterated model name',
                   built[0])
        else:
            ctx.finding(df, None, '%s does not build DeleteModel(model_name) '
                        'for the iterated model' % q, key='wrong-model')
    # DeleteField only drops for m2m fields
    dfm = p.func('mutations.delete_field', 'DeleteField.mutate')
    g = ctx.cfg(dfm)
    drops = nodes_with_call(g, 'delete_table')
    tests = [t for t in g.nodes if t.kind == 'test' and
             'ManyToManyField' in unparse(t.ast)]
    if drops and tests and all(any(g.guarded_by(n, t, 'T') for t in tests)
                               for n, _ in drops):
        ctx.ok(dfm, 'DeleteField drops a table only for ManyToManyField')
    else:
        ctx.finding(dfm, None, 'DeleteField can drop a table for a non-m2m '
                    'field', key='deletefield-drop')


def r3_purge_opt_in(ctx):
    ctx.rule('R-C15.3')
    p = ctx.program
    f = p.func('management.commands.evolve', 'Command._add_tasks')
    g = ctx.cfg(f)
    purges = nodes_with_call(g, 'queue_purge_old_apps')
    tests = [t for t in g.nodes if t.kind == 'test' and
             is_self_attr(t.ast, 'purge')]
    if purges and tests and all(any(g.guarded_by(n, t, 'T') for t in tests)
                                for n, _ in purges):
        ctx.ok(f, 'queue_purge_old_apps() only under self.purge', purges[0][1])
    else:
        ctx.finding(f, None, 'stale apps are queued for purging without '
                    '--purge', key='purge-unguarded')
    # other callers of the purge queue in the package
    for cf, c in p.callers_of('queue_purge_old_apps') + \
            p.callers_of('queue_purge_app'):
        if cf.qualname in ('Command._add_tasks',
                           'Evolver.queue_purge_old_apps'):
            continue
        ctx.finding(cf, c, 'purge queued from %s' % cf.qualname)
    h = p.func('management.commands.evolve', 'Command.handle')
    src = [n for n in walk_no_nested(h.node) if isinstance(n, ast.Assign) and
           any(is_self_attr(t, 'purge') for t in n.targets)]
    if src and all("options['purge']" in unparse(n.value) for n in src):
        ctx.ok(h, "self.purge is options['purge']", src[0])
    else:
        ctx.finding(h, src[0] if src else None, 'self.purge is not taken '
                    "from options['purge']", key='purge-source')
    add = None
    for a in walk_no_nested(p.func('management.commands.evolve',
                                   'Command.add_arguments').node):
        if isinstance(a, ast.Call) and call_name(a) == 'add_argument' and \
                any(const_str(x) == '--purge' for x in a.args):
            add = a
    if add is not None and isinstance(kwarg(add, 'default'), ast.Constant) \
            and kwarg(add, 'default').value is False and \
            const_str(kwarg(add, 'action')) == 'store_true':
        ctx.ok(('django_evolution.management.commands.evolve',
                'Command.add_arguments'), '--purge defaults to False', add)
    else:
        ctx.finding(('django_evolution.management.commands.evolve',
                     'Command.add_arguments'), add, '--purge is not an '
                    'opt-in flag defaulting to False', key='purge-default')
    q = p.func('evolve.evolver', 'Evolver.queue_purge_old_apps')
    loops = [l for l in walk_no_nested(q.node) if isinstance(l, ast.For)]
    it, reordered = (loops[0].iter if loops else None), None
    while isinstance(it, ast.Call) and len(it.args) >= 1 and \
            (call_name(it) or '') in ('list', 'tuple', 'iter', 'iterkeys',
                                      'sorted', 'reversed', 'set',
                                      'frozenset'):
        if call_name(it) in ('sorted', 'reversed', 'set', 'frozenset'):
            reordered = call_name(it)
        it = it.args[0]
    if isinstance(it, ast.Call) and isinstance(it.func, ast.Attribute) and \
            it.func.attr == 'keys' and not it.args:
        it = it.func.value
    if it is not None and unparse(it) == 'self.initial_diff.deleted':
        ctx.ok(q, 'purges exactly the apps in initial_diff.deleted',
               loops[0])
        # R-C15.14: ... in the order they are stored in.  A stale app whose
        # models reference another stale app can only be prepared while the
        # other app's signature is still there; the stored order is the one
        # the apps were installed (and so could be referenced) in, any
        # re-ordering by label makes such a purge abort with
        # MissingSignatureError and remove nothing.
        ctx.rule('R-C15.14')
        if reordered:
            ctx.finding(q, loops[0].iter, 'queue_purge_old_apps re-orders '
                        'the stale apps with %s(): a stale app that '
                        'references another one is prepared after the app '
                        'it references has been removed from the signature, '
                        'and the purge aborts without removing anything' %
                        reordered, key='purge-order-changed')
        else:
            ctx.ok(q, 'stale apps are purged in stored order', loops[0])
        ctx.rule('R-C15.3')
    else:
        ctx.finding(q, None, 'queue_purge_old_apps does not iterate '
                    'initial_diff.deleted', key='purge-set')
    cs = p.func('management.commands.evolve', 'Command._check_simulation')
    calls = [c for c in walk_no_nested(cs.node)
             if isinstance(c, ast.Call) and call_name(c) == 'is_empty']
    if calls and unparse(kwarg(calls[0], 'ignore_apps') or
                         ast.Constant(None)) == 'not self.purge':
        ctx.ok(cs, 'the gate ignores deleted apps exactly when not purging',
               calls[0])
    else:
        ctx.finding(cs, calls[0] if calls else None, 'is_empty(ignore_apps=) '
                    'is not "not self.purge"', key='ignore-apps')
    d = p.func('diff', 'Diff.is_empty')
    txt = unparse(d.node)
    if 'self.deleted' in txt and 'self.changed' in txt:
        ctx.ok(d, 'Diff.is_empty considers deleted apps unless told to '
               'ignore them')
    else:
        ctx.finding(d, None, 'Diff.is_empty no longer looks at deleted apps',
                    key='is-empty')


def r4_signature_removal_scoped(ctx):
    ctx.rule('R-C15.4')
    p = ctx.program
    for mod, q in (('mutations.delete_model', 'DeleteModel.simulate'),
                   ('mutations.delete_application',
                    'DeleteApplication.simulate')):
        f = p.func(mod, q)
        calls = [c for c in walk_no_nested(f.node)
                 if isinstance(c, ast.Call) and
                 call_name(c) == 'remove_model_sig']
        if not calls:
            ctx.finding(f, None, '%s removes nothing from the signature' % q,
                        key='no-removal')
            continue
        for c in calls:
            recv = c.func.value
            ok_recv = False
            if isinstance(recv, ast.Name):
                for a in walk_no_nested(f.node):
                    if isinstance(a, ast.Assign) and any(
                            isinstance(t, ast.Name) and t.id == recv.id
                            for t in a.targets) and \
                            unparse(a.value) == 'simulation.get_app_sig()':
                        ok_recv = True
            arg = unparse(c.args[0]) if c.args else ''
            ok_arg = arg in ('self.model_name', 'model_name')
            if ok_recv and ok_arg:
                ctx.ok(f, 'removes %s from the simulation\'s own app '
                       'signature' % arg, c)
            else:
                ctx.finding(f, c, '%s removes %s from %s, not the named '
                            'model from the simulation\'s own app signature'
                            % (q, arg, unparse(recv)))
    # nobody removes whole app signatures except RenameAppLabel/SQLMutation
    allowed = {'RenameAppLabel.simulate', 'SQLMutation.simulate'}
    purge_removes = False
    for f, c in p.callers_of('remove_app_sig'):
        if f.qualname in allowed or f.name == 'remove_app_sig':
            ctx.ok(f, 'designated caller of remove_app_sig', c)
        elif f.qualname in ('PurgeAppTask.prepare',
                            'DeleteApplication.simulate'):
            # removing the purged app's own (emptied) entry: the argument
            # must derive from the task's / simulation's own app label
            g = ctx.cfg(f)
            from ..flow import ReachingDefs
            rd = ReachingDefs(g, f.params)
            node = next((n for n in g.nodes if c in n.calls()), None)
            src = ' '.join(unparse(e) for _, e in rd.origins(node, c.args[0])
                           ) if node is not None and c.args else ''
            own = 'self.app_label' in src or 'simulation.app_label' in src \
                or 'simulation.get_app_sig()' in src
            emptied = node is not None and any(
                t.kind in ('test', 'operand') and 'is_empty' in unparse(t.ast)
                and g.guarded_by(node, t, 'T') for t in g.nodes)
            if own and emptied:
                ctx.ok(f, 'removes the purged app\'s own, emptied signature '
                       'entry', c)
                purge_removes = True
            elif own:
                ctx.finding(f, c, '%s removes the app\'s signature entry '
                            'without checking that it is empty: models that '
                            'were skipped (routed to another database) would '
                            'lose their signatures' % f.qualname,
                            key='app-sig-removed-unconditionally')
            else:
                ctx.finding(f, c, '%s removes the app signature %s, which is '
                            'not derived from its own app label' % (
                                f.qualname, unparse(c.args[0]) if c.args
                                else '?'))
        else:
            ctx.finding(f, c, 'remove_app_sig called from %s' % f.qualname)
    # "... and removes exactly its entries from the stored signature": the
    # purged app's entry itself has to go, otherwise the (now empty) app is
    # reported as deleted by every later diff and `evolve --purge` can never
    # pass its own simulation check
    pp = p.func('evolve.purge_app_task', 'PurgeAppTask.prepare')
    if purge_removes:
        ctx.ok(pp, 'purging removes the app\'s signature entry')
    else:
        ctx.finding(pp, None, 'purging an app removes its model signatures '
                    '(DeleteApplication.simulate) but never the app '
                    'signature itself: the empty entry stays in the stored '
                    'signature, is reported as a deleted app by every later '
                    'diff, and `evolve --purge --execute` aborts in '
                    '_check_simulation before executing anything',
                    key='purged-app-sig-stays')


def r5_exact_lookup_first(ctx, rule_id='R-C15.5'):
    """The app named for purge/delete is resolved by exact app id first; the
    legacy-label alias is only a fallback."""
    ctx.rule(rule_id)
    p = ctx.program
    f = p.func('signature', 'ProjectSignature.get_app_sig')
    g = ctx.cfg(f)
    exact = [n for n in g.nodes if n.kind == 'stmt' and
             isinstance(n.ast, ast.Assign) and (
                 ('_app_sigs.get(' in unparse(n.ast.value)) or
                 ('_app_sigs[' in unparse(n.ast.value)))]
    legacy = [n for n in g.nodes if n.kind == 'test' and
              'legacy_app_label' in unparse(n.ast)]
    if not exact:
        ctx.finding(f, None, 'get_app_sig has no exact lookup by app id: an '
                    'app whose *legacy* label equals the requested id can be '
                    'returned instead of the app stored under that id (a '
                    'purge would drop the wrong app\'s tables)',
                    key='no-exact-lookup')
        return
    res = exact[0].ast.targets[0]
    # `res is None` (true edge) / `res is not None`, `res` (false edge)
    none_tests = []
    for t in g.nodes:
        if t.kind not in ('test', 'operand') or t.ast is None:
            continue
        a, neg = t.ast, False
        while isinstance(a, ast.UnaryOp) and isinstance(a.op, ast.Not):
            a, neg = a.operand, not neg
        if isinstance(a, ast.Compare) and len(a.ops) == 1 and \
                unparse(a.left) == unparse(res) and \
                unparse(a.comparators[0]) == 'None' and \
                isinstance(a.ops[0], (ast.Is, ast.IsNot, ast.Eq, ast.NotEq)):
            is_none = isinstance(a.ops[0], (ast.Is, ast.Eq))
            none_tests.append((t, 'T' if is_none != neg else 'F'))
        elif unparse(a) == unparse(res):
            none_tests.append((t, 'T' if neg else 'F'))
    ok = legacy and all(
        any(g.guarded_by(l, t, lab) for t, lab in none_tests) and
        g.dominates(exact[0], l) for l in legacy)
    if ok:
        ctx.ok(f, 'the legacy-label alias is consulted only when the exact '
               'app id is not stored', legacy[0].ast)
    elif not legacy:
        ctx.ok(f, 'lookup is by exact app id only')
    else:
        ctx.finding(f, legacy[0].ast, 'the legacy-label comparison is not '
                    'restricted to the case where the exact app id is '
                    'missing: the first app whose legacy label matches wins '
                    'over the app stored under that id',
                    key='legacy-before-exact')
    # the legacy scan also tests equality with the requested id
    for l in legacy:
        if isinstance(l.ast, ast.Compare) and any(
                isinstance(x, ast.Name) and x.id == f.params[1]
                for x in ast.walk(l.ast)):
            ctx.ok(f, 'legacy alias is compared with the requested id',
                   l.ast)


def r6_every_task_executed(ctx):
    """PurgeAppTask.prepare has already removed the purged app's models from
    the project signature that Evolver.evolve is going to save.  The tables
    go with them only if the generic BaseEvolutionTask.execute_tasks really
    executes every task it is handed: every normal path through it reaches
    the loop over `tasks`, and every iteration calls task.execute()."""
    ctx.rule('R-C15.6')
    p = ctx.program
    f = p.func('evolve.base', 'BaseEvolutionTask.execute_tasks')
    g = ctx.cfg(f)
    from ..util import for_heads, loop_body_ids
    heads = [h for h in for_heads(g)
             if isinstance(h.ast.iter, ast.Name) and h.ast.iter.id == 'tasks']
    if not heads:
        ctx.finding(f, None, 'execute_tasks does not iterate over the tasks '
                    'it is given', key='no-loop-over-tasks')
        return
    head = heads[0]
    # an early return for an empty task list skips nothing
    empty_tests = [t for t in g.nodes if t.kind == 'test' and
                   ' '.join(unparse(t.ast).split()) in (
                       'tasks', 'not tasks', 'len(tasks) == 0',
                       'len(tasks) > 0', 'len(tasks)')]
    w = g.path(g.entry, g.exit, avoid=[head] + empty_tests, follow_exc=False)
    if w is None:
        ctx.ok(f, 'every normal path through execute_tasks reaches the loop '
               'over tasks', head.ast)
    else:
        ctx.finding(f, head.ast, 'execute_tasks can return without visiting '
                    'the tasks: their SQL (DROP TABLE of the purged app) is '
                    'skipped while the signature entries are already removed',
                    path=w, key='tasks-skipped')
    body = loop_body_ids(g, head)
    execs = [n for n in g.nodes if n.id in body and any(
        call_name(c) == 'execute' and isinstance(c.func, ast.Attribute) and
        isinstance(c.func.value, ast.Name) and
        c.func.value.id == getattr(head.ast.target, 'id', None)
        for c in n.calls())]
    first = [s for s, l in head.succ if l == 'T']
    if execs and first and g.path(first[0], head, avoid=execs,
                                  follow_exc=False) is None:
        ctx.ok(f, 'each iteration calls task.execute()', execs[0].ast)
    else:
        ctx.finding(f, head.ast, 'an iteration of the task loop can finish '
                    'without calling task.execute()', key='task-not-executed')
    # the task itself: evolution_required and sql are set together
    t = p.func('evolve.purge_app_task', 'PurgeAppTask.execute')
    gt = ctx.cfg(t)
    runs = [n for n in gt.nodes if any(call_name(c) == 'run_sql'
                                       for c in n.calls())]
    ctx.floor('run_sql calls in PurgeAppTask.execute', len(runs), 1)
    tests = [x for x in gt.nodes if x.kind == 'test' and
             any(gt.guarded_by(r, x, 'T') or gt.guarded_by(r, x, 'F')
                 for r in runs)]
    allowed = [x for x in tests if unparse(x.ast) in (
        'self.evolution_required', 'self.sql', 'sql_executor')]
    if len(allowed) == len(tests):
        ctx.ok(t, 'the purge SQL runs whenever the task prepared any',
               runs[0].ast)
    else:
        extra = [unparse(x.ast) for x in tests if x not in allowed]
        ctx.finding(t, runs[0].ast, 'the purge SQL is additionally '
                    'conditional on %s' % ', '.join(extra),
                    key='purge-sql-conditional')


def r7_stored_m2m_table_name_survives(ctx):
    """Which many-to-many table a purge / DeleteModel / DeleteApplication
    drops is computed from the *stored* signature: the field's explicit
    db_table if it has one, else Django's default <table>_<field>.  Real
    runs work on a signature that was loaded from the database, so a stored
    db_table that deserialize() drops (shadowed by a class member, shared
    with R-C06.10) makes the delete aim at the default name - another
    app's table when names are prefix-related."""
    from .c06 import r10_whitelist_names_not_class_attributes
    r10_whitelist_names_not_class_attributes(ctx, rule_id='R-C15.7')


def r8_app_lookup_through_accessor(ctx, rule_id='R-C15.8'):
    """An app may be stored under its legacy label (signatures written
    before the app had an AppConfig label, version-1 signatures).
    ProjectSignature.get_app_sig() is the one lookup that honours that; a
    keyed probe of the underlying table (`_app_sigs.get(id)`,
    `_app_sigs[id]`, `id in _app_sigs`) anywhere else treats such an app as
    absent - ProjectSignature.diff() then lists an installed app as deleted
    and `evolve --purge` drops its tables."""
    ctx.rule(rule_id)
    p = ctx.program
    n = 0
    ACCESSORS = {'get_app_sig'}
    for m in p.modules.values():
        for f in m.all_funcs():
            for x in walk_no_nested(f.node):
                probe = None
                if isinstance(x, ast.Call) and \
                        isinstance(x.func, ast.Attribute) and \
                        x.func.attr in ('get', 'pop', '__getitem__',
                                        '__contains__') and \
                        isinstance(x.func.value, ast.Attribute) and \
                        x.func.value.attr == '_app_sigs':
                    probe = x
                if isinstance(x, ast.Subscript) and \
                        isinstance(x.ctx, ast.Load) and \
                        isinstance(x.value, ast.Attribute) and \
                        x.value.attr == '_app_sigs':
                    probe = x
                if isinstance(x, ast.Compare) and any(
                        isinstance(o, (ast.In, ast.NotIn)) for o in x.ops) \
                        and any(isinstance(c, ast.Attribute) and
                                c.attr == '_app_sigs'
                                for c in x.comparators):
                    probe = x
                if probe is None:
                    continue
                n += 1
                if f.name in ACCESSORS:
                    ctx.ok(f, 'keyed lookup inside the accessor', probe)
                else:
                    ctx.finding(f, probe, '%s probes the app table directly '
                                '(%s) instead of get_app_sig(): an app '
                                'stored under its legacy label is not found '
                                '- the diff reports an installed app as '
                                'deleted and a purge drops its tables' % (
                                    f.qualname,
                                    ' '.join(unparse(probe).split())),
                                key='raw-app-lookup')
    ctx.counts['%s keyed lookups in the app-signature table' % rule_id] = n
    if not n:
        ctx.ok(('django_evolution.signature', 'ProjectSignature'),
               'the app table is never probed by key outside iteration')


def r9_statement_generator_iterated_once(ctx):
    from .c17 import r7_statement_generator_iterated_once
    r7_statement_generator_iterated_once(ctx, rule_id='R-C15.9')


def r10_deletions_lowered_from_one_snapshot(ctx):
    """DeleteApplication deletes every model of an app.  Building the mock of
    a model needs the signatures of the models its relations point to, so the
    SQL of all the deletions has to be computed while all of them are still
    in the signature.  Running `DeleteModel` through run_mutation() *per
    iteration* (mutate = build the mock, simulate = remove the signature)
    makes the second model's mock depend on a signature the first deletion
    already changed: an app whose models reference each other in definition
    order (target first - the natural order) cannot be purged at all
    (MissingSignatureError, nothing dropped)."""
    ctx.rule('R-C15.10')
    p = ctx.program
    f = p.func('mutations.delete_application', 'DeleteApplication.mutate')
    n_loops, hit = 0, False
    for loop in walk_no_nested(f.node):
        if not isinstance(loop, ast.For):
            continue
        n_loops += 1
        for c in ast.walk(loop):
            if isinstance(c, ast.Call) and call_name(c) == 'run_mutation':
                arg = c.args[0] if c.args else None
                from ..util import through_copies
                v = through_copies(f, arg) if arg is not None else None
                is_delete = isinstance(v, ast.Call) and \
                    call_name(v) == 'DeleteModel'
                if not is_delete and isinstance(arg, ast.Name):
                    is_delete = any(
                        isinstance(a, ast.Assign) and
                        isinstance(a.value, ast.Call) and
                        call_name(a.value) == 'DeleteModel' and
                        any(isinstance(t, ast.Name) and t.id == arg.id
                            for t in a.targets)
                        for a in ast.walk(loop))
                if is_delete:
                    hit = True
                    ctx.finding(f, c, 'DeleteApplication.mutate runs each '
                                'DeleteModel through run_mutation() inside '
                                'the loop over the app\'s models: the mock '
                                'of the next model is built from a '
                                'signature from which the previous models '
                                'were already removed, so a model with a '
                                'relation to an earlier model of the same '
                                'app raises MissingSignatureError and the '
                                'purge drops nothing',
                                key='per-model-delete-simulated-in-loop')
    ctx.counts['R-C15.10 loops in DeleteApplication.mutate'] = n_loops
    if not hit:
        ctx.ok(f, 'the deletions of an app are lowered from one signature '
               'snapshot')


def r11_app_entry_empty_means_no_models(ctx):
    """A purge strips the app's models (DeleteApplication) and removes the
    app's entry when AppSignature.is_empty().  Nothing in the purge path
    clears anything else, so "empty" must mean "no models" and nothing more:
    if it also required e.g. no recorded applied_migrations, the entry of a
    purged migrations-managed app would stay behind and the purge could
    never pass its own gate."""
    ctx.rule('R-C15.11')
    p = ctx.program
    f = p.cls('signature', 'AppSignature').methods.get('is_empty')
    if f is None:
        raise AnalysisError('R-C15.11: AppSignature.is_empty not found')
    attrs = {x.attr for x in walk_no_nested(f.node)
             if isinstance(x, ast.Attribute) and
             isinstance(x.value, ast.Name) and x.value.id == 'self'}
    extra = sorted(a for a in attrs if 'model_sig' not in a)
    ctx.counts['R-C15.11 attributes read by AppSignature.is_empty'] = \
        len(attrs)
    if attrs and not extra:
        ctx.ok(f, 'is_empty() looks at the model signatures only')
    else:
        ctx.finding(f, None, 'AppSignature.is_empty() also depends on %s: a '
                    'purged app whose models were all removed but which '
                    'still carries that state keeps its entry in the stored '
                    'signature, is reported as deleted again by every later '
                    'diff, and `evolve --purge --execute` fails its own '
                    'gate' % ', '.join(extra or ['nothing at all']),
                    key='is-empty-not-models-only')


def r12_purge_queued_after_app_tasks(ctx):
    """The evolver prepares and executes task classes in first-queued order.
    The purge task removes the stale apps from the very signature the app
    upgrades build their mock models from, and its DROP TABLEs are committed
    in a scope of their own.  The evolve command must therefore queue the
    purge *after* the app tasks: no app-queueing call is reachable from the
    purge call."""
    ctx.rule('R-C15.12')
    p = ctx.program
    f = p.func('management.commands.evolve', 'Command._add_tasks')
    g = ctx.cfg(f)
    purge = [n for n in g.nodes if any(
        call_name(c) == 'queue_purge_old_apps' for c in n.calls())]
    apps = [n for n in g.nodes if any(
        call_name(c) in ('queue_evolve_app', 'queue_evolve_all_apps')
        for c in n.calls())]
    ctx.floor('queueing calls in Command._add_tasks', len(purge) + len(apps),
              3)
    bad = None
    for pn in purge:
        r = g.reachable([s_ for s_, _l in pn.succ], follow_exc=False)
        for an in apps:
            if an.id in r:
                bad = (pn, an)
    if bad:
        ctx.finding(f, bad[0].ast, 'the purge is queued before the app '
                    'upgrades: stale apps are stripped from the signature '
                    'before the upgrades resolve relations to them (evolve '
                    '--hint --purge aborts), and their tables are dropped '
                    'and committed even when a later upgrade fails and the '
                    'signature is never saved',
                    key='purge-queued-before-app-tasks')
    else:
        ctx.ok(f, 'the purge is queued after every app task')


def r13_model_defaults_not_evaluated_at_import(ctx):
    """`Version.when` orders the stored signatures: the purge (like every
    run) inserts a new Version and relies on its default timestamp to make
    it the current one.  A model field default must be the callable
    (`default=now`), not its result (`default=now()`), which is evaluated
    once at import: a long-running process then saves versions that sort
    *before* the ones other processes saved meanwhile, and the signature
    without the purged app never becomes current."""
    ctx.rule('R-C15.13')
    p = ctx.program
    m = p.module('models')
    n = 0
    for c in ast.walk(m.tree):
        if isinstance(c, ast.Call) and (call_name(c) or '').endswith('Field'):
            for k in c.keywords:
                if k.arg == 'default':
                    n += 1
                    if isinstance(k.value, ast.Call):
                        ctx.finding((m.name, '<module>'), k.value,
                                    'models.py: %s(default=%s) evaluates the '
                                    'default once, when the module is '
                                    'imported, instead of per row' % (
                                        call_name(c),
                                        ' '.join(unparse(k.value).split())),
                                    key='default-evaluated-at-import')
                    else:
                        ctx.ok((m.name, '<module>'), 'default is a constant '
                               'or a callable', k.value)
    ctx.floor('field defaults in django_evolution.models', n, 1)


def run(ctx):
    r13_model_defaults_not_evaluated_at_import(ctx)
    r12_purge_queued_after_app_tasks(ctx)
    r11_app_entry_empty_means_no_models(ctx)
    r10_deletions_lowered_from_one_snapshot(ctx)
    r9_statement_generator_iterated_once(ctx)
    r8_app_lookup_through_accessor(ctx)
    r7_stored_m2m_table_name_survives(ctx)
    r6_every_task_executed(ctx)
    r5_exact_lookup_first(ctx)
    r1_who_may_drop(ctx)
    r2_argument_provenance(ctx)
    r3_purge_opt_in(ctx)
    r4_signature_removal_scoped(ctx)
