"""C06 - stored project signatures read back exactly as written."""
from __future__ import annotations

import ast
from typing import Dict, List, Optional, Set, Tuple

from ..program import (AnalysisError, Class, Func, call_name, const_str,
                       dotted, kwarg, norm_key, unparse, walk_no_nested)
from ..util import expand_expr, is_self_attr, subscript_const

EXPLANATION = (
    'Decided clauses: R-C06.1 for each signature class (Project, App, Model, '
    'Constraint, Index, Field) and each signature version, every dictionary '
    'key serialize() writes is read by deserialize() under the same version, '
    'and every key deserialize() requires (subscript, not .get) is written '
    'unconditionally; R-C06.2 every attribute a signature object holds is '
    'read by its serialize() (identity attributes must instead be the key of '
    'the parent mapping that the parent serialises); R-C06.3 the storage '
    'framing of SignatureField agrees between writer and reader (same prefix '
    'constant, json.dumps/json.loads, pickle_dumps/pickle_loads, and the '
    'loaded value goes through ProjectSignature.deserialize); R-C06.4 (JSON '
    'closure) classes that store deconstructed attribute dictionaries '
    'normalise tuple values, which JSON would silently turn into lists; '
    'R-C06.5 every serializer class that can be chosen when writing '
    'implements both directions, and every marker key a writer emits '
    '(_deconstructed, _enum) is tested by the reader dispatch; R-C06.6 '
    'FieldSignature.deserialize decides whether to load an attribute from the '
    'presence of its key, never from its value; R-C06.7 the mapping type the '
    'storage loader produces (json.loads object_pairs_hook) is accepted by '
    'the type guard in front of every marker test of the reader dispatch; '
    'R-C06.4 (as reformulated) every attribute written through serialize_to_signature is compared by __eq__ through a recursive tuple->list normaliser; R-C06.8 every name in FieldSignature._ATTRIBUTE_DEFAULTS is a constructor parameter of the django field class (installed Django source); R-C06.9 from_*() and deserialize() agree on the empty normal form (None) of every constructor argument; R-C06.10 no field option name is shadowed by a class member of FieldSignature (deserialize skips hasattr(cls, name)).'
    ' '
    "R-C06.11 a version-2 signature is rebuilt from the stored dictionary alone: environment reads (get_app, get_app_upgrade_info, ...) inside deserialize() are reachable only on the sig_version == 1 branch (CFG reachability with the version tests' edges dropped)."
    ' '
    'R-C06.12 module redirections of the legacy unpickler that test a dotted prefix also cover the package name itself.'
    ' '
    'R-C06.13 connector and negation of a Q are stored independently, the connector whenever it differs from the default.'
    ' R-C06.14 (= R-C10.5) no comparison against an UpgradeMethod string constant is by identity: a value read back from a stored signature is equal to the constant, not the same object, so an identity test makes the second write of a reloaded signature differ from the first.')
NOT_DECIDED = (
    'Round-trip equality for all values (nested Q/F/expressions, unicode, '
    'enums, legacy pickles) - needs execution.')
TECHNIQUE = ('writer/reader table agreement extracted per signature version '
             'from serialize()/deserialize() (version-sensitive walk), '
             'attribute-coverage scan, sibling comparison of normalisation '
             'idioms, dispatch-table symmetry')
LEVEL_NOTE = ('Trusted: Python ast; keys are collected flat per class (a key '
              'written in the nested "meta" dictionary and read from it count '
              'as the same table); only constant keys are compared, dynamic '
              'keys (app ids, model and field names, field attribute names) '
              'are the children\'s identity and are checked under R-C06.2.')

SIG = 'signature'
CLASSES = ('ProjectSignature', 'AppSignature', 'ModelSignature',
           'ConstraintSignature', 'IndexSignature', 'FieldSignature')
# attributes that are legitimately not serialised: class -> {attr: reason}
NOT_SERIALISED = {
    'AppSignature': {
        'loaded_sig_version': 'load-time provenance of the object, not part '
                              'of the stored state',
    },
}
IDENTITY = {   # child class -> (identity attr, parent class, parent mapping)
    'AppSignature': ('app_id', 'ProjectSignature', '_app_sigs'),
    'ModelSignature': ('model_name', 'AppSignature', '_model_sigs'),
    'FieldSignature': ('field_name', 'ModelSignature', '_field_sigs'),
}


def _version_of(test) -> Optional[int]:
    if isinstance(test, ast.Compare) and len(test.ops) == 1 and \
            isinstance(test.ops[0], ast.Eq) and \
            isinstance(test.left, ast.Name) and \
            test.left.id == 'sig_version' and \
            isinstance(test.comparators[0], ast.Constant):
        return test.comparators[0].value
    return None


def versioned(stmts, ver=None, cond=False):
    """Yield (statement, version or None, conditional?) flattening ifs."""
    for st in stmts:
        if isinstance(st, ast.If):
            v = _version_of(st.test)
            if v is not None:
                for x in versioned(st.body, v, cond):
                    yield x
                if len(st.orelse) == 1 and isinstance(st.orelse[0], ast.If) \
                        and _version_of(st.orelse[0].test) is not None:
                    for x in versioned(st.orelse, ver, cond):
                        yield x
                else:
                    other = {1: 2, 2: 1}.get(v)
                    for x in versioned(st.orelse, other, cond):
                        yield x
            else:
                yield (st, ver, cond)      # the test expression itself
                for x in versioned(st.body, ver, True):
                    yield x
                for x in versioned(st.orelse, ver, True):
                    yield x
        elif isinstance(st, (ast.For, ast.While)):
            yield (st, ver, cond)
            for x in versioned(st.body, ver, cond):
                yield x
        elif isinstance(st, ast.Try):
            for x in versioned(st.body, ver, cond):
                yield x
            for h in st.handlers:
                for x in versioned(h.body, ver, True):
                    yield x
        elif isinstance(st, ast.With):
            for x in versioned(st.body, ver, cond):
                yield x
        else:
            yield (st, ver, cond)


def _shallow(st):
    """ast nodes of a statement without descending into nested statement
    bodies (those are yielded separately by versioned())."""
    if isinstance(st, ast.If):
        return list(ast.walk(st.test))
    if isinstance(st, (ast.For, ast.While)):
        hdr = [st.iter, st.target] if isinstance(st, ast.For) else [st.test]
        out = []
        for h in hdr:
            out += list(ast.walk(h))
        return out
    return list(ast.walk(st))


def written_keys(f: Func):
    """{key: {(version, conditional)}} for constant keys that reach the
    return value of serialize()."""
    stmts = list(versioned(f.node.body))
    returned: Set[str] = set()
    for st, _, _ in stmts:
        if isinstance(st, ast.Return) and st.value is not None:
            returned |= {n.id for n in ast.walk(st.value)
                         if isinstance(n, ast.Name)}
    changed = True
    while changed:
        changed = False
        for st, _, _ in stmts:
            if isinstance(st, ast.Assign):
                for t in st.targets:
                    if isinstance(t, ast.Subscript) and \
                            isinstance(t.value, ast.Name) and \
                            t.value.id in returned and \
                            isinstance(st.value, ast.Name) and \
                            st.value.id not in returned:
                        returned.add(st.value.id)
                        changed = True
                    if isinstance(t, ast.Name) and \
                            isinstance(st.value, ast.Name):
                        a, b = t.id, st.value.id
                        if (a in returned) != (b in returned):
                            returned |= {a, b}
                            changed = True
    out: Dict[str, Set[Tuple]] = {}

    def add(k, ver, cond):
        out.setdefault(k, set()).add((ver, cond))

    def dict_keys(d, ver, cond):
        for k, v in zip(d.keys, d.values):
            if k is not None and const_str(k) is not None:
                add(const_str(k), ver, cond)
            if isinstance(v, ast.Dict):
                dict_keys(v, ver, cond)

    for st, ver, cond in stmts:
        if isinstance(st, ast.Return) and st.value is not None:
            for n in ast.walk(st.value):
                if isinstance(n, ast.Dict):
                    dict_keys(n, ver, cond)
                    break
        elif isinstance(st, ast.Assign):
            for t in st.targets:
                if isinstance(t, ast.Subscript) and \
                        isinstance(t.value, ast.Name) and \
                        t.value.id in returned and subscript_const(t):
                    add(subscript_const(t), ver, cond)
                if isinstance(t, ast.Name) and t.id in returned and \
                        isinstance(st.value, ast.Dict):
                    dict_keys(st.value, ver, cond)
    return out


def read_keys(f: Func):
    """{key: {(version, required?)}} for constant keys read from the
    signature dictionary parameter (and locals derived from it)."""
    stmts = list(versioned(f.node.body))
    dicts = {p for p in f.params if 'dict' in p}
    changed = True
    while changed:
        changed = False
        for st, _, _ in stmts:
            if isinstance(st, ast.Assign) and len(st.targets) == 1 and \
                    isinstance(st.targets[0], ast.Name):
                v = st.value
                src = None
                if isinstance(v, ast.Name):
                    src = v.id
                elif isinstance(v, ast.Subscript) and \
                        isinstance(v.value, ast.Name):
                    src = v.value.id
                elif isinstance(v, ast.Call) and call_name(v) == 'get' and \
                        isinstance(v.func.value, ast.Name):
                    src = v.func.value.id
                if src in dicts and st.targets[0].id not in dicts:
                    dicts.add(st.targets[0].id)
                    changed = True
    out: Dict[str, Set[Tuple]] = {}
    for st, ver, cond in stmts:
        for n in _shallow(st):
            if isinstance(n, ast.Subscript) and isinstance(n.value, ast.Name) \
                    and n.value.id in dicts and subscript_const(n) and \
                    isinstance(n.ctx, ast.Load):
                out.setdefault(subscript_const(n), set()).add((ver, True))
            if isinstance(n, ast.Call) and call_name(n) == 'get' and \
                    isinstance(n.func.value, ast.Name) and \
                    n.func.value.id in dicts and n.args and \
                    const_str(n.args[0]):
                out.setdefault(const_str(n.args[0]), set()).add((ver, False))
    return out


def r1_key_agreement(ctx):
    ctx.rule('R-C06.1')
    p = ctx.program
    total = 0
    for cname in CLASSES:
        cls = p.cls(SIG, cname)
        ser = p.func(SIG, '%s.serialize' % cname)
        des = p.func(SIG, '%s.deserialize' % cname)
        W = written_keys(ser)
        R = read_keys(des)
        total += len(W)
        for ver in (1, 2):
            w_all = {k for k, s in W.items() if any(v in (None, ver)
                                                    for v, _ in s)}
            w_always = {k for k, s in W.items()
                        if any(v in (None, ver) and not c for v, c in s)}
            r_all = {k for k, s in R.items() if any(v in (None, ver)
                                                    for v, _ in s)}
            r_req = {k for k, s in R.items()
                     if any(v in (None, ver) and req for v, req in s)}
            for k in sorted(w_all - r_all):
                ctx.finding(ser, None, '%s.serialize writes key %r under '
                            'signature version %d but deserialize never reads '
                            'it: the value is lost on reload' % (cname, k,
                                                                 ver),
                            key='written-not-read:%s:v%d' % (k, ver))
            for k in sorted(r_req - w_always):
                ctx.finding(des, None, '%s.deserialize requires key %r under '
                            'signature version %d but serialize writes it '
                            '%s: KeyError on reload' % (
                                cname, k, ver, 'only conditionally'
                                if k in w_all else 'never'),
                            key='required-not-written:%s:v%d' % (k, ver))
            for k in sorted(r_all - w_all):
                if k not in r_req:
                    ctx.info('%s.deserialize optionally reads %r under v%d, '
                             'which serialize does not write' % (cname, k,
                                                                 ver))
            if not (w_all - r_all) and not (r_req - w_always):
                ctx.ok(ser, '%s v%d: %d written keys all read back, %d '
                       'required keys always written (%s)' % (
                           cname, ver, len(w_all), len(r_req),
                           ', '.join(sorted(w_all))))
    ctx.floor('constant keys written by the six serialize() methods', total,
              24)


def _norm(a):
    return a.lstrip('_')


def r2_state_serialised(ctx):
    ctx.rule('R-C06.2')
    p = ctx.program
    for cname in CLASSES:
        cls = p.cls(SIG, cname)
        init = cls.methods.get('__init__')
        if init is None:
            raise AnalysisError('R-C06.2: %s has no __init__' % cname)
        attrs = set()
        for n in walk_no_nested(init.node):
            if isinstance(n, ast.Assign):
                for t in n.targets:
                    if is_self_attr(t):
                        attrs.add(_norm(t.attr))
        ser = cls.methods['serialize']
        read = {_norm(n.attr) for n in walk_no_nested(ser.node,
                                                      include_lambda=True)
                if is_self_attr(n) and isinstance(n.ctx, ast.Load)}
        ident = IDENTITY.get(cname)
        for a in sorted(attrs):
            if a in read:
                ctx.ok(ser, '%s.%s is serialised' % (cname, a))
            elif a in {_norm(x) for x in NOT_SERIALISED.get(cname, {})}:
                ctx.ok(ser, '%s.%s is deliberately not stored: %s' % (
                    cname, a, NOT_SERIALISED[cname][a]))
            elif ident and a == ident[0]:
                # identity attribute: key of the parent's mapping
                pcls = p.cls(SIG, ident[1])
                keyed = False
                for m in pcls.methods.values():
                    for n in walk_no_nested(m.node):
                        if isinstance(n, ast.Assign):
                            for t in n.targets:
                                if isinstance(t, ast.Subscript) and \
                                        is_self_attr(t.value, ident[2]) and \
                                        isinstance(t.slice, ast.Attribute) \
                                        and t.slice.attr == ident[0]:
                                    keyed = True
                pser = pcls.methods['serialize']
                iterates = any(
                    isinstance(n, ast.Call) and
                    call_name(n) in ('iteritems', 'items') and
                    ident[2] in unparse(n)
                    for n in walk_no_nested(pser.node, include_lambda=True))
                if keyed and iterates:
                    ctx.ok(ser, '%s.%s is the key of %s.%s, which the parent '
                           'serialises by items' % (cname, a, ident[1],
                                                    ident[2]))
                else:
                    ctx.finding(ser, None, 'identity attribute %s.%s is '
                                'neither serialised nor the key of the '
                                'parent mapping %s.%s' % (cname, a, ident[1],
                                                          ident[2]),
                                key='identity-lost:%s' % a)
            else:
                ctx.finding(ser, None, '%s.%s is part of the object\'s state '
                            '(set in __init__) but serialize() never reads '
                            'it: it is lost when the signature is stored' % (
                                cname, a), key='attr-not-serialised:%s' % a)
        # and the reader passes every constructor parameter
        des = cls.methods['deserialize']
        params = set(init.params[1:])
        passed = set()
        for c in walk_no_nested(des.node):
            if isinstance(c, ast.Call) and isinstance(c.func, ast.Name) and \
                    c.func.id == 'cls':
                passed |= {k.arg for k in c.keywords if k.arg}
        post = {_norm(t.attr) for n in walk_no_nested(des.node)
                if isinstance(n, ast.Assign) for t in n.targets
                if isinstance(t, ast.Attribute)}
        adders = {call_name(c) for c in walk_no_nested(des.node)
                  if isinstance(c, ast.Call) and
                  (call_name(c) or '').startswith('add_')}
        for prm in sorted(params - passed):
            if init.node.args.defaults and prm in post:
                continue
            ctx.finding(des, None, '%s.deserialize does not pass constructor '
                        'parameter %r: the stored value is not restored' % (
                            cname, prm), key='param-not-restored:%s' % prm)
        if not (params - passed):
            ctx.ok(des, '%s.deserialize passes every constructor parameter '
                   '(%s)' % (cname, ', '.join(sorted(params)) or '-'))


def r3_storage_framing(ctx):
    ctx.rule('R-C06.3')
    p = ctx.program
    dumps = p.func('models', 'SignatureField._dumps')
    loads = p.func('models', 'SignatureField.to_python')

    def prefixes(f):
        out = set()
        for n in walk_no_nested(f.node):
            s = const_str(n)
            if s and s.endswith('!') or (s and s.startswith('json!')):
                out.add(s.split('!')[0] + '!')
        return out
    pw, pr = prefixes(dumps), prefixes(loads)
    if pw and pw == pr:
        ctx.ok(dumps, 'writer and reader use the same framing prefix %s' %
               sorted(pw))
    else:
        ctx.finding(dumps, None, 'storage prefix differs between writer %s '
                    'and reader %s' % (sorted(pw), sorted(pr)),
                    key='prefix:%s:%s' % (sorted(pw), sorted(pr)))
    # the slice removes exactly the prefix that startswith() tested
    tested = [c for c in walk_no_nested(loads.node)
              if isinstance(c, ast.Call) and call_name(c) == 'startswith']
    sliced = [n for n in walk_no_nested(loads.node)
              if isinstance(n, ast.Subscript) and
              isinstance(n.slice, ast.Slice)]
    ok = False
    for t in tested:
        pre = const_str(t.args[0]) if t.args else None
        for sl in sliced:
            lo = sl.slice.lower
            if isinstance(lo, ast.Call) and call_name(lo) == 'len' and \
                    const_str(lo.args[0]) == pre:
                ok = True
            if isinstance(lo, ast.Constant) and pre and lo.value == len(pre):
                ok = True
    if ok:
        ctx.ok(loads, 'the reader strips exactly the prefix it tested')
    else:
        ctx.finding(loads, None, 'the reader does not strip exactly the '
                    'prefix it tested', key='prefix-strip')

    def calls(f):
        return {(dotted(c.func) or call_name(c)) for c in
                walk_no_nested(f.node) if isinstance(c, ast.Call)}
    cw, cr = calls(dumps), calls(loads)
    pairs = (('json.dumps', 'json.loads'), ('pickle_dumps', 'pickle_loads'))
    for w, r in pairs:
        if (w in cw) == (r in cr) and w in cw:
            ctx.ok(dumps, '%s is paired with %s' % (w, r))
        else:
            ctx.finding(dumps, None, 'writer uses %s: %s, reader uses %s: %s'
                        % (w, w in cw, r, r in cr), key='codec:%s' % w)
    if any('ProjectSignature.deserialize' == x for x in cr):
        ctx.ok(loads, 'loaded data goes through ProjectSignature.deserialize')
    else:
        ctx.finding(loads, None, 'to_python no longer ends in '
                    'ProjectSignature.deserialize', key='no-deserialize')
    if any(isinstance(c, ast.Call) and call_name(c) == 'serialize'
           for c in walk_no_nested(dumps.node)):
        ctx.ok(dumps, '_dumps serialises through ProjectSignature.serialize')
    else:
        ctx.finding(dumps, None, '_dumps no longer calls serialize()',
                    key='no-serialize')
    # the text<->bytes conversion around the legacy pickle uses one named
    # codec in both directions
    pd = p.func('compat.py23', 'pickle_dumps')
    pl = p.func('compat.py23', 'pickle_loads')

    def codecs(f, meth):
        return [const_str(c.args[0]) for c in walk_no_nested(f.node)
                if isinstance(c, ast.Call) and call_name(c) == meth and
                c.args and const_str(c.args[0])]
    wc, rc = codecs(pd, 'decode'), codecs(pl, 'encode')
    if wc and rc and set(wc) == set(rc) and len(set(wc)) == 1:
        ctx.ok(pd, 'pickle text is decoded and re-encoded with the same '
               'codec (%s)' % wc[0])
    else:
        ctx.finding(pl, None, 'pickle_dumps decodes the pickle bytes with %s '
                    'but pickle_loads re-encodes the stored text with %s: '
                    'legacy (version 1) signatures containing non-ASCII '
                    'characters are corrupted on load' % (
                        wc or 'no explicit codec', rc or
                        'no explicit codec (a helper default)'),
                    key='pickle-codec:%s:%s' % (wc, rc))
    # the json branch of the writer is the >= 2 branch
    g = ctx.cfg(dumps)
    jn = [n for n in g.nodes for c in n.calls()
          if dotted(c.func) == 'json.dumps']
    # the tested value is the serialised data's '__version__' entry, read
    # directly or through single-assignment locals
    def _texp(n):
        return unparse(expand_expr(dumps, n.ast))
    tests = [n for n in g.nodes if n.kind == 'test' and n.ast is not None and
             '__version__' in _texp(n)]
    if jn and tests and all(any(g.guarded_by(j, t, 'T') for t in tests)
                            for j in jn) and \
            any('>= 2' in _texp(t) or '== 2' in _texp(t) or
                '> 1' in _texp(t) for t in tests):
        ctx.ok(dumps, 'JSON framing is used exactly for signature version '
               '>= 2')
    else:
        ctx.finding(dumps, None, 'JSON framing is not tied to signature '
                    'version >= 2', key='json-version')


def _is_deep_normaliser_unit(fn_node, module_functions, depth=0) -> bool:
    """fn_node, or a module-level function it calls (one level), is a
    recursive tuple -> list normaliser."""
    if _is_deep_normaliser(fn_node):
        return True
    if depth >= 2:
        return False
    for c in ast.walk(fn_node):
        if isinstance(c, ast.Call) and isinstance(c.func, ast.Name) and \
                c.func.id in module_functions and \
                c.func.id != fn_node.name:
            if _is_deep_normaliser_unit(module_functions[c.func.id].node,
                                        module_functions, depth + 1):
                return True
    return False


def _is_deep_normaliser(fn_node) -> bool:
    """A function that maps tuples to lists recursively: tests for tuple and
    calls itself / an inner function of itself on the items."""
    names = {fn_node.name} | {x.name for x in ast.walk(fn_node)
                              if isinstance(x, ast.FunctionDef)}
    has_tuple_test = any(
        isinstance(c, ast.Call) and call_name(c) == 'isinstance' and
        len(c.args) == 2 and 'tuple' in unparse(c.args[1])
        for c in ast.walk(fn_node))
    recursive = False
    for inner in [x for x in ast.walk(fn_node)
                  if isinstance(x, ast.FunctionDef)] + [fn_node]:
        for c in ast.walk(inner):
            if isinstance(c, ast.Call) and isinstance(c.func, ast.Name) and \
                    c.func.id == inner.name:
                recursive = True
    return has_tuple_test and recursive


def r4_json_closure(ctx):
    """JSON has no tuples (and the codec applies to nested values too: the
    lookups inside a stored Q, the items of `expressions`).  Every attribute
    a signature class writes through serialize_to_signature() must be
    compared by __eq__ in a JSON-stable way - both sides through a function
    that maps tuples to lists *recursively* - otherwise the signature built
    from the models and the one read back from the database never compare
    equal.  (Converting top-level tuples in __init__ is not enough.)"""
    ctx.rule('R-C06.4')
    p = ctx.program
    sig_mod = p.module(SIG)
    n = 0
    for cname in CLASSES:
        cls = p.cls(SIG, cname)
        ser = cls.methods['serialize']
        init = cls.methods['__init__']
        eq = cls.methods.get('__eq__')
        stored = []
        for c in walk_no_nested(ser.node):
            if isinstance(c, ast.Call) and \
                    call_name(c) == 'serialize_to_signature' and c.args and \
                    is_self_attr(c.args[0]):
                stored.append(c.args[0].attr)
        if not stored or eq is None:
            continue
        n += 1
        for attr in sorted(set(stored)):
            ok = False
            for c in walk_no_nested(eq.node):
                if isinstance(c, ast.Call) and isinstance(c.func, ast.Name) \
                        and c.func.id in sig_mod.functions and c.args and \
                        any(is_self_attr(x, attr)
                            for x in ast.walk(c.args[0])):
                    if _is_deep_normaliser_unit(
                            sig_mod.functions[c.func.id].node,
                            sig_mod.functions):
                        ok = True
            if ok:
                ctx.ok(eq, '%s.%s is compared in its stored (JSON) form, '
                       'tuples mapped to lists recursively' % (cname, attr))
            else:
                shallow = any(
                    isinstance(c, ast.Call) and call_name(c) == 'isinstance'
                    and len(c.args) == 2 and 'tuple' in unparse(c.args[1])
                    for c in walk_no_nested(init.node))
                ctx.finding(eq, None, '%s.%s is written through '
                            'serialize_to_signature() (JSON: tuples become '
                            'lists, also inside nested values such as Q '
                            'lookups) but __eq__ compares the raw values%s: '
                            'a signature read back from the database is '
                            'unequal to the one built from the models' % (
                                cname, attr, ' (only top-level tuples are '
                                'converted in __init__)' if shallow else ''),
                            key='raw-compare-of-json-value:%s' % attr)
    ctx.floor('signature classes storing deconstructed attrs', n, 2)
    # iterable serializers whose item type JSON cannot represent
    ser_mod = p.module('serialization')
    for c in ser_mod.classes.values():
        base = p.cls('serialization', 'BaseIterableSerialization')
        if c is not base and c.is_subclass_of(base):
            _, it = c.find_attr('item_type')
            t = unparse(it) if it is not None else '?'
            if t == 'list':
                ctx.ok(('django_evolution.serialization', c.name),
                       '%s round-trips through JSON as list' % c.name, it)
            else:
                ctx.info('%s.item_type = %s is not JSON-stable (tuple -> '
                         'list, set -> TypeError); values of this type must '
                         'be normalised by the storing class' % (c.name, t))


def r5_dispatch_symmetry(ctx):
    ctx.rule('R-C06.5')
    p = ctx.program
    m = p.module('serialization')
    base = p.cls('serialization', 'BaseSerialization')
    init = p.func('serialization', '_init_serialization')
    disp = p.func('serialization', '_get_serializer_for_value')
    chosen: Set[str] = set()
    for f in (init, disp):
        for n in walk_no_nested(f.node):
            if isinstance(n, ast.Dict):
                for v in n.values:
                    if isinstance(v, ast.Name) and v.id in m.classes:
                        chosen.add(v.id)
            if isinstance(n, ast.Assign) and isinstance(n.value, ast.Name) \
                    and n.value.id in m.classes:
                chosen.add(n.value.id)
    ctx.floor('serializer classes reachable from the dispatch', len(chosen),
              9)
    python_only = {'ClassSerialization': 'classes (field types) are stored '
                   'by dotted path in FieldSignature, never via '
                   'serialize_to_signature',
                   'PlaceholderSerialization': 'placeholders only appear in '
                   'hints, never in stored signatures'}
    for name in sorted(chosen):
        c = m.classes[name]
        for meth in ('serialize_to_signature', 'deserialize_from_signature'):
            impl = c.find_method(meth)
            if impl is not None and impl.cls is not base:
                ctx.ok(('django_evolution.serialization', name),
                       '%s implements %s (in %s)' % (name, meth,
                                                    impl.cls.name))
            elif name in python_only:
                ctx.ok(('django_evolution.serialization', name),
                       '%s is hint-only: %s' % (name, python_only[name]))
            else:
                ctx.finding(('django_evolution.serialization', name), c.node,
                            '%s can be chosen for a value but does not '
                            'implement %s (NotImplementedError when the '
                            'signature is %s)' % (
                                name, meth, 'stored' if 'serialize_to' in meth
                                else 'loaded'), key='missing:%s' % meth)
    # markers
    markers = set()
    for c in m.classes.values():
        f = c.methods.get('serialize_to_signature')
        if not f:
            continue
        for n in walk_no_nested(f.node):
            if isinstance(n, ast.Dict):
                for k, v in zip(n.keys, n.values):
                    if k is not None and (const_str(k) or '').startswith('_') \
                            and isinstance(v, ast.Constant) and \
                            v.value is True:
                        markers.add(const_str(k))
    tested = {const_str(c.args[0]) for c in walk_no_nested(disp.node)
              if isinstance(c, ast.Call) and call_name(c) == 'get' and c.args
              and const_str(c.args[0])}
    ctx.floor('type markers written by serializers', len(markers), 2)
    for mk in sorted(markers):
        if mk in tested:
            ctx.ok(disp, 'marker %r written by a serializer is recognised by '
                   'the reader dispatch' % mk)
        else:
            ctx.finding(disp, None, 'marker %r is written into stored '
                        'signatures but the reader dispatch never tests it: '
                        'the value would be loaded as a plain dict' % mk,
                        key='marker-untested:%s' % mk)


DICT_SUBTYPES = {'dict': {'dict', 'OrderedDict', 'defaultdict', 'SortedDict'},
                 'Mapping': {'dict', 'OrderedDict', 'defaultdict',
                             'SortedDict'},
                 'OrderedDict': {'OrderedDict'}}


def r7_loader_type_accepted(ctx):
    """The mapping type the storage loader produces must be a type the reader
    dispatch accepts in front of its marker tests: json.loads(...,
    object_pairs_hook=OrderedDict) hands OrderedDicts to a dispatch that
    tests `type(value) is dict` -> the marker is never seen."""
    ctx.rule('R-C06.7')
    p = ctx.program
    to_py = p.func('models', 'SignatureField.to_python')
    loader_types = set()
    loads = [c for c in walk_no_nested(to_py.node)
             if isinstance(c, ast.Call) and dotted(c.func) == 'json.loads']
    ctx.floor('json.loads calls in SignatureField.to_python', len(loads), 1)
    for c in loads:
        hook = kwarg(c, 'object_pairs_hook') or kwarg(c, 'object_hook')
        if hook is None:
            loader_types.add('dict')
        elif isinstance(hook, (ast.Name, ast.Attribute)):
            loader_types.add((dotted(hook) or '?').split('.')[-1])
        else:
            loader_types.add('?')
    disp = p.func('serialization', '_get_serializer_for_value')
    # cls = type(value)
    type_aliases = {'type(value)'}
    for n in walk_no_nested(disp.node):
        if isinstance(n, ast.Assign) and len(n.targets) == 1 and \
                isinstance(n.targets[0], ast.Name) and \
                unparse(n.value) == 'type(value)':
            type_aliases.add(n.targets[0].id)
    guards = 0
    for b in walk_no_nested(disp.node):
        if not (isinstance(b, ast.BoolOp) and isinstance(b.op, ast.And)):
            continue
        marker = None
        for v in b.values:
            for c in ast.walk(v):
                if isinstance(c, ast.Call) and call_name(c) == 'get' and \
                        c.args and (const_str(c.args[0]) or '').startswith('_'):
                    marker = const_str(c.args[0])
        if marker is None:
            continue
        # the marker test must be a direct operand of this conjunction
        if not any(isinstance(v, ast.Compare) and any(
                isinstance(c, ast.Call) and call_name(c) == 'get'
                for c in ast.walk(v)) for v in b.values):
            continue
        accepted = None
        exact = False
        for v in b.values:
            if isinstance(v, ast.Compare) and len(v.ops) == 1 and \
                    isinstance(v.ops[0], (ast.Is, ast.Eq)) and \
                    unparse(v.left) in type_aliases and \
                    isinstance(v.comparators[0], ast.Name):
                accepted, exact = {v.comparators[0].id}, True
            elif isinstance(v, ast.Call) and call_name(v) == 'isinstance' \
                    and len(v.args) == 2 and unparse(v.args[0]) == 'value':
                t = v.args[1]
                names = [x.id for x in (t.elts if isinstance(t, ast.Tuple)
                                        else [t]) if isinstance(x, ast.Name)]
                accepted = set()
                for nm in names:
                    accepted |= DICT_SUBTYPES.get(nm, {nm})
        guards += 1
        if accepted is None:
            ctx.ok(disp, 'marker %r is tested without a type guard' % marker,
                   b)
            continue
        missing = sorted(t for t in loader_types if t not in accepted)
        if missing:
            ctx.finding(disp, b, 'the reader dispatch recognises the %r '
                        'marker only for %s%s, but the storage loader '
                        '(SignatureField.to_python) produces %s: stored '
                        'Q/F/enum values are never rebuilt' % (
                            marker, 'type ' if exact else 'instances of ',
                            '/'.join(sorted(accepted)), '/'.join(missing)),
                        key='marker-type-guard:%s' % marker)
        else:
            ctx.ok(disp, 'marker %r guard accepts the loader\'s mapping '
                   'type(s) %s' % (marker, sorted(loader_types)), b)
    ctx.floor('type-guarded marker tests in the reader dispatch', guards, 2)


def r8_attribute_table_names_field_options(ctx):
    """FieldSignature serialises every attribute it holds but deserialises
    only the names listed in _ATTRIBUTE_DEFAULTS for the field type.  Every
    name in that table must therefore be an option a Django field of that
    type actually takes (a constructor parameter, read from the installed
    Django source): a name that no field has is never recorded by
    from_field(), and the real option it was meant to be is written by
    serialize() and silently dropped by deserialize()."""
    ctx.rule('R-C06.8')
    import importlib.util
    p = ctx.program
    fs = p.cls(SIG, 'FieldSignature')
    _o, table = fs.find_attr('_ATTRIBUTE_DEFAULTS')
    if not isinstance(table, ast.Dict):
        raise AnalysisError('R-C06.8: _ATTRIBUTE_DEFAULTS is not a dict '
                            'literal')
    params: Dict[str, Set[str]] = {}
    for modname in ('django.db.models.fields',
                    'django.db.models.fields.related'):
        spec = importlib.util.find_spec(modname)
        if spec is None or not spec.origin:
            raise AnalysisError('R-C06.8: cannot locate %s' % modname)
        with open(spec.origin, 'r', encoding='utf-8') as fp:
            tree = ast.parse(fp.read())
        for c in tree.body:
            if isinstance(c, ast.ClassDef):
                for m in c.body:
                    if isinstance(m, ast.FunctionDef) and m.name == '__init__':
                        a = m.args
                        params[c.name] = {x.arg for x in a.posonlyargs +
                                          a.args + a.kwonlyargs} - {'self'}
    if 'Field' not in params:
        raise AnalysisError('R-C06.8: django Field.__init__ not found')
    n = 0
    for k, v in zip(table.keys, table.values):
        if not isinstance(v, ast.Dict):
            continue
        cls_name = 'Field' if const_str(k) == '*' else \
            (dotted(k) or '').split('.')[-1]
        allowed = set(params['Field']) | params.get(cls_name, set())
        if cls_name in ('ForeignKey', 'OneToOneField'):
            allowed |= params.get('ForeignKey', set()) | \
                params.get('ForeignObject', set())
        for name_node in v.keys:
            name = const_str(name_node)
            if name is None:
                continue
            n += 1
            if name in allowed:
                ctx.ok(fs.methods.get('deserialize') or
                       ('django_evolution.signature', 'FieldSignature'),
                       '%r is an option of django %s' % (name, cls_name))
            else:
                ctx.finding(('django_evolution.signature', 'FieldSignature'),
                            name_node, '_ATTRIBUTE_DEFAULTS[%s] lists %r, '
                            'which is not an option of django %s (no such '
                            'constructor parameter): it is never recorded, '
                            'and the field option it was meant to be is '
                            'written by serialize() but dropped by '
                            'deserialize()' % (
                                unparse(k), name, cls_name),
                            key='not-a-field-option:%s' % name)
    ctx.floor('attribute names in _ATTRIBUTE_DEFAULTS', n, 10)


def r9_sibling_constructors_agree_on_empty(ctx):
    """from_index()/from_constraint()/from_field() and deserialize() are
    sibling constructors: both end in cls(...).  Where the from_* sibling
    normalises an empty value of an argument to None (`x or None`), the
    deserialising sibling must produce None for "key absent / empty" too
    (a `.get(key)` without a non-None default, or `... or None`); otherwise
    an object whose key was omitted when writing (because it was empty) comes
    back with a different empty value and compares unequal."""
    ctx.rule('R-C06.9')
    p = ctx.program
    n = 0
    for cname in CLASSES:
        cls = p.cls(SIG, cname)
        des = cls.methods.get('deserialize')
        frm = [m for m in cls.methods.values() if m.name.startswith('from_')]
        if des is None or not frm:
            continue
        normalised = set()
        for m in frm:
            for c in walk_no_nested(m.node):
                if isinstance(c, ast.Call) and isinstance(c.func, ast.Name) \
                        and c.func.id == 'cls':
                    for k in c.keywords:
                        if k.arg and any(
                                isinstance(x, ast.BoolOp) and
                                isinstance(x.op, ast.Or) and
                                isinstance(x.values[-1], ast.Constant) and
                                x.values[-1].value is None
                                for x in ast.walk(k.value)):
                            normalised.add(k.arg)
        if not normalised:
            continue
        g = ctx.cfg(des)
        from ..flow import ReachingDefs
        rd = ReachingDefs(g, des.params)
        for node in g.nodes:
            for c in node.calls():
                if not (isinstance(c.func, ast.Name) and c.func.id == 'cls'):
                    continue
                for k in c.keywords:
                    if k.arg not in normalised:
                        continue
                    n += 1
                    bad = None
                    for _on, oe in rd.origins(node, k.value):
                        for x in ast.walk(oe):
                            if isinstance(x, ast.Call) and \
                                    call_name(x) == 'get' and \
                                    len(x.args) >= 2 and not (
                                        isinstance(x.args[1], ast.Constant)
                                        and x.args[1].value is None):
                                bad = x
                    ors_none = any(
                        isinstance(x, ast.BoolOp) and isinstance(x.op, ast.Or)
                        and isinstance(x.values[-1], ast.Constant) and
                        x.values[-1].value is None
                        for x in ast.walk(k.value))
                    if bad is not None and not ors_none:
                        ctx.finding(des, bad, '%s.deserialize passes %s=... '
                                    'from %s: an absent key becomes %s, while '
                                    'the from_* constructor normalises an '
                                    'empty %s to None - the reloaded object '
                                    'differs from the one that was written' % (
                                        cname, k.arg,
                                        ' '.join(unparse(bad).split()),
                                        unparse(bad.args[1]), k.arg),
                                    key='empty-form-differs:%s' % k.arg)
                    else:
                        ctx.ok(des, '%s: absent/empty %s is None in both '
                               'constructors' % (cname, k.arg), c)
    ctx.floor('constructor arguments normalised with `or None`', n, 2)


def r10_whitelist_names_not_class_attributes(ctx, rule_id='R-C06.10'):
    """FieldSignature.deserialize skips every attribute name for which
    hasattr(cls, name) is true ("stored on the class itself").  A class-level
    attribute, method or property of FieldSignature that shares its name
    with a field option in _ATTRIBUTE_DEFAULTS therefore makes that option
    unloadable: it is written by serialize() and silently dropped by
    deserialize()."""
    ctx.rule(rule_id)
    p = ctx.program
    fs = p.cls(SIG, 'FieldSignature')
    des = fs.methods.get('deserialize')
    uses_hasattr = des is not None and any(
        isinstance(c, ast.Call) and call_name(c) == 'hasattr' and c.args and
        unparse(c.args[0]) == 'cls' for c in walk_no_nested(des.node))
    if not uses_hasattr:
        ctx.ok(des or ('django_evolution.signature', 'FieldSignature'),
               'deserialize does not filter attribute names through '
               'hasattr(cls, ...)')
        return
    _o, table = fs.find_attr('_ATTRIBUTE_DEFAULTS')
    names = set()
    if isinstance(table, ast.Dict):
        for v in table.values:
            if isinstance(v, ast.Dict):
                names |= {const_str(k) for k in v.keys
                          if k is not None and const_str(k)}
    ctx.floor('field option names', len(names), 8)
    members = set()
    for k in fs.mro():
        members |= set(k.methods) | set(k.class_attrs)
        for st in k.node.body:
            if isinstance(st, (ast.FunctionDef, ast.AsyncFunctionDef)):
                members.add(st.name)
    clash = sorted(names & members)
    if clash:
        for c in clash:
            ctx.finding(('django_evolution.signature', 'FieldSignature'),
                        None, 'FieldSignature defines a class-level member '
                        'named %r, which is also a field option: '
                        'deserialize() skips it (hasattr(cls, %r)), so a '
                        'stored %s is lost on every load' % (c, c, c),
                        key='option-shadowed-by-class-member:%s' % c)
    else:
        ctx.ok(des, 'no field option name is shadowed by a class member '
               '(%d names)' % len(names))


def r6_presence_not_value(ctx):
    """Whether a stored attribute is loaded must depend on the key being
    present, never on its value (explicit None / False / 0 are values)."""
    ctx.rule('R-C06.6')
    p = ctx.program
    f = p.func(SIG, 'FieldSignature.deserialize')
    g = ctx.cfg(f)
    skips = [n for n in g.nodes if n.kind == 'stmt' and
             isinstance(n.ast, ast.Continue)]
    loads = [n for n in g.nodes if n.kind == 'stmt' and
             isinstance(n.ast, ast.Assign) and any(
                 isinstance(t, ast.Subscript) and
                 unparse(t.value) == 'field_attrs' for t in n.ast.targets)]
    ctx.floor('attribute loads in FieldSignature.deserialize', len(loads), 1)
    bad = []
    for sk in skips:
        for t in g.nodes:
            if t.kind != 'test' or not (g.guarded_by(sk, t, 'T') or
                                        g.guarded_by(sk, t, 'F')):
                continue
            a = t.ast
            presence = (isinstance(a, ast.Compare) and
                        isinstance(a.ops[0], (ast.In, ast.NotIn))) or \
                (isinstance(a, ast.Call) and call_name(a) == 'hasattr') or \
                (isinstance(a, ast.Name) and a.id == 'alias')
            if not presence:
                bad.append((t, sk))
    for ld in loads:
        for t in g.nodes:
            if t.kind == 'test' and (g.guarded_by(ld, t, 'T') or
                                     g.guarded_by(ld, t, 'F')):
                a = t.ast
                if isinstance(a, ast.Compare) and any(
                        isinstance(o, (ast.Is, ast.IsNot, ast.Eq, ast.NotEq))
                        for o in a.ops) and 'value' in unparse(a):
                    bad.append((t, ld))
    if bad:
        t, n = bad[0]
        ctx.finding(f, t.ast, 'a stored field attribute is skipped depending '
                    'on its value ("%s"), not on the key being present: an '
                    'attribute stored with that value (explicit None) is '
                    'silently dropped on reload' % unparse(t.ast),
                    key='value-based-skip')
    else:
        ctx.ok(f, 'attributes are skipped only when their key is absent')


ENVIRONMENT_READERS = {
    'get_app', 'get_apps', 'get_app_upgrade_info', 'get_model', 'get_models',
    'get_app_label', 'get_app_name', 'from_database', 'get_legacy_app_label',
    'has_migrations_module', 'get_evolutions_module', 'get_applied_migrations_by_app',
    'is_app_registered',
}


def r11_current_format_read_from_stored_data_alone(ctx):
    """serialize() omits what is None/empty, so for the current format
    (version 2) "key absent" is itself stored information.  deserialize()
    must rebuild a version-2 object from the stored dictionary alone:
    consulting the installed apps / the database (get_app,
    get_app_upgrade_info, ...) is the version-1 upgrade heuristic and may be
    reachable only on the `sig_version == 1` branch - otherwise what is read
    back depends on the environment at load time and differs from what was
    written."""
    ctx.rule('R-C06.11')
    p = ctx.program
    n_des, n_env = 0, 0
    for cname in CLASSES:
        cls = p.cls(SIG, cname)
        des = cls.methods.get('deserialize')
        if des is None:
            continue
        n_des += 1
        g = ctx.cfg(des)
        drop = set()
        for t in g.nodes:
            if t.kind not in ('test', 'operand') or \
                    not isinstance(t.ast, ast.Compare) or \
                    len(t.ast.ops) != 1:
                continue
            l, op, r = t.ast.left, t.ast.ops[0], t.ast.comparators[0]
            if not (isinstance(l, ast.Name) and l.id == 'sig_version' and
                    isinstance(r, ast.Constant)):
                continue
            if isinstance(op, ast.Eq):
                drop.add((t.id, 'T' if r.value == 1 else 'F'))
            elif isinstance(op, ast.NotEq):
                drop.add((t.id, 'F' if r.value == 1 else 'T'))
        v2 = g.reachable([g.entry], follow_exc=False, drop_edges=drop)
        for node in g.nodes:
            for c in node.calls():
                if call_name(c) in ENVIRONMENT_READERS:
                    n_env += 1
                    if node.id in v2:
                        ctx.finding(des, c, '%s.deserialize reaches %s() for '
                                    'a version-2 signature: a stored app '
                                    'entry without the key comes back with a '
                                    'value guessed from the installed '
                                    'apps/the database at load time, not '
                                    'with what was written' % (
                                        cname, call_name(c)),
                                    key='v2-reads-environment:%s' %
                                    call_name(c))
                    else:
                        ctx.ok(des, '%s() only on the version-1 path' %
                               call_name(c), c)
    ctx.floor('deserialize methods of the signature classes', n_des, 5)
    ctx.counts['R-C06.11 environment reads inside deserialize'] = n_env


def r12_module_remaps_cover_the_package_itself(ctx):
    """DjangoCompatUnpickler.find_class() redirects class lookups of legacy
    (version 1, pickled) signatures: `django.db.models.fields` ->
    `django.db.models` and so on.  A prefix test with a trailing dot
    (`module.startswith('a.b.')`) does not match the package `a.b` itself;
    unless the same branch also tests `module == 'a.b'`, classes pickled
    under the package name are no longer redirected and a stored version-1
    signature cannot be read at all."""
    ctx.rule('R-C06.12')
    p = ctx.program
    m = p.module('compat.picklers')
    n = 0
    for f in m.all_funcs():
        if f.name != 'find_class':
            continue
        for t in walk_no_nested(f.node):
            if not isinstance(t, ast.If):
                continue
            tests = [x for x in ast.walk(t.test)
                     if isinstance(x, (ast.Compare, ast.Call))]
            for x in tests:
                if isinstance(x, ast.Compare) and len(x.ops) == 1 and \
                        isinstance(x.ops[0], (ast.Eq, ast.In)) and \
                        any(const_str(c) for c in ast.walk(x)):
                    n += 1
                if isinstance(x, ast.Call) and call_name(x) == 'startswith' \
                        and x.args and const_str(x.args[0]):
                    n += 1
                    lit = const_str(x.args[0])
                    if lit.endswith('.'):
                        exact = any(
                            isinstance(y, ast.Compare) and any(
                                const_str(c) == lit[:-1]
                                for c in ast.walk(y))
                            for y in ast.walk(t.test))
                        if not exact:
                            ctx.finding(f, x, 'find_class redirects modules '
                                        'that start with %r but not the '
                                        'package %r itself: field classes '
                                        'pickled under the package name '
                                        '(FileField, ImageField of old '
                                        'version-1 signatures) are no '
                                        'longer found and the stored '
                                        'signature cannot be loaded' % (
                                            lit, lit[:-1]),
                                        key='prefix-excludes-package:%s' %
                                        lit)
    ctx.floor('module tests in DjangoCompatUnpickler.find_class', n, 2)
    ctx.ok(('django_evolution.compat.picklers', 'DjangoCompatUnpickler'),
           'module redirections include the package names themselves')


def r13_q_state_stored_independently(ctx, rule_id='R-C06.13'):
    """A Q object has a connector (AND default, OR, XOR) and a negation
    flag; they are independent.  QSerialization.serialize_to_signature()
    writes each under its own key: (a) no store is excluded by the test that
    admits the other (`elif`), and (b) the connector is stored whenever it
    differs from the *default* - a comparison with one particular connector
    (`== Q.OR`) loses every other one (XOR).  The stored form is also what
    IndexSignature / ConstraintSignature compare, so a dropped flag makes two
    different conditions equal and the diff empty."""
    ctx.rule(rule_id)
    p = ctx.program
    f = p.cls('serialization', 'QSerialization').methods[
        'serialize_to_signature']
    g = ctx.cfg(f)
    stores = []
    for node in g.nodes:
        a = node.ast
        if node.kind == 'stmt' and isinstance(a, ast.Assign):
            for t in a.targets:
                if isinstance(t, ast.Subscript) and const_str(t.slice) in (
                        '_connector', '_negated'):
                    stores.append((node, const_str(t.slice)))
    ctx.floor('stores of Q state in QSerialization.serialize_to_signature',
              len(stores), 2)
    tests = [t for t in g.nodes if t.kind in ('test', 'operand')
             and t.ast is not None]
    bad = False
    for t in tests:
        on_t = [s_ for s_ in stores if g.guarded_by(s_[0], t, 'T')]
        on_f = [s_ for s_ in stores if g.guarded_by(s_[0], t, 'F')]
        if on_t and on_f:
            bad = True
            ctx.finding(f, on_f[0][0].ast, 'the %s of a Q is stored only '
                        'when "%s" is false, i.e. never together with %s: a '
                        'negated OR/XOR group is stored (and compared) '
                        'without its negation' % (
                            on_f[0][1], ' '.join(unparse(t.ast).split()),
                            on_t[0][1]), key='q-state-exclusive')
    for node, key in stores:
        if key != '_connector':
            continue
        for t in tests:
            if g.guarded_by(node, t, 'T') or g.guarded_by(node, t, 'F'):
                if not any(isinstance(x, ast.Attribute) and
                           x.attr == 'default' for x in ast.walk(t.ast)):
                    bad = True
                    ctx.finding(f, node.ast, 'the connector of a Q is stored '
                                'only when "%s", not whenever it differs '
                                'from the default: a connector this test '
                                'does not name (XOR) is dropped and the '
                                'condition is read back as AND' %
                                ' '.join(unparse(t.ast).split()),
                                key='q-connector-not-vs-default')
    if not bad:
        ctx.ok(f, 'connector and negation of a Q are stored independently, '
               'the connector whenever it differs from the default')


def r14_string_constants_compared_by_value(ctx):
    """What is read back from storage is *equal* to what was written, never
    the same object: a serialiser that decides what to write by comparing a
    stored attribute to a string constant by identity writes one thing for a
    signature built in this process and another for the same signature
    after a reload (R-C10.5's rule, which is a storage-fidelity rule as
    much as a hand-over one)."""
    from . import c10
    c10.r5_upgrade_method_compared_by_value(ctx, 'R-C06.14')


def run(ctx):
    r14_string_constants_compared_by_value(ctx)
    r13_q_state_stored_independently(ctx)
    r12_module_remaps_cover_the_package_itself(ctx)
    r11_current_format_read_from_stored_data_alone(ctx)
    r6_presence_not_value(ctx)
    r1_key_agreement(ctx)
    r2_state_serialised(ctx)
    r3_storage_framing(ctx)
    r4_json_closure(ctx)
    r5_dispatch_symmetry(ctx)
    r7_loader_type_accepted(ctx)
    r8_attribute_table_names_field_options(ctx)
    r9_sibling_constructors_agree_on_empty(ctx)
    r10_whitelist_names_not_class_attributes(ctx)
