"""C12 - upgrades that cannot reach the current models never touch the
database."""
from __future__ import annotations

import ast

from ..flow import ReachingDefs
from ..program import (AnalysisError, Func, call_name, const_str, dotted,
                       kwarg, norm_key, unparse, walk_no_nested)
from ..util import is_self_attr, nodes_with_call

EXPLANATION = (
    'Decided clauses: R-C12.1 in Command.handle the simulation gate '
    '(_check_simulation) dominates every call that performs the evolution and '
    'nothing between them rebinds the evolver or queues tasks; R-C12.2 the '
    'gate fails closed: every normal return is under "diff.is_empty(...)" '
    '(diff = evolver.diff_evolutions()) or under "not can_simulate()", every '
    'other path raises CommandError; R-C12.3 no state-changing sink '
    '(run_sql(execute=True), ORM writes of Version/Evolution, migration '
    'recording/execution, non-read cursor.execute) is reachable in the call '
    'graph from handle before the gate, except the baseline install in '
    'Evolver.__init__ guarded by "latest_version is None"; R-C12.4 '
    'Simulation.fail always raises and the get_*_sig helpers return a truthy '
    'lookup or reach fail; R-C12.5 each simulate() has the precondition guards '
    'the property names (duplicate field, missing initial, primary key) with '
    'the right data dependence, reaching simulation.fail; R-C12.6 '
    'SimulationFailure is an EvolutionException and handle converts '
    'EvolutionException to CommandError; R-C12.7 no handler for an evolution '
    'error or a broad exception class in any function reachable from the '
    'command can continue normally (CannotSimulate excepted, by design); '
    'R-C12.8 the optimiser that runs before the simulation only registers '
    'ChangeField mutations as absorbable and invalidates consumed entries, so '
    'it cannot fold away a duplicate AddField before it is rejected; '
    'R-C12.9 can_simulate becomes False only as a constructor default, in a CannotSimulate handler or by propagation from a mutator (the gate returns early when it is False); '
    'R-C12.3 also counts MigrationRecorder.ensure_schema() as state-changing; R-C12.5 also requires the missing-initial guard of ChangeField.simulate on every normal path; R-C12.10 the gate must see models the simulation removes (known finding).'
    ' '
    "R-C12.11 in FieldSignature.diff every path that leaves the handler of a failed field construction reaches changed_attrs.append('field_type') (flag-sensitive path search: constants assigned to local flags prune the branches they rule out)."
    ' '
    'R-C12.12 = R-C05.8.'
    ' '
    "R-C12.5 also requires the null exemption of AddField's missing-initial guard to be a truthiness test; R-C12.4 treats fail() as non-returning and is flow-sensitive about rebinding."
    ' '
    'R-C12.13 = R-C15.8; R-C12.14 SimulationFailure and CannotSimulate are not related by inheritance.'
    ' '
    'R-C12.15 ModelSignature.diff compares Meta.indexes / Meta.constraints signatures as sequences (no set()/sorted()/len() collapse of either side): order and multiplicity differences keep the gate shut.')
NOT_DECIDED = (
    'That every perturbed evolution is in fact rejected (quantifies over '
    'evolutions and needs the diff/simulate semantics executed).')
TECHNIQUE = ('CFG dominance and guarded-return analysis of the gate, '
             'call-graph reachability to state-changing sinks, '
             'always-raises analysis, guard/data-dependence matching')
LEVEL_NOTE = ('Trusted: Python ast, hand-built CFG, CHA call graph (calls on '
              'unknown receivers resolve to every compatible package method, '
              '@property reads count as calls), classification of SQL string '
              'literals by prefix (PRAGMA/SELECT/SHOW = read).')

CMD = 'management.commands.evolve'
READ_PREFIXES = ('PRAGMA', 'SELECT', 'SHOW')
STATE_CALLS = ('record_applied_migrations', 'apply_migrations', 'migrate',
               'record_applied', 'record_unapplied', 'unapply_migration',
               'apply_migration',
               # MigrationRecorder.ensure_schema() creates django_migrations
               'ensure_schema')


def r1_gate_dominates(ctx):
    ctx.rule('R-C12.1')
    p = ctx.program
    f = p.func(CMD, 'Command.handle')
    g = ctx.cfg(f)
    gates = nodes_with_call(g, '_check_simulation')
    execs = nodes_with_call(g, '_perform_evolution')
    if not gates:
        ctx.finding(f, None, 'Command.handle never calls _check_simulation',
                    key='no-gate')
        return None, None
    ctx.floor('_perform_evolution call sites in handle', len(execs), 1)
    gate_nodes = [n for n, _ in gates]
    for n, c in execs:
        w = g.must_pass(g.entry, n, gate_nodes)
        if w is None:
            ctx.ok(f, '_check_simulation() dominates _perform_evolution()', c)
        else:
            ctx.finding(f, c, '_perform_evolution() reachable without '
                        'passing the simulation gate', path=w)
        # nothing between gate and execution rebinds the evolver / queues
        between = set()
        for gn in gate_nodes:
            fwd = g.reachable([gn])
            if n.id in fwd:
                # nodes on some path gate -> exec
                for m in g.nodes:
                    if m.id in fwd and m is not gn and \
                            n.id in g.reachable([m]):
                        between.add(m.id)
        bad = []
        for m in g.nodes:
            if m.id not in between or m is n:
                continue
            for a in m.walk():
                if isinstance(a, ast.Assign) and any(
                        is_self_attr(t, 'evolver') for t in a.targets):
                    bad.append((m, a))
                if isinstance(a, ast.Call) and (
                        (call_name(a) or '').startswith('queue_') or
                        call_name(a) == '_add_tasks'):
                    bad.append((m, a))
        for m, a in bad:
            ctx.finding(f, a, 'evolver rebound / tasks queued between the '
                        'gate and the execution')
        if not bad:
            ctx.ok(f, 'no evolver rebinding or task queuing between gate and '
                   'execution', c)
    return f, gate_nodes


def r2_gate_fails_closed(ctx):
    ctx.rule('R-C12.2')
    p = ctx.program
    f = p.func(CMD, 'Command._check_simulation')
    g = ctx.cfg(f)
    rd = ReachingDefs(g, f.params)
    # admissible guards
    guards = []   # (test node, label)
    n_bad_guards = 0
    def gate_calls(n):
        """(call, flipped) for is_empty/can_simulate calls deciding test n,
        directly or through one local binding."""
        out = []
        for c in n.calls():
            if call_name(c) in ('is_empty', 'can_simulate'):
                out.append((c, False, n))
        if isinstance(n.ast, ast.Name):
            for d in rd.reaching(n, n.ast.id):
                v, flip = d.value, False
                while isinstance(v, ast.UnaryOp) and isinstance(v.op, ast.Not):
                    v, flip = v.operand, not flip
                if isinstance(v, ast.Call) and call_name(v) in (
                        'is_empty', 'can_simulate') and \
                        len(rd.reaching(n, n.ast.id)) == 1:
                    out.append((v, flip, d.node))
        return out

    for n in g.nodes:
        if n.kind != 'test':
            continue
        for c, flip, at in gate_calls(n):
            if call_name(c) == 'is_empty':
                # receiver must come from diff_evolutions()
                recv = c.func.value
                orig = rd.origins(at, recv)
                if any(isinstance(e, ast.Call) and
                       call_name(e) == 'diff_evolutions' for _, e in orig):
                    guards.append((n, 'F' if flip else 'T', 'diff.is_empty'))
                else:
                    n_bad_guards += 1
                    ctx.finding(f, c, 'is_empty() is not applied to '
                                'evolver.diff_evolutions()')
            if call_name(c) == 'can_simulate':
                guards.append((n, 'T' if flip else 'F', 'not can_simulate'))
    ctx.floor('gate tests (is_empty / can_simulate)',
              len(guards) + n_bad_guards, 2)
    # every predecessor of RETURN-EXIT must be guarded
    n_ret = 0
    for pred, label in g.exit.pred:
        if label == 'exc':
            continue
        n_ret += 1
        ok = [name for t, lab, name in guards if g.guarded_by(pred, t, lab)]
        what = pred.text()
        if ok:
            ctx.ok(f, 'normal return only under %s' % ' / '.join(ok),
                   pred.ast)
        else:
            w = g.path(g.entry, pred)
            ctx.finding(f, pred.ast, 'the gate can return normally (%s) '
                        'without an empty diff' % what, path=w,
                        key='open-return:' + norm_key(pred.ast)
                        if pred.ast is not None else 'open-fallthrough')
    ctx.floor('normal returns of the gate', n_ret, 1)
    # the failing path raises CommandError
    raises = [n for n in g.nodes if n.kind == 'stmt' and
              isinstance(n.ast, ast.Raise) and
              isinstance(n.ast.exc, ast.Call) and
              call_name(n.ast.exc) == 'CommandError']
    if raises:
        ctx.ok(f, 'residual difference ends in raise CommandError',
               raises[0].ast)
    else:
        ctx.finding(f, None, '_check_simulation has no raise CommandError',
                    key='no-raise')


def _is_read_sql(arg) -> bool:
    """String literal (possibly % / .format / f-string / concatenation) whose
    constant prefix is a read statement."""
    cur = arg
    while True:
        if isinstance(cur, ast.BinOp):
            cur = cur.left
        elif isinstance(cur, ast.Call) and isinstance(cur.func, ast.Attribute) \
                and cur.func.attr in ('format', 'join'):
            cur = cur.func.value
        elif isinstance(cur, ast.JoinedStr) and cur.values:
            cur = cur.values[0]
        else:
            break
    s = const_str(cur)
    return s is not None and s.lstrip().upper().startswith(READ_PREFIXES)


def sink_sites(ctx, f: Func):
    """State-changing primitives directly inside f: [(call, description)]."""
    out = []
    g = None
    for c in walk_no_nested(f.node, include_lambda=True):
        if not isinstance(c, ast.Call):
            continue
        n = call_name(c)
        d = dotted(c.func) or ''
        if n == 'run_sql':
            ex = kwarg(c, 'execute')
            if ex is not None and not (isinstance(ex, ast.Constant) and
                                       ex.value is False):
                out.append((c, 'run_sql(execute=%s)' % unparse(ex)))
        elif n == 'execute' and d.split('.')[-2:-1] and \
                d.split('.')[-2] in ('cursor', '_cursor'):
            if c.args and _is_read_sql(c.args[0]):
                continue
            # guarded by an 'execute' parameter: conditional sink, counted at
            # the call sites that pass execute=True
            if 'execute' in f.params:
                g = g or ctx.cfg(f)
                node = next((x for x in g.nodes if c in x.calls()), None)
                tests = [t for t in g.nodes if t.kind == 'test' and
                         isinstance(t.ast, ast.Name) and t.ast.id == 'execute']
                if node is not None and any(g.guarded_by(node, t, 'T')
                                            for t in tests):
                    continue
            out.append((c, 'cursor.execute(<non-read>)'))
        elif n in ('bulk_create', 'save', 'delete', 'create', 'update',
                   'get_or_create'):
            names = {x.id for x in walk_no_nested(f.node)
                     if isinstance(x, ast.Name)}
            if names & {'Version', 'Evolution'} or 'migration_qs' in d:
                if n == 'save' or 'objects' in d or 'migration_qs' in d:
                    out.append((c, 'ORM write %s' % unparse(c.func)))
        elif n in STATE_CALLS:
            out.append((c, n))
    return out


def r3_no_state_change_before_gate(ctx, handle, gate_nodes):
    ctx.rule('R-C12.3')
    p = ctx.program
    g = ctx.cfg(handle)
    # call sites in handle that may execute before (or at) the gate
    pre = set()
    for n in g.nodes:
        r = g.reachable([n])
        if any(gn.id in r for gn in gate_nodes):
            pre.add(n.id)
    roots = []
    pre_calls = 0
    for n in g.nodes:
        if n.id not in pre:
            continue
        for c in n.calls():
            pre_calls += 1
            targets, prec = ctx.resolve(handle, c)
            roots += targets
        for a in n.walk():
            if isinstance(a, ast.Attribute):
                for attr, cands in p.property_reads(handle):
                    if attr is a:
                        roots += cands
    ctx.floor('calls in handle on a path to the gate', pre_calls, 4)
    init = p.func('evolve.evolver', 'Evolver.__init__')
    ig = ctx.cfg(init)
    base_tests = [t for t in ig.nodes if t.kind == 'test' and
                  'latest_version is None' in unparse(t.ast)]
    if not base_tests:
        raise AnalysisError('R-C12.3: the "latest_version is None" baseline '
                            'guard in Evolver.__init__ was not found')
    base_calls = set()
    for n in ig.nodes:
        if any(ig.guarded_by(n, t, 'T') for t in base_tests):
            for c in n.calls():
                base_calls.add(id(c))

    def skip(f, c):
        return f is init and id(c) in base_calls

    reach = p.reachable_funcs(roots, skip_call=skip)
    ctx.counts['R-C12.3 functions reachable before the gate'] = len(reach)
    n_sinks = 0
    for fq, f in sorted(reach.items()):
        for c, desc in sink_sites(ctx, f):
            if skip(f, c):
                continue
            n_sinks += 1
            chain = p.call_chain(fq)
            ctx.finding(f, c, 'state-changing %s is reachable from '
                        'Command.handle before the simulation gate via %s' %
                        (desc, ' -> '.join(x.split(':')[-1].split(' ')[0]
                                           for x in chain[-5:])),
                        chain=chain)
    if n_sinks == 0:
        ctx.ok(handle, 'no state-changing sink among %d functions reachable '
               'before the gate (baseline install in Evolver.__init__ '
               'excluded)' % len(reach))
    # the excluded block really is the baseline install (directly, or in a
    # private helper called under the guard)
    from ..util import helper_contains
    b = 0
    for n in ig.nodes:
        for c in n.calls():
            if id(c) not in base_calls:
                continue
            is_sink = call_name(c) in ('execute', '_save_project_sig')
            via_helper = helper_contains(
                ctx, init, c, lambda a: isinstance(a, ast.Call) and
                call_name(a) in ('execute', '_save_project_sig'))
            if is_sink or via_helper:
                b += 2 if via_helper and not is_sink else 1
                ctx.ok(init, 'baseline install call is under '
                       '"latest_version is None"', c)
    ctx.floor('baseline-install sinks under the guard', b, 2)
    # positive control: the sink matcher must recognise the known sinks
    known = 0
    for q in ('EvolveAppTask.execute', 'EvolveAppTask._create_models',
              'EvolveAppTask._apply_deferred_sql'):
        if sink_sites(ctx, p.func('evolve.evolve_app_task', q)):
            known += 1
    if sink_sites(ctx, p.func('evolve.purge_app_task',
                              'PurgeAppTask.execute')):
        known += 1
    if sink_sites(ctx, p.func('evolve.evolver', 'Evolver._save_project_sig')):
        known += 1
    ctx.floor('sink matcher positive controls', known, 5)


def r4_fail_raises(ctx):
    ctx.rule('R-C12.4')
    p = ctx.program
    fail = p.func('mutations.base', 'Simulation.fail')
    g = ctx.cfg(fail)
    if g.exit.pred:
        ctx.finding(fail, None, 'Simulation.fail can return normally',
                    key='fail-returns', path=g.path(g.entry, g.exit))
    else:
        ctx.ok(fail, 'Simulation.fail raises on every path')
    # raised type is a SimulationFailure
    rs = [n.ast for n in g.nodes if n.kind == 'stmt' and
          isinstance(n.ast, ast.Raise)]
    if not any(isinstance(r.exc, ast.Call) and
               call_name(r.exc) == 'SimulationFailure' for r in rs):
        ctx.finding(fail, None, 'Simulation.fail does not raise '
                    'SimulationFailure', key='fail-type')
    for name in ('get_app_sig', 'get_model_sig', 'get_field_sig'):
        f = p.func('mutations.base', 'Simulation.%s' % name)
        g = ctx.cfg(f)
        fails = [n for n, _ in nodes_with_call(g, 'fail')]
        bad = False
        for pred, label in g.exit.pred:
            if label == 'exc':
                continue
            if pred in fails:
                continue  # after fail() (never returns)
            # must be `return x` guarded by the truth of x
            a = pred.ast
            ok = False
            if isinstance(a, ast.Return) and isinstance(a.value, ast.Name):
                # `return x` must not be reachable from an edge on which x
                # is falsy, given that fail() never returns
                from ..util import none_edges
                falsy = none_edges(g, a.value.id)
                rebinds = [x for x in g.nodes if x.kind == 'stmt' and
                           isinstance(x.ast, ast.Assign) and any(
                               isinstance(tg, ast.Name) and
                               tg.id == a.value.id for tg in x.ast.targets)]
                ok = bool(falsy)
                for t, lab in falsy:
                    for s_, l in t.succ:
                        if l != lab or s_ in fails or s_ in rebinds:
                            continue
                        truthy = {(tt.id, 'F' if ll == 'T' else 'T')
                                  for tt, ll in falsy}
                        if s_ is pred or g.path(
                                s_, pred, avoid=fails + rebinds,
                                follow_exc=False,
                                drop_edges=truthy) is not None:
                            ok = False
            if not ok:
                bad = True
                ctx.finding(f, a, 'Simulation.%s can return without a truthy '
                            'lookup result' % name,
                            key='lookup-open:' + (norm_key(a) if a is not None
                                                  else 'fallthrough'))
        if not fails:
            bad = True
            ctx.finding(f, None, 'Simulation.%s never calls fail()' % name,
                        key='no-fail')
        if not bad:
            ctx.ok(f, 'returns only a truthy lookup, otherwise reaches fail()')


def _fail_guard_tests(ctx, f: Func):
    """Tests in f whose true/false branch always reaches simulation.fail:
    [(test node, label, fail node)]."""
    g = ctx.cfg(f)
    fails = [n for n, _ in nodes_with_call(g, 'fail')]
    out = []
    for fn in fails:
        for t in g.nodes:
            if t.kind != 'test':
                continue
            for lab in ('T', 'F'):
                if g.guarded_by(fn, t, lab):
                    out.append((t, lab, fn))
    return g, fails, out


def r5_precondition_guards(ctx):
    ctx.rule('R-C12.5')
    p = ctx.program
    n_guards = 0

    def sig_writes(g):
        """Nodes that write the signature (add/remove sig, attribute store on
        a *_sig local)."""
        out = []
        for n in g.nodes:
            for a in n.walk():
                if isinstance(a, ast.Call) and (call_name(a) or '').endswith(
                        '_sig') and (call_name(a) or '').startswith(
                        ('add_', 'remove_')):
                    out.append(n)
                if isinstance(a, (ast.Assign, ast.AugAssign)):
                    ts = a.targets if isinstance(a, ast.Assign) else [a.target]
                    for t in ts:
                        if isinstance(t, ast.Attribute) and \
                                isinstance(t.value, ast.Name) and \
                                t.value.id.endswith('_sig'):
                            out.append(n)
        return out

    def need(f, g, guards, label, pred, dominates_writes):
        nonlocal n_guards
        hits = [(t, lab, fn) for t, lab, fn in guards if pred(t)]
        n_guards += 1
        if not hits:
            ctx.finding(f, None, '%s has no guard "%s" that reaches '
                        'simulation.fail' % (f.qualname, label),
                        key='missing-guard:' + label)
            return
        t, lab, fn = hits[0]
        if dominates_writes:
            same_if = [x for x in g.nodes if x.stmt is t.stmt]
            for w in sig_writes(g):
                if not any(g.dominates(x, w) for x in same_if):
                    ctx.finding(f, w.ast, 'signature written before the "%s" '
                                'guard' % label)
                    return
        ctx.ok(f, 'guard "%s" reaches simulation.fail' % label, t.ast)

    # AddField
    f = p.func('mutations.add_field', 'AddField.simulate')
    g, fails, guards = _fail_guard_tests(ctx, f)
    need(f, g, guards, 'field already exists',
         lambda t: 'get_field_sig' in unparse(t.ast) and
         'field_name' in unparse(t.ast), True)
    need(f, g, guards, 'non-null without initial',
         lambda t: 'self.initial' in unparse(t.ast), True)
    # the null / M2M exemptions are part of the same condition chain
    txt = ' '.join(unparse(t.ast) for t, _, _ in guards)
    if "'null'" in txt and 'ManyToManyField' in txt:
        ctx.ok(f, 'missing-initial guard is exempted only for null=True and '
               'ManyToManyField')
    else:
        ctx.finding(f, None, 'missing-initial guard lost its null / M2M '
                    'exemption tests', key='initial-exemptions')
    # an explicit null=False is non-null: the exemption must be a
    # truthiness test of the attribute, not an identity test with None
    for t, _lab, _fn in guards:
        for c in ast.walk(t.ast):
            if isinstance(c, ast.Compare) and len(c.ops) == 1 and \
                    isinstance(c.ops[0], (ast.Is, ast.IsNot)) and \
                    "'null'" in unparse(c.left) and \
                    unparse(c.comparators[0]) == 'None':
                ctx.finding(f, c, 'the missing-initial guard of '
                            'AddField.simulate exempts every mutation whose '
                            'null attribute is present (%s): an explicit '
                            'null=False - which the optimiser writes when it '
                            'folds ChangeField(null=False) into the AddField '
                            '- is no longer rejected' %
                            ' '.join(unparse(c).split()),
                            key='null-exemption-by-identity')
    # ChangeField
    f = p.func('mutations.change_field', 'ChangeField.simulate')
    g, fails, guards = _fail_guard_tests(ctx, f)
    need(f, g, guards, 'null=False without initial',
         lambda t: 'self.initial' in unparse(t.ast), False)
    txt = ' '.join(unparse(t.ast) for t, _, _ in guards)
    if "'null'" not in txt:
        ctx.finding(f, None, 'ChangeField initial guard does not test the new '
                    'null value', key='changefield-null')
    # the guard applies to every ChangeField, whichever way the rest of
    # simulate() branches (type change or not): every normal path through
    # simulate() evaluates it
    init_tests = [t for t, _lab, _fn in guards if 'self.initial' in
                  unparse(t.ast)]
    if init_tests:
        # the first operand of the guard's condition chain
        st = init_tests[0].stmt
        chain = [x for x in g.nodes if x.stmt is st and
                 x.kind in ('test', 'operand')]
        w = g.path(g.entry, g.exit, avoid=chain, follow_exc=False)
        if w is None:
            ctx.ok(f, 'every normal path through ChangeField.simulate '
                   'evaluates the missing-initial guard', init_tests[0].ast)
        else:
            ctx.finding(f, init_tests[0].ast, 'the "null=False needs an '
                        'initial value" guard is not evaluated on every '
                        'path through ChangeField.simulate (it is skipped on '
                        'a branch): such a ChangeField simulates cleanly, '
                        'passes the gate and is executed', path=w,
                        key='initial-guard-not-on-all-paths')
    # DeleteField
    f = p.func('mutations.delete_field', 'DeleteField.simulate')
    g, fails, guards = _fail_guard_tests(ctx, f)
    need(f, g, guards, 'primary key cannot be deleted',
         lambda t: 'primary_key' in unparse(t.ast), True)
    # lookups go through the Simulation helpers
    n_lookups = 0
    for mod, q in (('mutations.add_field', 'AddField.simulate'),
                   ('mutations.change_field', 'ChangeField.simulate'),
                   ('mutations.delete_field', 'DeleteField.simulate'),
                   ('mutations.rename_field', 'RenameField.simulate'),
                   ('mutations.change_meta', 'ChangeMeta.simulate'),
                   ('mutations.delete_model', 'DeleteModel.simulate'),
                   ('mutations.rename_model', 'RenameModel.simulate'),
                   ('mutations.move_to_django_migrations',
                    'MoveToDjangoMigrations.simulate')):
        f = p.func(mod, q)
        sim = f.params[1] if len(f.params) > 1 else 'simulation'
        calls = [c for c in walk_no_nested(f.node)
                 if isinstance(c, ast.Call) and
                 isinstance(c.func, ast.Attribute) and
                 isinstance(c.func.value, ast.Name) and
                 c.func.value.id == sim and
                 c.func.attr in ('get_app_sig', 'get_model_sig',
                                 'get_field_sig')]
        g = ctx.cfg(f)
        n_lookups += 1
        if not calls:
            ctx.finding(f, None, '%s does not look its target up through the '
                        'Simulation.get_* helpers (missing app/model/field '
                        'would not be rejected)' % q, key='no-lookup')
            continue
        first = next((n for n in g.nodes if any(c in n.calls()
                                                for c in calls)), None)
        writes = sig_writes(g)
        if first is not None and all(g.dominates(first, w) or first is w
                                     for w in writes):
            ctx.ok(f, 'validated lookup (%s) dominates every signature write'
                   % unparse(calls[0]), calls[0])
        else:
            ctx.finding(f, calls[0], 'a signature write in %s is not '
                        'dominated by a validated lookup' % q)
    ctx.floor('precondition guards', n_guards, 4)
    ctx.floor('simulate() methods with validated lookups', n_lookups, 8)


def r6_errors_surface(ctx):
    ctx.rule('R-C12.6')
    p = ctx.program
    errs = p.module('errors')
    sf = p.cls('errors', 'SimulationFailure')
    ee = p.cls('errors', 'EvolutionException')
    if sf.is_subclass_of(ee):
        ctx.ok(('django_evolution.errors', 'SimulationFailure'),
               'SimulationFailure is an EvolutionException', sf.node)
    else:
        ctx.finding(('django_evolution.errors', 'SimulationFailure'), sf.node,
                    'SimulationFailure is no longer an EvolutionException',
                    key='class-table')
    f = p.func(CMD, 'Command.handle')
    g = ctx.cfg(f)
    hs = [n for n in g.nodes if n.kind == 'except' and n.ast.type is not None
          and 'EvolutionException' in unparse(n.ast.type)]
    gates = nodes_with_call(g, '_check_simulation')
    ok = False
    for h in hs:
        r = g.reachable([h])
        raises = [n for n in g.nodes if n.id in r and n.kind == 'stmt' and
                  isinstance(n.ast, ast.Raise) and
                  isinstance(n.ast.exc, ast.Call) and
                  call_name(n.ast.exc) == 'CommandError']
        if raises and g.exit.id not in r and all(
                any(s is h for s, l in gn.succ if l == 'exc')
                for gn, _ in gates):
            ok = True
    if ok:
        ctx.ok(f, 'EvolutionException from the gate is converted to '
               'CommandError')
    else:
        ctx.finding(f, None, 'EvolutionException raised by the gate is not '
                    'converted to CommandError (or is swallowed)',
                    key='no-conversion')


def r7_no_swallowed_rejection(ctx, handle, gate_nodes):
    """No handler between the command and the simulation swallows an
    evolution error (a rejected evolution must surface)."""
    ctx.rule('R-C12.7')
    p = ctx.program
    ee = p.cls('errors', 'EvolutionException')
    family = {c.name for c in [ee] + ee.all_subclasses()}
    accepted = {'CannotSimulate': 'by design: marks the task as not '
                'simulatable, the command then reports it'}
    broad = {'Exception', 'BaseException'}
    g = ctx.cfg(handle)
    roots = []
    for n in g.nodes:
        for c in n.calls():
            targets, prec = ctx.resolve(handle, c)
            roots += targets
    for attr, cands in p.property_reads(handle):
        roots += cands
    reach = p.reachable_funcs(roots + [handle])
    n = 0
    for fq, f in sorted(reach.items()):
        mod = f.module.name.split('django_evolution.', 1)[-1]
        if mod in ('db.mysql', 'db.postgresql'):
            continue
        for t in walk_no_nested(f.node):
            if not isinstance(t, ast.Try):
                continue
            for h in t.handlers:
                names = [x.id if isinstance(x, ast.Name) else x.attr
                         for x in (ast.walk(h.type) if h.type is not None
                                   else [])
                         if isinstance(x, (ast.Name, ast.Attribute))]
                if h.type is None:
                    names = ['BaseException']
                hit = [nm for nm in names if nm in family or nm in broad]
                if not hit:
                    continue
                n += 1
                if all(nm in accepted for nm in hit):
                    ctx.ok(f, 'handler for %s accepted: %s' % (
                        '/'.join(hit), accepted[hit[0]]), h)
                    continue
                fg = ctx.cfg(f)
                hn = next((x for x in fg.nodes if x.kind == 'except' and
                           x.ast is h), None)
                if hn is None:
                    continue
                if fg.exit.id in fg.reachable([hn]):
                    ctx.finding(f, h, '%s catches %s and can continue '
                                'normally: an evolution error raised while '
                                'preparing/simulating would be swallowed '
                                'instead of rejecting the upgrade' % (
                                    f.qualname, '/'.join(hit)),
                                key='swallow:%s' % '/'.join(hit))
                else:
                    ctx.ok(f, 'handler for %s re-raises or converts' %
                           '/'.join(hit), h)
    ctx.floor('evolution-error / broad handlers reachable from the command',
              n, 6)


def r8_optimiser_keeps_invalid_mutations(ctx):
    """The gate simulates the *optimised* sequence: the optimiser must not
    fold away a mutation whose simulation would fail (a duplicate AddField).
    Same clause as R-C03.6."""
    from .c03 import r6_consumed_entries_invalidated
    r6_consumed_entries_invalidated(ctx, rule_id='R-C12.8')


def r9_cannot_simulate_only_for_raw_sql(ctx):
    """The gate lets an upgrade through without comparing signatures when
    evolver.can_simulate() is false.  That escape exists for mutations that
    raise CannotSimulate (raw SQL).  can_simulate may therefore only become
    False (a) as the constructor default of a task that is not prepared yet,
    (b) in a handler of CannotSimulate, or (c) by propagating another
    object's can_simulate.  Any other `can_simulate = False` switches the
    residual-difference rejection off for the whole run."""
    ctx.rule('R-C12.9')
    p = ctx.program
    n = 0
    for f in p.all_funcs():
        parents = {}
        for a in ast.walk(f.node):
            for c in ast.iter_child_nodes(a):
                parents[id(c)] = a
        for st in ast.walk(f.node):
            if not isinstance(st, ast.Assign):
                continue
            for t in st.targets:
                if not (isinstance(t, ast.Attribute) and
                        t.attr == 'can_simulate'):
                    continue
                n += 1
                v = st.value
                if isinstance(v, ast.Constant) and v.value is True:
                    ctx.ok(f, 'can_simulate = True', st)
                    continue
                if isinstance(v, ast.Attribute) and v.attr == 'can_simulate':
                    ctx.ok(f, 'can_simulate propagated from %s' %
                           unparse(v.value), st)
                    continue
                why = None
                if isinstance(v, ast.Constant) and v.value is False:
                    if f.name == '__init__':
                        why = 'constructor default'
                    cur = st
                    while why is None and id(cur) in parents:
                        cur = parents[id(cur)]
                        if isinstance(cur, ast.ExceptHandler) and \
                                cur.type is not None and \
                                'CannotSimulate' in unparse(cur.type):
                            why = 'CannotSimulate handler'
                        elif isinstance(cur, ast.If) and \
                                'can_simulate' in unparse(cur.test) and \
                                st in list(ast.walk(cur))[0:0] + [
                                    x for b in cur.body for x in ast.walk(b)]:
                            why = 'propagation under %s' % unparse(cur.test)
                if why:
                    ctx.ok(f, 'can_simulate = False: %s' % why, st)
                else:
                    ctx.finding(f, st, '%s sets can_simulate to %s outside a '
                                'CannotSimulate handler: the simulation gate '
                                '(_check_simulation) returns early for the '
                                'whole run and an evolution that does not '
                                'reach the current models is executed' % (
                                    f.qualname, unparse(v)),
                                key='can-simulate-off')
    ctx.floor('assignments to can_simulate', n, 6)


def r10_gate_sees_removed_models(ctx):
    """The gate accepts when Diff(simulated, target) is empty.  The diff
    walks the *simulated* signature's apps and models and looks each one up
    in the target; a model (or app) that the pending evolutions remove but
    the current models still define is on the target side only and produces
    no entry.  Unless the diff also walks the target side, or the gate asks a
    second question, such an upgrade passes the gate and drops a live
    model's table."""
    ctx.rule('R-C12.10')
    p = ctx.program
    target_side = {}
    for cname, attr in (('ProjectSignature', 'app_sigs'),
                        ('AppSignature', 'model_sigs')):
        f = p.func('signature', '%s.diff' % cname)
        loops = [l for l in walk_no_nested(f.node, include_lambda=True)
                 if isinstance(l, (ast.For, ast.comprehension))]
        target_side[cname] = any(
            is_self_attr(x, attr) for l in loops for x in ast.walk(l.iter))
    gate = p.func(CMD, 'Command._check_simulation')
    g = ctx.cfg(gate)
    accepts = [n for n in g.nodes if n.kind == 'stmt' and
               isinstance(n.ast, ast.Return) and
               isinstance(n.ast.value, ast.Constant) and
               n.ast.value.value is True]
    queries = set()
    for n in accepts:
        for t in g.nodes:
            if t.kind in ('test', 'operand') and g.guarded_by(n, t, 'T') or \
                    t.kind in ('test', 'operand') and \
                    n.id in g.reachable([t], follow_exc=False):
                for c in ast.walk(t.ast):
                    if isinstance(c, ast.Call):
                        queries.add(call_name(c))
                    if isinstance(c, ast.Name) and c.id not in ('self',):
                        queries.add(c.id)
    extra = queries - {'is_empty', 'diff', 'can_simulate'}
    if all(target_side.values()):
        ctx.ok(gate, 'the signature diff walks the target side too')
    elif extra:
        ctx.ok(gate, 'the gate asks more than diff.is_empty(): %s' %
               ', '.join(sorted(extra)))
    else:
        blind = [c for c, v in target_side.items() if not v]
        ctx.finding(gate, None, 'the gate accepts on diff.is_empty() alone, '
                    'and %s.diff only walk%s the simulated signature\'s '
                    'entries: a model or app that the queued evolutions '
                    'remove (a stale DeleteModel / DeleteApplication / '
                    'RenameAppLabel) while the current models still define '
                    'it leaves no residual difference - the upgrade is '
                    'executed and the live model loses its table' % (
                        ' and '.join(blind), 's' if len(blind) == 1 else ''),
                    key='gate-blind-to-removed-models')


def r11_unbuildable_type_counts_as_changed(ctx):
    """The gate rejects an evolution through the residual diff.
    FieldSignature.diff() decides whether two different field classes are a
    changed field_type by constructing both fields and comparing their
    internal types; relation fields cannot be constructed from attributes
    alone (TypeError).  "Could not find out" must mean "changed": every path
    on which the construction failed has to reach
    changed_attrs.append('field_type').  Mapping the failure to a sentinel
    and comparing two sentinels (None != None) reports no difference, and an
    evolution that adds a OneToOneField/ManyToManyField where the model
    declares a ForeignKey passes the gate."""
    ctx.rule('R-C12.11')
    p = ctx.program
    f = p.func('signature', 'FieldSignature.diff')
    g = ctx.cfg(f)
    reports = [n for n in g.nodes
               if any(call_name(c) == 'append' and c.args and
                      const_str(c.args[0]) == 'field_type'
                      for c in n.calls())]
    ctx.floor("changed_attrs.append('field_type') sites in "
              'FieldSignature.diff', len(reports), 1)
    n_h = 0
    for t in walk_no_nested(f.node):
        if not isinstance(t, ast.Try):
            continue
        builds = any(isinstance(c, ast.Call) and
                     any(k.arg is None for k in c.keywords)
                     for st in t.body for c in ast.walk(st))
        if not builds:
            continue
        for h in t.handlers:
            n_h += 1
            hn = next((x for x in g.nodes if x.kind == 'except' and
                       (x.ast is h or x.stmt is h)), None)
            if hn is None:
                raise AnalysisError('R-C12.11: handler node not found in '
                                    'the CFG of FieldSignature.diff')
            escape = g.path_with_flags(hn, g.exit, avoid=reports)
            if escape is None:
                ctx.ok(f, 'a field type that cannot be constructed is '
                       'reported as changed', h)
            else:
                ctx.finding(f, h, 'FieldSignature.diff can leave the handler '
                            'for a field type it could not construct without '
                            'reporting field_type as changed (%s): two '
                            'relation classes (ForeignKey vs OneToOneField / '
                            'ManyToManyField) compare as "same type" and the '
                            'residual-difference gate accepts the evolution' %
                            ' -> '.join(
                                'line %d' % getattr(x.stmt, 'lineno', 0)
                                for x in escape[:6] if x.stmt is not None),
                            key='unbuildable-type-not-reported')
    ctx.counts['R-C12.11 handlers around field construction in diff'] = n_h
    if n_h == 0:
        # the construction moved into a helper that is not inlined: the
        # helper must not swallow the failure into a value
        for c in walk_no_nested(f.node):
            if isinstance(c, ast.Call):
                for callee in p.resolve_call(f, c) if hasattr(
                        p, 'resolve_call') else []:
                    for t in walk_no_nested(callee.node):
                        if isinstance(t, ast.Try) and any(
                                isinstance(x, ast.Return) for h in t.handlers
                                for st in h.body for x in ast.walk(st)):
                            ctx.finding(f, c, '%s turns a construction '
                                        'failure into a return value; diff '
                                        'compares two such values' %
                                        callee.qualname,
                                        key='unbuildable-type-not-reported')
        ctx.floor('TypeError handlers around field construction reachable '
                  'from FieldSignature.diff', n_h, 1)


def r12_defaults_precedence(ctx):
    from .c05 import r8_defaults_precedence
    r8_defaults_precedence(ctx, rule_id='R-C12.12')


def r13_app_lookup_through_accessor(ctx):
    from .c15 import r8_app_lookup_through_accessor
    r8_app_lookup_through_accessor(ctx, rule_id='R-C12.13')


def r14_rejection_is_not_cannot_simulate(ctx, rule_id='R-C12.14'):
    """Two exception classes with opposite meanings: CannotSimulate ("this
    mutation cannot be simulated, carry on without simulation" - caught by
    every mutator) and SimulationFailure ("this evolution is invalid" - must
    reach the caller).  Neither may be a subclass of the other, or the
    handlers for the first swallow the second: a mutation its own guard
    rejected (deleting a primary key) is then lowered and executed."""
    ctx.rule(rule_id)
    p = ctx.program
    sf = p.cls('errors', 'SimulationFailure')
    cs = p.cls('errors', 'CannotSimulate')
    if sf.is_subclass_of(cs) or cs.is_subclass_of(sf):
        ctx.finding(('django_evolution.errors', 'SimulationFailure'), sf.node,
                    'SimulationFailure and CannotSimulate are related by '
                    'inheritance: `except CannotSimulate` in the mutators '
                    'now also catches the rejection of an invalid mutation, '
                    'whose already queued operation is then executed',
                    key='rejection-caught-as-cannot-simulate')
    else:
        ctx.ok(('django_evolution.errors', 'SimulationFailure'),
               'SimulationFailure and CannotSimulate are unrelated classes')


def r15_meta_lists_diffed_as_sequences(ctx):
    """The gate ("simulated signature == current models, else refuse before
    any SQL") is Diff.is_empty(), which rests on ModelSignature.diff().
    Meta.indexes / Meta.constraints are *lists*: an evolution whose
    ChangeMeta duplicates or re-orders an entry creates other SQL and stores
    another signature than the models have.  diff() therefore compares the
    two sequences as sequences; collapsing either side into a set (or
    sorting it) lets such an evolution through the gate."""
    ctx.rule('R-C12.15')
    p = ctx.program
    f = p.func('signature', 'ModelSignature.diff')
    from ..util import expand_expr
    n = 0
    for c in walk_no_nested(f.node):
        if not isinstance(c, ast.Compare):
            continue
        e = expand_expr(f, c)
        txt = unparse(e)
        if 'index_sigs' not in txt and 'constraint_sigs' not in txt:
            continue
        n += 1
        lossy = [x for x in [e.left] + list(e.comparators)
                 if isinstance(x, ast.Call) and (call_name(x) or '') in (
                     'set', 'frozenset', 'sorted', 'len')]
        if lossy:
            ctx.finding(f, c, 'ModelSignature.diff compares %s: entries '
                        'that differ only in order or multiplicity are '
                        'reported as unchanged, so an evolution producing '
                        'them passes the "models fully resolved" gate and is '
                        'executed' % ' '.join(unparse(c).split()),
                        key='meta-list-diffed-lossily:%s' % (
                            'indexes' if 'index_sigs' in txt
                            else 'constraints'))
        else:
            ctx.ok(f, 'index / constraint signatures diffed as sequences', c)
    ctx.floor('index/constraint comparisons in ModelSignature.diff', n, 2)


def run(ctx):
    r15_meta_lists_diffed_as_sequences(ctx)
    r14_rejection_is_not_cannot_simulate(ctx)
    r13_app_lookup_through_accessor(ctx)
    r12_defaults_precedence(ctx)
    r11_unbuildable_type_counts_as_changed(ctx)
    r10_gate_sees_removed_models(ctx)
    r9_cannot_simulate_only_for_raw_sql(ctx)
    r8_optimiser_keeps_invalid_mutations(ctx)
    handle, gate_nodes = r1_gate_dominates(ctx)
    r2_gate_fails_closed(ctx)
    if handle is not None:
        r3_no_state_change_before_gate(ctx, handle, gate_nodes)
        r7_no_swallowed_rejection(ctx, handle, gate_nodes)
    r4_fail_raises(ctx)
    r5_precondition_guards(ctx)
    r6_errors_surface(ctx)
