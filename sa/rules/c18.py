"""C18 - batched changes rewrite each table once."""
from __future__ import annotations

import ast
import io
import tokenize

from ..program import (AnalysisError, call_name, const_str, dotted, kwarg,
                       norm_key, unparse, walk_no_nested)
from ..util import is_self_attr, nodes_with_call
from .c01 import (model_mutator_producers, sqlite_effective_methods,
                  returns_alter_table)

EXPLANATION = (
    'Decided clauses: R-C18.1 mergeable_ops contains only op-type strings '
    'that ModelMutator produces and contains add_column, change_column, '
    'delete_column and change_meta (the kinds the property names); no '
    'implicit string concatenation inside the literal; R-C18.2 '
    'generate_table_op_sql reuses the previous result object for mergeable '
    'ops (alias, not a new object), _are_ops_mergeable tests both ops '
    'against the table, generate_table_ops_sql appends a result only when it '
    'differs from the previous one and calls to_sql() once per result; '
    'R-C18.3 in SQLiteAlterTableSQLResult.to_sql the CREATE TABLE / '
    'INSERT..SELECT / DROP / RENAME emissions are outside every loop over the '
    'queued alter_table items; R-C18.4 every handler that is effective for '
    'the SQLite backend queues alter-table items on a result object instead '
    'of flushing a rebuild (.to_sql() / add_sql of an alter-table result); '
    'R-C18.5 AppMutator.run_mutation reuses the last ModelMutator for '
    'consecutive mutations on one model; '
    'R-C18.2 both ops pass one and the same mergeability predicate; R-C18.5 (as rewritten) with a last mutator present and equal model names no path reaches ModelMutator(...); R-C18.6 every op the run mutations queue is mergeable.'
    ' '
    "R-C18.6 second clause: ModelMutator.add_sql stores the caller's mergeable flag unchanged."
    ' '
    'R-C18.7 _get_field_type_change reports a type change only after comparing the field classes.'
    ' '
    'R-C18.8 only run_mutation / add_sql / to_sql close the open ModelMutator; R-C18.9 = R-C02.15; R-C18.10 the result variable generate_table_op_sql returns is bound only by the merge decision (alias of the previous result, or a fresh one): no op branch re-binds it afterwards.')
NOT_DECIDED = (
    'Rebuild counts for all sequences (needs execution and counting on the '
    'statement trace).')
TECHNIQUE = ('table agreement (op-type vocabulary vs mergeable table, token '
             'level), alias analysis of the merged result object, loop '
             'nesting of rebuild emissions in the CFG, return-kind summaries '
             'of backend handlers over the SQLite MRO')
LEVEL_NOTE = ('Trusted: Python ast/tokenize, CFG, MRO-based effective-method '
              'resolution for sqlite3.EvolutionOperations; one accepted flush '
              '(get_drop_unique_constraint_sql in change_meta_unique_together, '
              'sqlite_autoindex names).')

REQUIRED_MERGEABLE = {'add_column', 'change_column', 'delete_column',
                      'change_meta'}
# (method, flushed callee): accepted with reason
ACCEPTED_FLUSH = {
    ('change_meta_unique_together', 'get_drop_unique_constraint_sql'):
        'dropping a sqlite_autoindex unique constraint needs its own REBUILD; '
        'every other name returns plain DROP INDEX SQL',
}


def r1_mergeable_table(ctx):
    ctx.rule('R-C18.1')
    p = ctx.program
    cls = p.cls('db.common', 'BaseEvolutionOperations')
    owner, node = cls.find_attr('mergeable_ops')
    if node is None:
        raise AnalysisError('R-C18.1: mergeable_ops not found')
    where = ('django_evolution.db.common', 'BaseEvolutionOperations')
    members = p.const_collection(owner.module, node, owner)
    if members is None:
        ctx.finding(where, node, 'mergeable_ops is not a literal collection '
                    'of strings', key='not-literal')
        return
    produced = {t for t, _, _ in model_mutator_producers(ctx)}
    ctx.floor('op types produced by ModelMutator', len(produced), 6)
    for m in members:
        if m in produced:
            ctx.ok(where, 'mergeable op %r is produced by ModelMutator' % m,
                   node)
        else:
            ctx.finding(where, node, 'mergeable_ops contains %r, which no '
                        'ModelMutator method produces (phantom entry: the '
                        'ops it was meant to name are never merged)' % m,
                        key='phantom:%s' % m)
    for r in sorted(REQUIRED_MERGEABLE):
        if r in members:
            ctx.ok(where, '%r is mergeable' % r, node)
        else:
            ctx.finding(where, node, '%r ops are not mergeable: consecutive '
                        'ops of this kind on one model are carried out with '
                        'separate table rebuilds' % r, key='missing:%s' % r)
    # token-level: adjacent string literals
    seg = ast.get_source_segment(owner.module.source, node) or ''
    toks = [t for t in tokenize.generate_tokens(io.StringIO(seg).readline)
            if t.type not in (tokenize.NL, tokenize.NEWLINE, tokenize.COMMENT,
                              tokenize.INDENT, tokenize.DEDENT)]
    adj = [(a.string, b.string) for a, b in zip(toks, toks[1:])
           if a.type == tokenize.STRING and b.type == tokenize.STRING]
    if adj:
        ctx.finding(where, node, 'implicit string concatenation inside '
                    'mergeable_ops: %s' % adj, key='implicit-concat')
    else:
        ctx.ok(where, 'no implicit string concatenation in the literal', node)
    # sqlite does not override the table with a smaller one
    scls = p.cls('db.sqlite3', 'EvolutionOperations')
    o2, n2 = scls.find_attr('mergeable_ops')
    if o2 is not owner:
        m2 = p.const_collection(o2.module, n2, o2) or []
        for r in sorted(REQUIRED_MERGEABLE - set(m2)):
            ctx.finding(('django_evolution.db.sqlite3', 'EvolutionOperations'),
                        n2, 'SQLite overrides mergeable_ops without %r' % r,
                        key='sqlite-missing:%s' % r)


def r2_merge_reuses_result(ctx):
    ctx.rule('R-C18.2')
    p = ctx.program
    f = p.func('db.common', 'BaseEvolutionOperations.generate_table_op_sql')
    g = ctx.cfg(f)
    tests = [n for n in g.nodes if n.kind == 'test' and
             any(call_name(c) == '_are_ops_mergeable' for c in n.calls())]
    if not tests:
        ctx.finding(f, None, 'generate_table_op_sql no longer consults '
                    '_are_ops_mergeable', key='no-merge-test')
    else:
        t = tests[0]
        call = [c for c in t.calls()
                if call_name(c) == '_are_ops_mergeable'][0]
        argn = [a.id for a in call.args if isinstance(a, ast.Name)]
        if set(argn) == {'prev_op', 'op'} and len(call.args) == 2:
            ctx.ok(f, '_are_ops_mergeable(prev_op, op) compares the previous '
                   'and the current op', call)
        else:
            ctx.finding(f, call, '_are_ops_mergeable is not applied to '
                        '(prev_op, op)')
        aliased = [n for n in g.nodes if n.kind == 'stmt' and
                   isinstance(n.ast, ast.Assign) and
                   isinstance(n.ast.value, ast.Name) and
                   n.ast.value.id == 'prev_sql_result' and
                   g.guarded_by(n, t, 'T')]
        fresh = [n for n in g.nodes if n.kind == 'stmt' and
                 isinstance(n.ast, ast.Assign) and
                 isinstance(n.ast.value, ast.Call) and
                 'sql_result' in unparse(n.ast.targets[0]) and
                 g.guarded_by(n, t, 'T')]
        if aliased and not fresh:
            ctx.ok(f, 'mergeable ops reuse the previous result object '
                   '(sql_result = prev_sql_result)', aliased[0].ast)
        else:
            ctx.finding(f, call, 'the mergeable branch does not alias '
                        'prev_sql_result: every op gets its own result and '
                        'its own rebuild', key='merge-no-alias')
        # the returned object is that variable
        rets = [n.ast for n in g.nodes if n.kind == 'stmt' and
                isinstance(n.ast, ast.Return)]
        if all(isinstance(r.value, ast.Name) and r.value.id == 'sql_result'
               for r in rets) and rets:
            ctx.ok(f, 'the (possibly shared) result object is what is '
                   'returned', rets[0])
        else:
            ctx.finding(f, rets[0] if rets else None, 'generate_table_op_sql '
                        'does not return the result object it merged into',
                        key='return-other')
        # ... and that variable is not re-bound once the merge decision
        # has been taken: a branch that *assigns* its backend result to it
        # (instead of add()ing it) hands back a fresh result, which the
        # caller renders as a rebuild of its own
        ctx.rule('R-C18.10')
        rvars = {r.value.id for r in rets if isinstance(r.value, ast.Name)}
        after = set()
        for a in aliased:
            for s_ in g.succs(a, False):
                after |= g.reachable([s_], follow_exc=False)
        n_bind = 0
        for n in g.nodes:
            if not (n.kind == 'stmt' and isinstance(
                    n.ast, (ast.Assign, ast.AugAssign, ast.AnnAssign))):
                continue
            tg = n.ast.targets if isinstance(n.ast, ast.Assign) else \
                [n.ast.target]
            if not any(isinstance(x, ast.Name) and x.id in rvars
                       for tt in tg for x in ast.walk(tt)):
                continue
            n_bind += 1
            if n.id in after:
                ctx.finding(f, n.ast, 'generate_table_op_sql re-binds the '
                            'result it returns after aliasing the previous '
                            'result for a mergeable op '
                            '(%s): this operation is never merged into the '
                            'operations queued before it on the table and '
                            'gets a table rebuild of its own' %
                            ' '.join(unparse(n.ast).split())[:80],
                            key='result-rebound-after-merge-decision')
            else:
                ctx.ok(f, 'result variable bound by the merge decision',
                       n.ast)
        ctx.floor('bindings of the returned result in generate_table_op_sql',
                  n_bind, 2)
        ctx.rule('R-C18.2')
    m = p.func('db.common', 'BaseEvolutionOperations._are_ops_mergeable')
    rets = [n for n in walk_no_nested(m.node) if isinstance(n, ast.Return)]
    params = [x for x in m.params if x != 'self']
    ok = False
    from ..util import unit
    consults_table = any(
        is_self_attr(x, 'mergeable_ops') for fn in unit(ctx, m)
        for x in walk_no_nested(fn.node))
    for r in rets:
        v = r.value
        if isinstance(v, ast.BoolOp) and isinstance(v.op, ast.And) and \
                len(v.values) == 2 and len(params) == 2:
            n1 = {x.id for x in ast.walk(v.values[0])
                  if isinstance(x, ast.Name)} & set(params)
            n2 = {x.id for x in ast.walk(v.values[1])
                  if isinstance(x, ast.Name)} & set(params)
            same = unparse(v.values[0]).replace(params[0], '@') == \
                unparse(v.values[1]).replace(params[1], '@') or \
                unparse(v.values[0]).replace(params[1], '@') == \
                unparse(v.values[1]).replace(params[0], '@')
            if len(n1) == 1 and len(n2) == 1 and n1 != n2 and same and \
                    consults_table:
                ok = True
    if ok:
        ctx.ok(m, 'both ops must pass the same mergeability predicate, which '
               'consults mergeable_ops')
    else:
        ctx.finding(m, rets[0] if rets else None, '_are_ops_mergeable is not '
                    'a conjunction of one and the same predicate (consulting '
                    'mergeable_ops) applied to each of the two ops',
                    key='mergeable-shape')
    f2 = p.func('db.common', 'BaseEvolutionOperations.generate_table_ops_sql')
    g2 = ctx.cfg(f2)
    apps = [n for n, c in nodes_with_call(g2, 'append')
            if 'sql_results' in unparse(c.func)]
    tests = [n for n in g2.nodes if n.kind == 'test' and
             isinstance(n.ast, ast.Compare) and
             isinstance(n.ast.ops[0], ast.IsNot) and
             'prev_sql_result' in unparse(n.ast)]
    if apps and tests and all(any(g2.guarded_by(a, t, 'T') for t in tests)
                              for a in apps):
        ctx.ok(f2, 'a result is appended only when it differs from the '
               'previous one', apps[0].ast)
    else:
        ctx.finding(f2, None, 'generate_table_ops_sql appends results '
                    'without the identity test against the previous result '
                    '(a merged result would be emitted twice)',
                    key='append-unguarded')
    tos = nodes_with_call(g2, 'to_sql')
    op_loops = [h for h in g2.nodes if h.kind == 'for' and
                unparse(h.ast.iter) == 'ops']
    bad = False
    for n, c in tos:
        for h in op_loops:
            body = set()
            for s, l in h.succ:
                if l == 'T':
                    body |= g2.reachable([s], avoid=[h], follow_exc=False)
            if n.id in body:
                bad = True
                ctx.finding(f2, c, 'to_sql() is called inside the loop over '
                            'ops: results are flushed before later ops can '
                            'merge into them')
    if tos and not bad:
        ctx.ok(f2, 'to_sql() runs once per collected result, after the op '
               'loop', tos[0][1])


def r3_one_rebuild(ctx):
    ctx.rule('R-C18.3')
    p = ctx.program
    f = p.func('db.sqlite3', 'SQLiteAlterTableSQLResult.to_sql')
    g = ctx.cfg(f)
    from ..util import nodes_emitting
    emitters = []
    for what, pred in (
            ('CREATE TABLE', lambda a: (const_str(a) or '').lstrip().upper()
             .startswith('CREATE TABLE')),
            ('INSERT INTO', lambda a: (const_str(a) or '').lstrip().upper()
             .startswith('INSERT INTO')),
            ('delete_table', lambda a: isinstance(a, ast.Call) and
             call_name(a) == 'delete_table'),
            ('rename_table', lambda a: isinstance(a, ast.Call) and
             call_name(a) == 'rename_table')):
        for n in nodes_emitting(ctx, f, g, pred):
            emitters.append((n, n.ast, what))
    ctx.floor('rebuild emission sites in SQLite to_sql', len(emitters), 4)
    for n, a, what in emitters:
        if g.in_loop(n):
            ctx.finding(f, a, 'rebuild step %r is emitted inside a loop: one '
                        'rebuild per queued item instead of one per table' %
                        what)
        else:
            ctx.ok(f, 'rebuild step %r is emitted once, outside every loop' %
                   what, a)
    # the op loop only accumulates state: no sql emission inside it
    heads = [h for h in g.nodes if h.kind == 'for' and
             'alter_table' in unparse(h.ast.iter)]
    ctx.floor('loops over self.alter_table', len(heads), 1)
    for h in heads:
        body = set()
        for s, l in h.succ:
            if l == 'T':
                body |= g.reachable([s], avoid=[h], follow_exc=False)
        emits = [n for n in g.nodes if n.id in body and n.kind == 'stmt' and
                 isinstance(n.ast, (ast.AugAssign, ast.Expr)) and
                 (unparse(n.ast).startswith('sql +=') or
                  unparse(n.ast).startswith('sql.append'))]
        if emits:
            ctx.finding(f, emits[0].ast, 'SQL is emitted inside the loop '
                        'over queued alter_table items')
        else:
            ctx.ok(f, 'the loop over queued items only accumulates state',
                   h.ast)


def r4_handlers_queue(ctx):
    ctx.rule('R-C18.4')
    p = ctx.program
    eff = sqlite_effective_methods(ctx)
    n_sites = 0
    for name, m in sorted(eff.items()):
        for c in walk_no_nested(m.node, include_lambda=True):
            if not isinstance(c, ast.Call):
                continue
            # explicit flush of a handler result
            if call_name(c) == 'to_sql' and isinstance(c.func.value, ast.Call):
                inner = c.func.value
                if is_self_attr(inner.func) and \
                        returns_alter_table(ctx, eff, inner.func.attr):
                    n_sites += 1
                    ctx.finding(m, c, 'handler flushes %s(...).to_sql(): a '
                                'separate rebuild that cannot be merged' %
                                inner.func.attr)
            if call_name(c) in ('add_sql', 'add_pre_sql', 'add_post_sql',
                                'normalize_sql') and c.args and \
                    isinstance(c.args[0], ast.Call) and \
                    is_self_attr(c.args[0].func):
                callee = c.args[0].func.attr
                if returns_alter_table(ctx, eff, callee):
                    n_sites += 1
                    if (name, callee) in ACCEPTED_FLUSH:
                        ctx.ok(m, 'accepted flush of %s: %s' % (
                            callee, ACCEPTED_FLUSH[(name, callee)]), c)
                    else:
                        ctx.finding(m, c, '%s(%s(...)) normalises (flushes) '
                                    'an alter-table result on the SQLite '
                                    'path: its rebuild cannot be merged with '
                                    'neighbouring ops' % (call_name(c),
                                                          callee))
    ctx.counts['R-C18.4 flush candidates on the SQLite path'] = n_sites
    ctx.floor('SQLite-effective handler methods', len(eff), 20)
    # handlers for the mergeable op kinds return an alter-table result
    for h in ('add_column', 'delete_column', 'change_column_attrs',
              'change_column_attr_null', 'change_column_attr_max_length',
              'change_column_attr_decimal_type', 'get_change_unique_sql',
              'change_column_type'):
        if h not in eff:
            raise AnalysisError('R-C18.4: handler %s not found' % h)
        if returns_alter_table(ctx, eff, h):
            ctx.ok(eff[h], 'returns a queued alter-table result')
        else:
            ctx.finding(eff[h], None, 'SQLite handler %s does not return a '
                        'queued alter-table result' % h,
                        key='handler-not-queued')


def r5_adjacency(ctx):
    """Consecutive mutations on one model must share one ModelMutator (its
    operations are what gets merged into one rebuild).  In
    AppMutator.run_mutation a new ModelMutator may therefore be created only
    when there is no last mutator or its model name differs: with "last
    mutator present" and "model names equal" both true, no path may reach the
    ModelMutator(...) construction.  Any extra condition on the reuse (for
    example the mutation's class) makes such a path."""
    ctx.rule('R-C18.5')
    p = ctx.program
    f = p.func('mutators.app_mutator', 'AppMutator.run_mutation')
    g = ctx.cfg(f)
    from ..util import through_copies

    def is_last(e):
        e = through_copies(f, e)
        return is_self_attr(e, '_last_model_mutator')

    name_tests, last_tests = [], []
    for n in g.nodes:
        if n.kind not in ('test', 'operand'):
            continue
        t = n.ast
        if isinstance(t, ast.Compare) and len(t.ops) == 1 and \
                isinstance(t.ops[0], ast.Eq):
            sides = [t.left, t.comparators[0]]
            if all(isinstance(x, ast.Attribute) and x.attr == 'model_name'
                   for x in sides) and any(is_last(x.value) for x in sides):
                name_tests.append(n)
        elif is_last(t):
            last_tests.append(n)
    news = [n for n, c in nodes_with_call(g, 'ModelMutator')]
    if not news:
        raise AnalysisError('R-C18.5: no ModelMutator(...) construction in '
                            'run_mutation')
    if not name_tests:
        ctx.finding(f, None, 'run_mutation no longer reuses the last '
                    'ModelMutator when the model name matches',
                    key='no-reuse')
        return
    drop = {(t.id, 'F') for t in name_tests + last_tests}
    reach = g.reachable([g.entry], follow_exc=False, drop_edges=drop)
    bad = [n for n in news if n.id in reach]
    if bad:
        # which extra tests open the path?
        extra = sorted({unparse(t.ast) for t in g.nodes
                        if t.kind in ('test', 'operand') and
                        t not in name_tests + last_tests and
                        any(g.guarded_by(n, t, 'F') or g.guarded_by(n, t, 'T')
                            for n in bad) is False and
                        'isinstance' in unparse(t.ast) and
                        'BaseModelMutation' not in unparse(t.ast)})
        ctx.finding(f, bad[0].ast, 'a new ModelMutator can be created although '
                    'a last mutator exists and the model names match%s: '
                    'consecutive mutations on one model are split over two '
                    'mutators and two table rebuilds' % (
                        ' (extra condition: %s)' % '; '.join(extra)
                        if extra else ''), key='reuse-extra-condition')
    else:
        ctx.ok(f, 'a new ModelMutator is created only when there is no last '
               'mutator or the model changes', news[0].ast)
    # the mutation is then run on the (shared or new) model mutator
    runs = [n for n, c in nodes_with_call(g, 'run_mutation')]
    if runs:
        ctx.ok(f, 'the mutation is handed to the model mutator', runs[0].ast)
    else:
        ctx.finding(f, None, 'run_mutation never hands the mutation to a '
                    'ModelMutator', key='no-run')


def r6_run_mutations_queue_mergeable_ops(ctx):
    """The property's "run" consists of AddField, DeleteField, non-type
    ChangeField and ChangeMeta.  Every op those mutations' mutate() can queue
    on the ModelMutator must be mergeable with its neighbours; an op that is
    not (the generic 'sql' op used for creating / dropping the through table
    of a ManyToManyField) closes the current alter-table result and the ops
    after it start a second rebuild."""
    ctx.rule('R-C18.6')
    p = ctx.program
    cls = p.cls('db.common', 'BaseEvolutionOperations')
    owner, node = cls.find_attr('mergeable_ops')
    members = set(p.const_collection(owner.module, node, owner) or [])
    op_of_method = {}
    for t, _d, m in model_mutator_producers(ctx):
        op_of_method.setdefault(m.name, set()).add(t)
    flagged = 'mergeable' in unparse(
        p.func('db.common', 'BaseEvolutionOperations._are_ops_mergeable').node) \
        and any('mergeable' in unparse(x) for x in [
            p.func('mutators.model_mutator', 'ModelMutator.add_sql').node])
    # the flag travels unchanged from the caller into the queued op
    add_sql = p.func('mutators.model_mutator', 'ModelMutator.add_sql')
    if flagged:
        from ..util import through_copies
        stored = [v for d in walk_no_nested(add_sql.node)
                  if isinstance(d, ast.Dict)
                  for k, v in zip(d.keys, d.values)
                  if const_str(k) == 'mergeable']
        stored += [st.value for st in walk_no_nested(add_sql.node)
                   if isinstance(st, ast.Assign) and any(
                       isinstance(t, ast.Subscript) and
                       const_str(t.slice) == 'mergeable'
                       for t in st.targets)]
        ctx.floor("'mergeable' entries of the op queued by add_sql",
                  len(stored), 1)
        for v in stored:
            src = through_copies(add_sql, v)
            if isinstance(src, ast.Name) and src.id in add_sql.params:
                ctx.ok(add_sql, 'the op carries the caller\'s mergeable flag '
                       'unchanged', v)
            else:
                ctx.finding(add_sql, v, 'add_sql stores %s instead of the '
                            'caller\'s mergeable flag: a caller that asks for '
                            'a mergeable op (dropping / creating the table '
                            'of a ManyToManyField) gets a barrier for some '
                            'argument shapes, and the model\'s table is '
                            'rebuilt once before and once after it' %
                            ' '.join(unparse(v).split()),
                            key='mergeable-flag-altered')
    n = 0
    for mod, q in (('mutations.add_field', 'AddField'),
                   ('mutations.delete_field', 'DeleteField'),
                   ('mutations.change_field', 'ChangeField'),
                   ('mutations.change_meta', 'ChangeMeta')):
        c = p.cls(mod, q)
        for meth in c.methods.values():
            if meth.name in ('simulate', '__init__', 'get_hint_params'):
                continue
            for call in walk_no_nested(meth.node):
                if not (isinstance(call, ast.Call) and
                        isinstance(call.func, ast.Attribute) and
                        call.func.attr in op_of_method and
                        'mutator' in unparse(call.func.value)):
                    continue
                n += 1
                ops = op_of_method[call.func.attr]
                bad = sorted(ops - members - {'change_column_type'})
                if bad and flagged and kwarg(call, 'mergeable') is not None:
                    bad = []
                if bad:
                    ctx.finding(meth, call, '%s queues a %r op (%s): that op '
                                'type is not mergeable, so it closes the '
                                'current table rebuild and the operations '
                                'after it on the same model start a second '
                                'one, although it never touches the model\'s '
                                'own table' % (meth.qualname, bad[0],
                                               unparse(call.func)),
                                key='run-op-not-mergeable:%s' % bad[0])
                else:
                    ctx.ok(meth, '%s queues mergeable op(s) %s' % (
                        meth.qualname, sorted(ops)), call)
    ctx.floor('ModelMutator queueing calls in the run mutations', n, 5)


def r7_same_class_is_not_a_type_change(ctx):
    """ChangeField decides "type change" (a non-mergeable change_column_type
    op with a rebuild of its own) by comparing db_type() of the old field
    with a field built from the mutation's attributes - and max_length /
    max_digits are part of db_type.  A ChangeField that restates the field's
    current class must therefore be excluded *before* that comparison:
    every path to a `return True, ...` of _get_field_type_change passes the
    false edge of a comparison of old_field_sig.field_type with
    self.field_type."""
    ctx.rule('R-C18.7')
    p = ctx.program
    f = p.func('mutations.change_field', 'ChangeField._get_field_type_change')
    g = ctx.cfg(f)
    pos = [n for n in g.nodes if n.kind == 'stmt' and
           isinstance(n.ast, ast.Return) and
           isinstance(n.ast.value, ast.Tuple) and n.ast.value.elts and
           isinstance(n.ast.value.elts[0], ast.Constant) and
           n.ast.value.elts[0].value is True]
    ctx.floor('positive returns of _get_field_type_change', len(pos), 1)
    same = []
    for t in g.nodes:
        if t.kind not in ('test', 'operand') or \
                not isinstance(t.ast, ast.Compare) or len(t.ast.ops) != 1:
            continue
        txt = [unparse(t.ast.left), unparse(t.ast.comparators[0])]
        if any(x.endswith('field_sig.field_type') or
               x == 'old_field_sig.field_type' for x in txt) and \
                any(x == 'self.field_type' for x in txt):
            op = t.ast.ops[0]
            if isinstance(op, (ast.Is, ast.Eq)):
                same.append((t, 'F'))     # different class on the F edge
            elif isinstance(op, (ast.IsNot, ast.NotEq)):
                same.append((t, 'T'))
    for r in pos:
        if any(g.guarded_by(r, t, lab) for t, lab in same):
            ctx.ok(f, 'a type change is only reported for a different field '
                   'class', r.ast)
        else:
            ctx.finding(f, r.ast, '_get_field_type_change can report a type '
                        'change without having compared the field classes: '
                        'ChangeField(field_type=<current class>, '
                        'max_length=...) differs in db_type() and is queued '
                        'as a non-mergeable change_column_type, so the table '
                        'is rebuilt before, for and after it',
                        key='same-class-type-change')


def r9_table_op_results_are_merged(ctx, rule_id='R-C18.9'):
    """generate_table_op_sql() lowers one queued op and must *merge* what
    the backend returns (sql_result.add(...)): an AlterTableSQLResult keeps
    its pending alter_table items, which the SQLite backend folds into one
    rebuild per batch.  add_sql() renders the result on the spot - a
    stand-alone rebuild computed from the model as it was at that op, which
    then runs after the merged rebuild and undoes the ops queued behind
    it."""
    ctx.rule(rule_id)
    p = ctx.program
    f = p.func('db.common', 'BaseEvolutionOperations.generate_table_op_sql')
    n = 0
    for c in walk_no_nested(f.node):
        if isinstance(c, ast.Call) and isinstance(c.func, ast.Attribute) and \
                c.func.attr in ('add', 'add_sql', 'add_pre_sql',
                                'add_post_sql') and \
                'sql_result' in unparse(c.func.value) and c.args and \
                isinstance(c.args[0], ast.Call):
            n += 1
            if c.func.attr == 'add':
                ctx.ok(f, 'backend result merged with add()', c)
            else:
                ctx.finding(f, c, 'generate_table_op_sql passes the result '
                            'of %s through %s(): a table rebuild returned by '
                            'the backend is rendered immediately instead of '
                            'being merged with the other operations on the '
                            'table' % (unparse(c.args[0].func), c.func.attr),
                            key='table-op-result-flattened')
    ctx.floor('backend results added in generate_table_op_sql', n, 4)


def r8_who_closes_the_model_mutator(ctx):
    """Consecutive mutations on one model share one ModelMutator, which is
    what turns them into one table rebuild - also across several
    run_mutations() calls on one AppMutator (one call per evolution).  The
    open mutator may be closed only where the model changes
    (run_mutation), when app-level SQL is added, and in to_sql()."""
    ctx.rule('R-C18.8')
    p = ctx.program
    cls = p.cls('mutators.app_mutator', 'AppMutator')
    ALLOWED = {'run_mutation', 'to_sql', 'add_sql', '_finalize_model_mutator'}
    n = 0
    for f in cls.methods.values():
        for c in walk_no_nested(f.node):
            if isinstance(c, ast.Call) and \
                    call_name(c) == '_finalize_model_mutator':
                n += 1
                if f.name in ALLOWED:
                    ctx.ok(f, 'model mutator closed at a model boundary', c)
                else:
                    ctx.finding(f, c, 'AppMutator.%s closes the open '
                                'ModelMutator: mutations on the same model '
                                'fed through the next call start a new '
                                'mutator and a second table rebuild' % f.name,
                                key='model-mutator-closed-early')
    ctx.floor('_finalize_model_mutator call sites', n, 2)


def run(ctx):
    r9_table_op_results_are_merged(ctx)
    r8_who_closes_the_model_mutator(ctx)
    r7_same_class_is_not_a_type_change(ctx)
    r6_run_mutations_queue_mergeable_ops(ctx)
    r1_mergeable_table(ctx)
    r2_merge_reuses_result(ctx)
    r3_one_rebuild(ctx)
    r4_handlers_queue(ctx)
    r5_adjacency(ctx)
