"""C17 - lifecycle signals are paired and tell the truth about the run."""
from __future__ import annotations

import ast

from ..program import (AnalysisError, Func, call_name, const_str, dotted,
                       kwarg, norm_key, unparse, walk_no_nested)
from ..util import (assigns_to_self_attr, is_self_attr, nodes_with_call,
                    signal_sends,
                    compare_consts)

EXPLANATION = (
    'Decided clauses: R-C17.1 in Evolver.evolve (CFG with exceptional edges) '
    'evolving.send occurs once, after _prepare_tasks and before the try; '
    'every path from it to the normal exit passes exactly one evolved.send '
    '(after the save and evolved=True) and no evolving_failed.send; every '
    'exceptional exit from inside the try passes evolving_failed.send; '
    'R-C17.2 each begin signal (applying_evolution, creating_models) is '
    'followed on every normal path by run_sql(execute=True) and then its end '
    'signal with identical keyword arguments, paths skipping the end signal '
    'raise; _on_progress maps apply_start/apply_success to '
    'applying_/applied_migration and is installed as progress_callback; '
    'R-C17.3 each of the nine signals is sent only from its designated '
    'function; R-C17.4 the evolve lock is incremented on evolving and '
    'decremented on both evolved and evolving_failed, with no other writer; '
    'R-C17.5 the evolutions announced for an evolution batch derive from the '
    'same batch entry as the SQL that is executed for it; '
    'R-C17.5 also rejects labels aggregated over several batch entries (comprehension-bound task_info); '
    'R-C17.6 nothing state-changing is reachable from evolve() before evolving.send(); R-C17.7 a generator-produced value is iterated at most once in run_sql unless materialised.'
    ' '
    'R-C17.8 (= R-C07.9) no finally block is left through return/break/continue.'
    ' '
    'R-C17.9 = R-C07.10; R-C17.10 evolver.project_sig is always the object the saved Version holds (or _save_project_sig stores it into the version).'
    ' '
    'R-C17.11 _save_project_sig saves the Version on every normal path.'
    ' '
    'R-C17.12 EvolveAppTask.execute runs its SQL whenever there is some (guards mention only `sql`).'
    ' '
    'R-C17.13 where _build_batches folds a batch into the previous one, the previous batch is written by merge_dicts() alone and nothing is popped from the incoming batch first (dict.update replaces per-task evolution lists).')
NOT_DECIDED = (
    'That the payload (evolutions, migrations, model names) equals exactly '
    'what was executed between the paired signals for every run.')
TECHNIQUE = ('CFG must-pass-through / dominance with exceptional edges '
             '(typestate pairing of signals), who-may-send table over the '
             'whole package, decorator/connection table agreement')
LEVEL_NOTE = ('Trusted: Python ast, hand-built CFG, name resolution of signal '
              'objects through imports; loops over the same unmodified '
              'iterable are assumed to run the same number of times.')

EVOLVER = 'evolve.evolver'
TASK = 'evolve.evolve_app_task'

DESIGNATED = {
    'evolving': {'Evolver.evolve'},
    'evolved': {'Evolver.evolve'},
    'evolving_failed': {'Evolver.evolve'},
    'applying_evolution': {'EvolveAppTask.execute'},
    'applied_evolution': {'EvolveAppTask.execute'},
    'creating_models': {'EvolveAppTask._create_models'},
    'created_models': {'EvolveAppTask._create_models'},
    'applying_migration': {'MigrationExecutor._on_progress'},
    'applied_migration': {'MigrationExecutor._on_progress'},
}


def r1_run_level(ctx):
    ctx.rule('R-C17.1')
    p = ctx.program
    f = p.func(EVOLVER, 'Evolver.evolve')
    g = ctx.cfg(f)
    begin = signal_sends(g, 'evolving')
    done = signal_sends(g, 'evolved')
    failed = signal_sends(g, 'evolving_failed')
    for name, sites in (('evolving', begin), ('evolved', done),
                        ('evolving_failed', failed)):
        if len(sites) != 1:
            ctx.finding(f, None, 'expected exactly one %s.send in '
                        'Evolver.evolve, found %d' % (name, len(sites)),
                        key='%s-count-%d' % (name, len(sites)))
    if len(begin) != 1 or not done or not failed:
        return
    b, bc = begin[0]
    if g.in_loop(b):
        ctx.finding(f, bc, 'evolving.send is inside a loop')
    else:
        ctx.ok(f, 'evolving.send occurs once (not in a loop)', bc)
    # before the try: dominates every node of every try region, and is not
    # itself inside one
    tries = [n for n in g.nodes if n.region]
    if b.region:
        ctx.finding(f, bc, 'evolving.send is inside the try: a failing send '
                    'would emit evolving_failed without evolving')
    elif all(g.dominates(b, n) for n in tries):
        ctx.ok(f, 'evolving.send dominates the try block', bc)
    else:
        ctx.finding(f, bc, 'part of the try block is reachable without '
                    'evolving.send')
    preps = nodes_with_call(g, '_prepare_tasks')
    if preps and all(g.dominates(pn, b) for pn, _ in preps[:1]):
        ctx.ok(f, '_prepare_tasks() precedes evolving.send (a preparation '
               'failure emits nothing)', preps[0][1])
    else:
        ctx.finding(f, bc, 'evolving.send is not preceded by _prepare_tasks() '
                    'on every path', key='prepare-order')
    # normal completion: exactly one evolved.send, no evolving_failed
    done_nodes = [n for n, _ in done]
    failed_nodes = [n for n, _ in failed]
    w = g.must_pass(b, g.exit, done_nodes)
    if w is None:
        ctx.ok(f, 'every path evolving.send -> return passes evolved.send')
    else:
        ctx.finding(f, None, 'a normal return after evolving.send skips '
                    'evolved.send', key='return-skips-evolved', path=w)
    for n, c in done:
        if g.in_loop(n):
            ctx.finding(f, c, 'evolved.send can be emitted more than once')
        for m, c2 in done:
            if m is not n and m.id in g.reachable([n]):
                ctx.finding(f, c2, 'two evolved.send on one path')
    for n, c in done:
        r = g.reachable([n])
        for m, c2 in failed:
            if m.id in r:
                ctx.finding(f, c, 'a run can emit evolved and then '
                            'evolving_failed (evolved.send is covered by the '
                            'failure handler)', path=g.path(n, m))
    for n, c in failed:
        if g.exit.id in g.reachable([n]):
            ctx.finding(f, c, 'a path emits evolving_failed and then returns '
                        'normally (or also emits evolved)',
                        path=g.path(n, g.exit))
        else:
            ctx.ok(f, 'evolving_failed.send is never followed by a normal '
                   'return', c)
        if g.in_loop(n):
            ctx.finding(f, c, 'evolving_failed.send can be emitted more than '
                        'once')
    # every exceptional exit after evolving.send passes evolving_failed
    # (unless evolved was already sent): no path from the statement after
    # evolving.send to EXC-EXIT avoids both kinds of send.
    # "except Exception" is the failure notion of the property:
    # BaseException-only exits (KeyboardInterrupt) are out of scope.
    drop = {(h.id, 'F') for h in g.nodes if h.kind == 'except' and
            h.ast.type is not None and unparse(h.ast.type) == 'Exception'}
    after_b = [s_ for s_, l in b.succ if l != 'exc']
    raising = [n for n in g.nodes
               if n.id in g.reachable(after_b, avoid=done_nodes + failed_nodes,
                                      drop_edges=drop) and
               any(l == 'exc' for _, l in n.succ) and
               n not in failed_nodes]
    n_exc = len(raising)
    bad = None
    for n in raising:
        for s_, l in n.succ:
            if l != 'exc':
                continue
            w = [n, s_] if s_ is g.exc_exit else g.path(
                s_, g.exc_exit, avoid=failed_nodes + done_nodes,
                drop_edges=drop)
            if w is not None and s_ is not g.exc_exit:
                w = [n] + w
            if w is not None:
                bad = (n, w)
                break
        if bad:
            break
    ctx.floor('raising nodes after evolving.send', n_exc, 3)
    if bad:
        ctx.finding(f, bad[0].ast, 'an exception raised at "%s" after '
                    'evolving.send leaves evolve() with neither evolved nor '
                    'evolving_failed' % bad[0].text(), path=bad[1],
                    key='exc-exit-without-failed:' + norm_key(bad[0].ast))
    else:
        ctx.ok(f, 'all %d raising statements after evolving.send lead to '
               'evolving_failed.send (or come after evolved.send)' % n_exc)
    # ordering after save / flag
    saves = nodes_with_call(g, '_save_project_sig')
    flags = [n for n in assigns_to_self_attr(g, 'evolved')
             if isinstance(n.ast.value, ast.Constant) and
             n.ast.value.value is True]
    for n, c in done:
        if saves and all(g.dominates(sn, n) for sn, _ in saves) and \
                flags and all(g.dominates(fn, n) for fn in flags):
            ctx.ok(f, 'evolved.send only after the save and evolved=True', c)
        else:
            ctx.finding(f, c, 'evolved.send is not dominated by the save and '
                        'by self.evolved = True')


def _loop_head_of(g, n):
    """Innermost for-head whose body contains n (normal edges), or None."""
    best = None
    for h in g.nodes:
        if h.kind != 'for':
            continue
        body = set()
        for s, l in h.succ:
            if l == 'T':
                body |= g.reachable([s], avoid=[h], follow_exc=False)
        if n.id in body and h.id in g.reachable([n], follow_exc=False):
            if best is None or h.id in _body_ids(g, best):
                best = h
    return best


def _body_ids(g, h):
    body = set()
    for s, l in h.succ:
        if l == 'T':
            body |= g.reachable([s], avoid=[h], follow_exc=False)
    return body


def _kw_text(call):
    return sorted((k.arg or '**', ' '.join(unparse(k.value).split()))
                  for k in call.keywords)


def r2_step_level(ctx):
    ctx.rule('R-C17.2')
    p = ctx.program
    pairs = (('applying_evolution', 'applied_evolution',
              'EvolveAppTask.execute'),
             ('creating_models', 'created_models',
              'EvolveAppTask._create_models'))
    for bname, ename, q in pairs:
        f = p.func(TASK, q)
        g = ctx.cfg(f)
        bs = signal_sends(g, bname)
        es = signal_sends(g, ename)
        if not bs or not es:
            ctx.finding(f, None, '%s / %s are not both sent in %s' %
                        (bname, ename, q), key='missing-%s-%s' % (
                            bool(bs), bool(es)))
            continue
        xs = [n for n, c in nodes_with_call(g, 'run_sql')
              if isinstance(kwarg(c, 'execute'), ast.Constant) and
              kwarg(c, 'execute').value is True]
        if not xs:
            ctx.finding(f, None, 'no run_sql(execute=True) between %s and %s'
                        % (bname, ename), key='no-exec-between')
            continue
        e_nodes = [n for n, _ in es]
        # paired loops: reaching the end-loop over the same iterable counts
        via_end = list(e_nodes)
        for bn, _ in bs:
            hb = _loop_head_of(g, bn)
            for en in e_nodes:
                he = _loop_head_of(g, en)
                if hb is not None and he is not None and \
                        unparse(hb.ast.iter) == unparse(he.ast.iter):
                    via_end.append(he)
        for bn, bc in bs:
            w = g.must_pass(bn, g.exit, via_end, follow_exc=True)
            if w is None:
                ctx.ok(f, 'every return after %s.send passes %s.send; other '
                       'paths raise' % (bname, ename), bc)
            else:
                ctx.finding(f, bc, 'a path returns normally after %s.send '
                            'without %s.send' % (bname, ename), path=w)
            for en in e_nodes:
                # on paths that leave the begin loop
                hb = _loop_head_of(g, bn)
                avoid = list(xs)
                w = g.path(bn, en, avoid=avoid, follow_exc=False)
                if w is None:
                    ctx.ok(f, 'run_sql(execute=True) lies between %s.send and '
                           '%s.send on every path' % (bname, ename), bc)
                else:
                    ctx.finding(f, bc, '%s.send can follow %s.send without '
                                'executing the SQL in between' %
                                (ename, bname), path=w)
        for en, ec in es:
            paired = []
            for bn, _ in bs:
                hb, he = _loop_head_of(g, bn), _loop_head_of(g, en)
                if hb is not None and he is not None and \
                        unparse(hb.ast.iter) == unparse(he.ast.iter):
                    paired.append(hb)
            if not any(g.dominates(bn, en) for bn, _ in bs) and \
                    not any(g.dominates(hb, en) for hb in paired):
                ctx.finding(f, ec, '%s.send reachable without %s.send' %
                            (ename, bname))
            if not any(g.dominates(x, en) for x in xs):
                ctx.finding(f, ec, '%s.send reachable without executing the '
                            'SQL' % ename)
        # identical payload expressions
        if _kw_text(bs[0][1]) == _kw_text(es[0][1]):
            ctx.ok(f, '%s and %s carry identical keyword arguments: %s' %
                   (bname, ename, _kw_text(bs[0][1])), es[0][1])
        else:
            ctx.finding(f, es[0][1], '%s and %s carry different payloads: %s '
                        'vs %s' % (bname, ename, _kw_text(bs[0][1]),
                                   _kw_text(es[0][1])))
    # migrations
    f = p.func('utils.migrations', 'MigrationExecutor._on_progress')
    g = ctx.cfg(f)
    action = f.params[1] if len(f.params) > 1 else 'action'
    want = {'apply_start': 'applying_migration',
            'apply_success': 'applied_migration'}
    found = {}
    for t in g.nodes:
        if t.kind != 'test':
            continue
        consts = compare_consts(t.ast, lambda e: isinstance(e, ast.Name) and
                                e.id == action)
        for k in consts:
            for sig in set(want.values()):
                for n, c in signal_sends(g, sig):
                    if g.guarded_by(n, t, 'T'):
                        found.setdefault(k, []).append((sig, c))
    for k, sig in want.items():
        got = [s for s, _ in found.get(k, [])]
        if got == [sig]:
            ctx.ok(f, "progress action '%s' emits %s" % (k, sig),
                   found[k][0][1])
        else:
            ctx.finding(f, None, "progress action '%s' emits %s, expected "
                        "[%s]" % (k, got, sig), key='progress-map:%s:%s' % (
                            k, ','.join(got)))
    if 'apply_start' in found and 'apply_success' in found and \
            _kw_text(found['apply_start'][0][1]) != _kw_text(
                found['apply_success'][0][1]):
        ctx.finding(f, found['apply_success'][0][1], 'applying_/applied_'
                    'migration carry different payloads')
    # every progress event is forwarded: a send may depend on the action
    # only.  Any other condition (e.g. the "fake" flag, which Django flips
    # between apply_start and apply_success of a soft-applied initial
    # migration) can suppress one half of a pair.
    for sig in sorted(set(want.values())):
        for n, c in signal_sends(g, sig):
            for t in g.nodes:
                if t.kind != 'test' or not (g.guarded_by(n, t, 'T') or
                                            g.guarded_by(n, t, 'F')):
                    continue
                names = {x.id for x in ast.walk(t.ast)
                         if isinstance(x, ast.Name)}
                if names <= {action}:
                    continue
                ctx.finding(f, t.ast, '%s.send also depends on "%s": a '
                            'progress event can be dropped for one half of '
                            'an applying/applied pair' % (sig,
                                                          unparse(t.ast)),
                            key='progress-filter:%s' % unparse(t.ast))
    init = p.func('utils.migrations', 'MigrationExecutor.__init__')
    ok = False
    for c in walk_no_nested(init.node):
        if isinstance(c, ast.Call):
            v = kwarg(c, 'progress_callback')
            if v is not None and unparse(v) == 'self._on_progress':
                ok = True
    if ok:
        ctx.ok(init, 'executor constructed with '
               'progress_callback=self._on_progress')
    else:
        ctx.finding(init, None, 'MigrationExecutor no longer installs '
                    '_on_progress as progress_callback', key='no-callback')


def all_signal_sends(program):
    """[(func, signal name, call)] for every <x>.send/send_robust whose
    receiver resolves to a Signal object of django_evolution.signals."""
    sigmod = program.module('signals')
    signals = {name for name, v in sigmod.constants.items()
               if isinstance(v, ast.Call) and call_name(v) == 'Signal'}
    out = []
    for f in program.all_funcs():
        for c in walk_no_nested(f.node, include_lambda=True):
            if isinstance(c, ast.Call) and isinstance(c.func, ast.Attribute) \
                    and c.func.attr in ('send', 'send_robust'):
                recv = c.func.value
                name = None
                if isinstance(recv, ast.Name):
                    imp = f.module.imports.get(recv.id)
                    if imp and imp[0] == 'symbol' and \
                            imp[1] == sigmod.name and imp[2] in signals:
                        name = imp[2]
                    elif f.module is sigmod and recv.id in signals:
                        name = recv.id
                elif isinstance(recv, ast.Attribute) and \
                        recv.attr in signals:
                    r = program.resolve_expr(f.module, recv.value)
                    if r is sigmod:
                        name = recv.attr
                if name:
                    out.append((f, name, c))
    return signals, out


def r3_who_may_send(ctx):
    ctx.rule('R-C17.3')
    signals, sends = all_signal_sends(ctx.program)
    missing = set(DESIGNATED) - signals
    if missing:
        raise AnalysisError('R-C17.3: signals no longer defined: %s' %
                            sorted(missing))
    for s in sorted(signals - set(DESIGNATED)):
        ctx.info('signal %s has no designated sender in the rule table' % s)
    ctx.floor('signals defined in django_evolution.signals', len(signals), 9)
    ctx.counts['R-C17.3 signal send sites in the package'] = len(sends)
    seen = set()
    for f, name, c in sends:
        if name not in DESIGNATED:
            continue
        seen.add(name)
        if f.qualname in DESIGNATED[name]:
            ctx.ok(f, '%s sent from its designated function' % name, c)
        else:
            ctx.finding(f, c, '%s.send outside its designated function(s) %s'
                        % (name, sorted(DESIGNATED[name])))
    for name in sorted(set(DESIGNATED) - seen):
        ctx.finding(('django_evolution.signals', name), None,
                    'signal %s is never sent' % name, key='never-sent')


def r4_lock_balance(ctx):
    ctx.rule('R-C17.4')
    p = ctx.program
    m = p.module('management')
    inc = p.func('management', '_on_evolving')
    dec = p.func('management', '_on_evolving_done')

    def delta(f):
        out = []
        for n in walk_no_nested(f.node):
            if isinstance(n, ast.AugAssign) and \
                    isinstance(n.target, ast.Name) and \
                    n.target.id == '_evolve_lock' and \
                    isinstance(n.value, ast.Constant):
                out.append(n.value.value if isinstance(n.op, ast.Add)
                           else -n.value.value)
            elif isinstance(n, ast.Assign) and any(
                    isinstance(t, ast.Name) and t.id == '_evolve_lock'
                    for t in n.targets):
                out.append('=')
        return out

    def receivers(f):
        out = set()
        for d in f.node.decorator_list:
            if isinstance(d, ast.Call) and call_name(d) == 'receiver' and \
                    d.args:
                a = d.args[0]
                elts = a.elts if isinstance(a, (ast.List, ast.Tuple)) else [a]
                out |= {dotted(e) for e in elts}
        return out

    # module-level <signal>.connect(f)
    connects = {}
    for n in ast.walk(m.tree):
        if isinstance(n, ast.Call) and call_name(n) == 'connect' and n.args \
                and isinstance(n.args[0], ast.Name):
            connects.setdefault(n.args[0].id, set()).add(
                dotted(n.func.value))
    inc_r = receivers(inc) | connects.get('_on_evolving', set())
    dec_r = receivers(dec) | connects.get('_on_evolving_done', set())
    if delta(inc) == [1] and inc_r == {'evolving'}:
        ctx.ok(inc, 'lock +1 on evolving', inc.node)
    else:
        ctx.finding(inc, None, 'lock increment handler: delta %s, connected '
                    'to %s (expected +1 on evolving)' % (delta(inc),
                                                        sorted(inc_r)),
                    key='inc:%s:%s' % (delta(inc), sorted(inc_r)))
    if delta(dec) == [-1] and dec_r == {'evolved', 'evolving_failed'}:
        ctx.ok(dec, 'lock -1 on evolved and evolving_failed', dec.node)
    else:
        ctx.finding(dec, None, 'lock decrement handler: delta %s, connected '
                    'to %s (expected -1 on both evolved and evolving_failed)'
                    % (delta(dec), sorted(x or '?' for x in dec_r)),
                    key='dec:%s:%s' % (delta(dec),
                                       sorted(x or '?' for x in dec_r)))
    # no other writer in the package
    n = 0
    for f in p.all_funcs():
        if delta(f):
            n += 1
            if f.module is m and f.name in ('_on_evolving',
                                            '_on_evolving_done'):
                continue
            ctx.finding(f, None, '%s writes _evolve_lock' % f.qualname,
                        key='other-lock-writer')
    ctx.floor('writers of _evolve_lock', n, 2)
    # the lock is consulted by the baseline installer
    upd = p.func('management', '_on_app_models_updated')
    if any(isinstance(x, ast.Name) and x.id == '_evolve_lock'
           for x in walk_no_nested(upd.node)):
        ctx.ok(upd, 'post-migrate baseline installer consults the lock')
    else:
        ctx.finding(upd, None, '_on_app_models_updated no longer consults '
                    '_evolve_lock', key='lock-unused')


def r5_payload_provenance(ctx):
    """The evolutions announced for a batch come from the same batch entry
    as the SQL that is executed."""
    ctx.rule('R-C17.5')
    p = ctx.program
    from ..flow import ReachingDefs
    f = p.func(TASK, 'EvolveAppTask.execute_tasks')
    g = ctx.cfg(f)
    rd = ReachingDefs(g, f.params)
    calls = [(n, c) for n, c in nodes_with_call(g, 'execute')
             if kwarg(c, 'sql') is not None]
    ctx.floor('task.execute(sql=...) call sites in execute_tasks', len(calls),
              1)
    COMPS = (ast.ListComp, ast.SetComp, ast.DictComp, ast.GeneratorExp)

    def entry_defs(pairs):
        """(loop-variable definitions, comprehension-bound uses) of the batch
        entry `task_info` among the origins."""
        loops, comp = set(), []
        for on, oe in pairs:
            bound = set()
            for cpr in ast.walk(oe):
                if isinstance(cpr, COMPS):
                    tg = {x.id for gen in cpr.generators
                          for x in ast.walk(gen.target)
                          if isinstance(x, ast.Name)}
                    if 'task_info' in tg:
                        comp.append(cpr)
                        bound |= {id(x) for x in ast.walk(cpr)}
            for x in ast.walk(oe):
                if isinstance(x, ast.Name) and x.id == 'task_info' and \
                        isinstance(x.ctx, ast.Load) and id(x) not in bound:
                    for d in rd.reaching(on, 'task_info'):
                        if d.kind in ('iter', 'unpack', 'assign'):
                            loops.add(d.node.id)
        return loops, comp

    for n, c in calls:
        sql_pairs = rd.origins(n, kwarg(c, 'sql'))
        sql_src = ' '.join(unparse(e) for _, e in sql_pairs)
        ev = kwarg(c, 'evolutions')
        if 'task_info' not in sql_src:
            ctx.finding(f, c, 'the SQL handed to task.execute does not come '
                        'from the batch entry (task_info)')
            continue
        if ev is None:
            ctx.finding(f, c, 'task.execute() is given the SQL of this batch '
                        '(sql=%s) but not the evolutions of this batch: '
                        'execute() falls back to all pending evolutions of '
                        'the task, so when a task is split over two batches '
                        'both applying/applied_evolution pairs announce every '
                        'evolution' % unparse(kwarg(c, 'sql')),
                        key='evolutions-not-from-batch')
            continue
        ev_pairs = rd.origins(n, ev)
        ev_src = ' '.join(unparse(e) for _, e in ev_pairs)
        sql_loops, _c = entry_defs(sql_pairs)
        ev_loops, ev_comp = entry_defs(ev_pairs)
        if ev_comp:
            ctx.finding(f, c, 'the announced evolutions are selected with '
                        'labels aggregated over several batch entries (%s): '
                        'labels are only unique per app, so an evolution of '
                        'this task that runs in another batch is announced '
                        'here too' % ' '.join(unparse(ev_comp[0]).split())[:70],
                        key='evolutions-from-aggregated-entries')
        elif 'task_info' in ev_src and ev_loops and ev_loops <= sql_loops:
            ctx.ok(f, 'announced evolutions and executed SQL come from the '
                   'same batch entry', c)
        else:
            ctx.finding(f, c, 'evolutions=%s does not derive from the batch '
                        'entry whose SQL is executed' % unparse(ev)[:60],
                        key='evolutions-not-from-batch')
    ex = p.func(TASK, 'EvolveAppTask.execute')
    eg = ctx.cfg(ex)
    sends = signal_sends(eg, 'applying_evolution') + \
        signal_sends(eg, 'applied_evolution')
    for n, c in sends:
        v = kwarg(c, 'evolutions')
        if v is not None and isinstance(v, ast.Name) and v.id in ex.params:
            ctx.ok(ex, 'the signal carries the evolutions parameter', c)
        else:
            ctx.finding(ex, c, 'the signal does not carry the evolutions '
                        'parameter of execute()')


def r6_nothing_changes_before_evolving(ctx):
    """`evolving` is emitted "before any change is made": nothing that
    Evolver.evolve() calls before evolving.send() (task preparation) may reach
    a state-changing primitive - executing SQL, ORM writes of the
    bookkeeping tables, recording / applying migrations, or creating the
    django_migrations table (MigrationRecorder.ensure_schema)."""
    ctx.rule('R-C17.6')
    from .c12 import sink_sites
    p = ctx.program
    ev = p.func(EVOLVER, 'Evolver.evolve')
    g = ctx.cfg(ev)
    sends = signal_sends(g, 'evolving')
    if not sends:
        raise AnalysisError('R-C17.6: evolving.send not found in evolve()')
    send_node = sends[0][0]
    roots = []
    for n in g.nodes:
        if n is send_node:
            continue
        if send_node.id in g.reachable([n], follow_exc=False) and \
                not g.dominates(send_node, n):
            for c in n.calls():
                targets, _prec = ctx.resolve(ev, c)
                roots += targets
    ctx.counts['R-C17.6 calls in evolve() before evolving.send'] = len(roots)
    reach = p.reachable_funcs(roots)
    n_funcs, bad = 0, 0
    for fq, f in sorted(reach.items()):
        n_funcs += 1
        for c, desc in sink_sites(ctx, f):
            bad += 1
            ctx.finding(f, c, 'state-changing %s is reachable from '
                        'Evolver.evolve() before evolving.send(): the '
                        'database is changed before the run is announced '
                        '(and by preview-only flows that emit no signal at '
                        'all)' % desc, key='change-before-evolving:%s' % desc)
    if not bad:
        ctx.ok(ev, 'no state-changing primitive among %d functions reachable '
               'before evolving.send()' % n_funcs)
    ctx.counts['R-C17.6 functions reachable before evolving.send'] = n_funcs


def r7_statement_generator_iterated_once(ctx, rule_id='R-C17.7'):
    """SQLExecutor.run_sql gets its batches from generator functions.  A
    generator can be iterated once: a second loop over the same object sees
    nothing, run_sql returns normally having executed no statement, and the
    applying/applied signals (and `evolved`) are sent for SQL that never
    ran.  On every path through run_sql a value produced by a generator
    function is iterated at most once unless it was materialised (list(...))
    first."""
    ctx.rule(rule_id)
    p = ctx.program
    f = p.func('utils.sql', 'SQLExecutor.run_sql')
    cls = f.cls
    gens = {m.name for m in cls.methods.values()
            if any(isinstance(x, (ast.Yield, ast.YieldFrom))
                   for x in walk_no_nested(m.node))}
    g = ctx.cfg(f)
    from ..flow import ReachingDefs
    from ..util import for_heads
    rd = ReachingDefs(g, f.params)
    heads = for_heads(g)
    n_gen_loops = 0
    for a in heads:
        it = a.ast.iter
        base = it.args[0] if isinstance(it, ast.Call) and \
            isinstance(it.func, ast.Name) and it.func.id == 'enumerate' and \
            it.args else it
        if not isinstance(base, ast.Name):
            continue
        defs = [d for d in rd.reaching(a, base.id) if d.kind != 'mutate']
        lazy = [d for d in defs if isinstance(d.value, ast.Call) and
                call_name(d.value) in gens]
        if not lazy:
            continue
        n_gen_loops += 1
        # another loop over the same definition reachable after this one
        for b in heads:
            if b is a:
                continue
            bit = b.ast.iter
            bbase = bit.args[0] if isinstance(bit, ast.Call) and \
                isinstance(bit.func, ast.Name) and \
                bit.func.id == 'enumerate' and bit.args else bit
            if not (isinstance(bbase, ast.Name) and bbase.id == base.id):
                continue
            exits = [s_ for s_, l in a.succ if l == 'F']
            if b.id not in g.reachable(exits, follow_exc=False):
                continue
            shared = {id(d) for d in lazy} & {
                id(d) for d in rd.reaching(b, base.id)}
            if shared:
                ctx.finding(f, b.ast, 'the generator %s (from %s) is iterated '
                            'by the loop at line %d and again here without '
                            'being materialised in between: the second loop '
                            'sees nothing, run_sql executes no statement and '
                            'returns normally' % (
                                base.id, call_name(lazy[0].value),
                                a.ast.lineno),
                            key='generator-iterated-twice:%s' % base.id)
    if n_gen_loops:
        ctx.ok(f, '%d loop(s) over generator-produced values checked' %
               n_gen_loops)
    ctx.floor('loops over generator-produced values in run_sql',
              n_gen_loops, 1)


def r8_finally_does_not_swallow(ctx):
    from .c07 import r9_finally_does_not_swallow
    r9_finally_does_not_swallow(ctx, rule_id='R-C17.8')


def r9_exit_never_suppresses(ctx):
    from .c07 import r10_exit_never_suppresses
    r10_exit_never_suppresses(ctx, rule_id='R-C17.9')


def r10_saved_signature_is_the_evolved_one(ctx, rule_id='R-C17.10'):
    """Evolver._save_project_sig() re-saves self.version when one exists and
    never re-assigns version.signature: it relies on evolver.project_sig
    *being* that Version's signature object.  So either the save routine
    assigns version.signature = self.project_sig before saving, or every
    binding of self.project_sig is the Version's own object (a fresh
    ProjectSignature() that the new Version is then built from, or
    `<version>.signature` itself - not a copy).  Otherwise the run evolves a
    copy, saves the old object, and `evolved` is sent although the stored
    signature knows nothing about what was just done."""
    ctx.rule(rule_id)
    p = ctx.program
    cls = p.cls('evolve.evolver', 'Evolver')
    save = cls.methods['_save_project_sig']
    reassigns = any(
        isinstance(n, ast.Assign) and any(
            isinstance(t, ast.Attribute) and t.attr == 'signature'
            for t in n.targets) and
        'project_sig' in unparse(n.value)
        for n in walk_no_nested(save.node))
    n_bind = 0
    bad = []
    for f in cls.methods.values():
        for n in walk_no_nested(f.node):
            if not isinstance(n, ast.Assign):
                continue
            for t in n.targets:
                if is_self_attr(t, 'project_sig'):
                    n_bind += 1
                    v = n.value
                    fresh = isinstance(v, ast.Call) and \
                        call_name(v) == 'ProjectSignature' and not v.args
                    alias = isinstance(v, ast.Attribute) and \
                        v.attr == 'signature'
                    none = isinstance(v, ast.Constant) and v.value is None
                    if not (fresh or alias or none):
                        bad.append((f, n))
    ctx.floor('bindings of Evolver.project_sig', n_bind, 2)
    if reassigns:
        ctx.ok(save, '_save_project_sig stores evolver.project_sig into the '
               'version before saving')
    elif bad:
        for f, n in bad:
            ctx.finding(f, n, 'evolver.project_sig is bound to %s, which is '
                        'not the Version\'s own signature object, while '
                        '_save_project_sig() re-saves the existing Version '
                        'without storing project_sig into it: what the run '
                        'evolves is not what gets saved' %
                        ' '.join(unparse(n.value).split()),
                        key='project-sig-not-the-saved-object')
    else:
        ctx.ok(cls.methods['__init__'], 'evolver.project_sig is always the '
               'object the saved Version holds')


def r11_version_saved_on_every_path(ctx):
    """`evolved` is sent after _save_project_sig() returned.  On every normal
    path through it the Version object is saved - also when the evolver
    already holds one (the baseline it installed itself): "after the first
    time, the version already saved will simply be updated"."""
    ctx.rule('R-C17.11')
    p = ctx.program
    f = p.func('evolve.evolver', 'Evolver._save_project_sig')
    g = ctx.cfg(f)
    saves = [n for n in g.nodes if any(
        call_name(c) == 'save' and isinstance(c.func, ast.Attribute) and
        'version' in unparse(c.func.value) for c in n.calls())]
    ctx.floor('version.save() calls in _save_project_sig', len(saves), 1)
    esc = g.path(g.entry, g.exit, avoid=saves, follow_exc=False)
    if esc is None:
        ctx.ok(f, 'the version is saved on every normal path')
    else:
        ctx.finding(f, None, '_save_project_sig can return without saving '
                    'the Version (lines %s): when the evolver already holds '
                    'one - the baseline it installed on an empty database - '
                    'the evolved signature is never written, yet `evolved` '
                    'is sent' % ' -> '.join(
                        str(getattr(x.stmt, 'lineno', 0)) for x in esc
                        if x.stmt is not None), key='version-not-saved')


def r12_task_sql_runs_whenever_there_is_some(ctx):
    """EvolveAppTask.execute() announces and runs the SQL it is handed.
    Whether it does may depend only on that SQL: a hinted task has SQL but
    no Evolution entries, so `if sql and evolutions:` makes a hinted upgrade
    execute nothing while the run still saves the evolved signature and
    sends `evolved`."""
    ctx.rule('R-C17.12')
    p = ctx.program
    f = p.func('evolve.evolve_app_task', 'EvolveAppTask.execute')
    g = ctx.cfg(f)
    n = 0
    for node in g.nodes:
        for c in node.calls():
            if call_name(c) != 'run_sql':
                continue
            n += 1
            bad = []
            for t in g.nodes:
                if t.kind not in ('test', 'operand') or t.ast is None:
                    continue
                if g.guarded_by(node, t, 'T') or g.guarded_by(node, t, 'F'):
                    names = {x.id for x in ast.walk(t.ast)
                             if isinstance(x, ast.Name)}
                    if not names <= {'sql', 'len'}:
                        bad.append(' '.join(unparse(t.ast).split()))
            if bad:
                ctx.finding(f, c, 'whether EvolveAppTask.execute runs its SQL '
                            'also depends on "%s": tasks with SQL but without '
                            'that (hinted upgrades carry no Evolution '
                            'entries) execute nothing, yet the run saves the '
                            'new signature and reports `evolved`' %
                            '; '.join(sorted(set(bad))),
                            key='execute-conditional-on-more-than-sql')
            else:
                ctx.ok(f, 'the task SQL runs whenever there is some', c)
    ctx.floor('run_sql calls in EvolveAppTask.execute', n, 1)


def r13_consolidation_only_through_merge_dicts(ctx):
    """applying_evolution / applied_evolution announce, per task, the
    evolutions of the batch; Evolver.evolve() records *all* of a task's new
    evolutions.  The two agree only if a task's labels from several graph
    nodes that end up in one batch are accumulated: merge_dicts() extends
    the per-task lists recursively, dict.update() replaces them.  In the
    branch of _build_batches that folds a batch into the previous one, the
    previous batch is written by merge_dicts() alone and the incoming batch
    reaches it whole (nothing popped or deleted from it first)."""
    ctx.rule('R-C17.13')
    p = ctx.program
    f = p.func(TASK, 'EvolveAppTask._build_batches')
    g = ctx.cfg(f)
    n_sites = 0
    for m, c in nodes_with_call(g, 'merge_dicts'):
        if len(c.args) != 2 or not all(isinstance(a, ast.Name)
                                       for a in c.args):
            continue
        prev, new = c.args[0].id, c.args[1].id
        tests = [t for t in g.nodes if t.kind in ('test', 'operand') and
                 t.ast is not None and g.guarded_by(m, t, 'T')]
        if not tests:
            continue
        n_sites += 1
        branch = [n for n in g.nodes if n is not m and n.kind == 'stmt' and
                  any(g.guarded_by(n, t, 'T') for t in tests)]
        bad = []
        for n in branch:
            for x in ast.walk(n.ast):
                if isinstance(x, ast.Call) and \
                        isinstance(x.func, ast.Attribute):
                    recv = unparse(x.func.value)
                    names = {y.id for y in ast.walk(x.func.value)
                             if isinstance(y, ast.Name)}
                    if x.func.attr in ('pop', 'popitem', 'clear') and \
                            new in names:
                        bad.append((n, 'takes entries out of the incoming '
                                    'batch (%s) before it is merged' % recv))
                    if x.func.attr in ('update', '__setitem__') and \
                            prev in names:
                        bad.append((n, 'writes the previous batch with '
                                    '%s.%s(): an existing per-task entry is '
                                    'replaced, not extended' % (
                                        recv[:40], x.func.attr)))
                if isinstance(x, ast.Delete) and any(
                        isinstance(y, ast.Name) and y.id == new
                        for t_ in x.targets for y in ast.walk(t_)):
                    bad.append((n, 'deletes entries of the incoming batch'))
                if isinstance(x, (ast.Assign, ast.AugAssign)):
                    tg = x.targets if isinstance(x, ast.Assign) else \
                        [x.target]
                    for t_ in tg:
                        if isinstance(t_, ast.Subscript) and any(
                                isinstance(y, ast.Name) and y.id == prev
                                for y in ast.walk(t_.value)):
                            bad.append((n, 'assigns into the previous batch '
                                        'directly'))
        for n, why in bad:
            ctx.finding(f, n.ast, 'consolidating a batch into the previous '
                        'one %s: a task whose evolutions come from two '
                        'graph nodes of the batch is announced (and '
                        'executed) with only the later ones, while all of '
                        'them are recorded as applied' % why,
                        key='batch-consolidation-bypasses-merge')
        if not bad:
            ctx.ok(f, 'the previous batch is extended by merge_dicts() '
                   'alone', c)
    ctx.floor('merge_dicts consolidation sites in _build_batches',
              n_sites, 1)


def run(ctx):
    r13_consolidation_only_through_merge_dicts(ctx)
    r12_task_sql_runs_whenever_there_is_some(ctx)
    r11_version_saved_on_every_path(ctx)
    r10_saved_signature_is_the_evolved_one(ctx)
    r9_exit_never_suppresses(ctx)
    r8_finally_does_not_swallow(ctx)
    r7_statement_generator_iterated_once(ctx)
    r6_nothing_changes_before_evolving(ctx)
    r5_payload_provenance(ctx)
    r1_run_level(ctx)
    r2_step_level(ctx)
    r3_who_may_send(ctx)
    r4_lock_balance(ctx)
