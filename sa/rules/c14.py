"""C14 - the SQL preview is what an execution would run; output is
deterministic."""
from __future__ import annotations

import ast

from .. import determinism
from ..flow import ReachingDefs, names_loaded
from ..program import (AnalysisError, call_name, const_str, dotted, kwarg,
                       norm_key, unparse, walk_no_nested)
from ..util import (cursor_execute_calls, is_self_attr, nodes_with_call,
                    subscript_const)

EXPLANATION = (
    'Decided clauses: R-C14.1 (order taint) no iteration over a set-valued '
    'expression in the SQL/hint/signature-producing modules reaches ordered '
    'output (list, SQL result, yield, ordered mapping) without sorted(); every '
    'set-iteration site is enumerated and classified; R-C14.2 in '
    'SQLExecutor.run_sql the captured text and the executed statement are '
    'built from the same loop variables of the same iteration and the '
    'normalisation (_prepare_sql) is upstream of both; R-C14.3 the kinds of '
    'SQL that reach run_sql(execute=True) during Evolver.evolve (evolution '
    'SQL, new-model SQL, deferred SQL, purge SQL) are the kinds the preview '
    'feeds to run_sql(capture=True), and both evolution-SQL sites take it '
    'from generate_mutations_info(...)[\'sql\']; '
    'R-C14.2 also: the capture path\'s condition on params agrees with what cursor.execute does (or _prepare_sql normalises () to None); R-C14.4 preview and execution read the same SQL variable (known finding: task.sql vs batches).'
    ' '
    'R-C14.5 inside the per-task loop of an evolutions batch, whether task.execute(sql=...) runs depends only on that SQL.'
    ' '
    'R-C14.6 DatabaseState.clone() copies _tables at least as deep as add_table() nests mutable containers (depth read from the code on both sides).'
    ' '
    'R-C14.7 the published app_sig_is_new flag is the decision prepare() itself used (reaching definitions of its operands are the original lookup).'
    ' '
    'R-C14.8 the stored version is read only through VersionManager.current_version().'
    ' '
    'R-C14.9 quote_sql_param (preview-only parameter substitution) rewrites nothing but the quote character, in the base class and every backend override.')
NOT_DECIDED = (
    'Statement-by-statement equality of preview and execution for every '
    'upgrade, and byte-identical output across hash seeds (needs execution '
    'under several PYTHONHASHSEED values).')
TECHNIQUE = ('order-taint dataflow over set-kinded values (reaching '
             'definitions + sink classification), loop-variable provenance in '
             'run_sql, provenance classes of SQL reaching execute vs capture')
LEVEL_NOTE = ('Trusted: Python ast, CFG/reaching definitions, set-kind '
              'inference (constructors, set algebra, attributes bound to sets '
              'in any __init__, functions returning sets); dict iteration is '
              'insertion-ordered (Python >= 3.7); one reviewed exception in '
              'determinism.REVIEWED.')

SCOPE_PREFIXES = ('db.', 'mutators.', 'mutations.', 'evolve.', 'utils.')
SCOPE_MODULES = ('diff', 'signature', 'serialization', 'mock_models',
                 'models', 'placeholders')


def in_scope(f):
    name = f.module.name.split('django_evolution.', 1)[-1]
    return name.startswith(SCOPE_PREFIXES) or name in SCOPE_MODULES


def r1_determinism(ctx):
    ctx.rule('R-C14.1')
    determinism.run_rule(ctx, in_scope, floor=6)


def r2_capture_execute(ctx):
    ctx.rule('R-C14.2')
    p = ctx.program
    f = p.func('utils.sql', 'SQLExecutor.run_sql')
    g = ctx.cfg(f)
    rd = ReachingDefs(g, f.params)
    execs = cursor_execute_calls(g)
    # the capture list is what run_sql returns
    ret_names = {n.ast.value.id for n in g.nodes if n.kind == 'stmt' and
                 isinstance(n.ast, ast.Return) and
                 isinstance(n.ast.value, ast.Name)}
    caps = [(n, c) for n, c in nodes_with_call(g, 'append')
            if isinstance(c.func.value, ast.Name) and
            c.func.value.id in ret_names]
    ctx.floor('execute sites', len(execs), 1)
    ctx.floor('capture sites', len(caps), 1)
    # innermost loop head of the execute call
    def head_of(n):
        best = None
        for h in g.nodes:
            if h.kind != 'for':
                continue
            body = set()
            for s, l in h.succ:
                if l == 'T':
                    body |= g.reachable([s], avoid=[h], follow_exc=False)
            if n.id in body and (best is None or h.id in best[1]):
                best = (h, body)
        return best[0] if best else None

    for en, ec in execs:
        h = head_of(en)
        if h is None:
            ctx.finding(f, ec, 'cursor.execute is not inside the statement '
                        'loop')
            continue
        loop_vars = [x.id for x in ast.walk(h.ast.target)
                     if isinstance(x, ast.Name)]
        args = [a.id for a in ec.args if isinstance(a, ast.Name)]
        if args != loop_vars or len(ec.args) != len(args):
            ctx.finding(f, ec, 'cursor.execute arguments %s are not exactly '
                        'the statement-loop variables %s' % (
                            [unparse(a) for a in ec.args], loop_vars))
        else:
            ctx.ok(f, 'executed statement = loop variables %s' % loop_vars, ec)
        n_in = 0
        for cn, cc in caps:
            if head_of(cn) is not h:
                # captures outside the statement loop must be comments
                s = const_str(cc.args[0]) if cc.args else None
                if s is not None and s.startswith('--'):
                    ctx.ok(f, 'capture outside the statement loop is an SQL '
                           'comment', cc)
                else:
                    ctx.finding(f, cc, 'captured text that is not a comment '
                                'is produced outside the statement loop')
                continue
            n_in += 1
            called = {x.func.id for x in ast.walk(cc.args[0])
                      if isinstance(x, ast.Call) and
                      isinstance(x.func, ast.Name)}
            used = names_loaded(cc.args[0]) - called
            comp_vars = {x.id for y in ast.walk(cc.args[0])
                         if isinstance(y, ast.comprehension)
                         for x in ast.walk(y.target)
                         if isinstance(x, ast.Name)}
            used -= comp_vars
            # no redefinition of the loop vars between head and both uses
            redefined = False
            for v in loop_vars:
                for where in (cn, en):
                    ds = rd.reaching(where, v)
                    if any(d.node is not h for d in ds):
                        redefined = True
            if used <= set(loop_vars) and loop_vars[0] in used and \
                    not redefined:
                ctx.ok(f, 'captured text is a function of the same loop '
                       'variables %s' % sorted(used), cc)
            else:
                ctx.finding(f, cc, 'captured text uses %s%s, executed '
                            'statement uses %s' % (
                                sorted(used), ' (redefined in the loop)'
                                if redefined else '', loop_vars))
        if n_in == 0:
            ctx.finding(f, ec, 'nothing is captured in the statement loop',
                        key='no-capture-in-loop')
        # normalisation upstream of both
        outer = h
        src_ok = False
        it = h.ast.iter
        for _, e in rd.origins(h, it):
            for x in ast.walk(e):
                if isinstance(x, ast.Call) and call_name(x) == '_prepare_sql':
                    src_ok = True
        if src_ok:
            ctx.ok(f, 'the statement loop iterates over _prepare_sql(...) '
                   'output (normalisation upstream of capture and execute)')
        else:
            ctx.finding(f, h.ast, 'the statement loop no longer iterates the '
                        'output of _prepare_sql', key='no-prepare-upstream')


def r2b_param_condition_agrees(ctx):
    """cursor.execute(statement, params) treats the statement as a format
    string whenever params is not None (an empty tuple included: SQLite's
    wrapper then rewrites `%s` and `%%`).  If the capture side decides
    between "format with the parameters" and "print verbatim" by the *truth*
    of params, the two agree only if an empty parameter tuple can never
    reach the loop: the producer (_prepare_sql) has to normalise it to
    None."""
    ctx.rule('R-C14.2')
    p = ctx.program
    f = p.func('utils.sql', 'SQLExecutor.run_sql')
    g = ctx.cfg(f)
    caps_fmt = [n for n in g.nodes for c in n.calls()
                if call_name(c) == 'append' and any(
                    isinstance(x, ast.BinOp) and isinstance(x.op, ast.Mod)
                    for a in c.args for x in ast.walk(a))]
    ctx.floor('capture sites that format with parameters', len(caps_fmt), 1)
    kinds = set()
    for n in caps_fmt:
        for t in g.nodes:
            if t.kind != 'test' or not g.guarded_by(n, t, 'T'):
                continue
            txt = ' '.join(unparse(t.ast).split())
            if txt == 'params':
                kinds.add('truthy')
            elif txt in ('params is not None',):
                kinds.add('not-none')
    if not kinds:
        ctx.info('capture formats unconditionally')
        return
    if kinds == {'not-none'}:
        ctx.ok(f, 'capture formats with parameters exactly when execution '
               'does (params is not None)')
        return
    prep = p.func('utils.sql', 'SQLExecutor._prepare_sql')
    pg = ctx.cfg(prep)
    normalised = False
    for n in pg.nodes:
        a = n.ast
        if n.kind == 'stmt' and isinstance(a, ast.Assign) and any(
                isinstance(t, ast.Name) and t.id == 'params'
                for t in a.targets):
            v = a.value
            if isinstance(v, ast.Constant) and v.value is None:
                for t in pg.nodes:
                    if t.kind != 'test':
                        continue
                    txt = ' '.join(unparse(t.ast).split())
                    if (txt == 'params' and pg.guarded_by(n, t, 'F')) or \
                            (txt in ('not params', 'len(params) == 0',
                                     'params == ()') and
                             pg.guarded_by(n, t, 'T')):
                        normalised = True
            if isinstance(v, ast.BoolOp) and isinstance(v.op, ast.Or) and \
                    unparse(v.values[0]) == 'params' and \
                    isinstance(v.values[-1], ast.Constant) and \
                    v.values[-1].value is None:
                normalised = True
    if normalised:
        ctx.ok(prep, 'an empty parameter tuple is normalised to None before '
               'it reaches capture / execute')
    else:
        ctx.finding(f, caps_fmt[0].ast, 'the preview formats a statement with '
                    'its parameters only when `params` is truthy, execution '
                    'passes `params` to cursor.execute() whenever it is not '
                    'None, and _prepare_sql lets an empty tuple through: a '
                    'statement queued as (sql, ()) with a literal "%" is '
                    'printed verbatim but executed as a format string',
                    key='empty-params-tuple')


def r4_preview_reads_what_execution_reads(ctx):
    """Execution runs the SQL that _build_batches computed per batch, in
    graph order, against the signature / database state left by the batches
    before it.  A preview that prints each task's own `task.sql` - computed
    once in prepare(), per task, against a clone of the stored state, in
    queue order - shows different statements whenever tasks interact: a
    foreign key to a primary key another app renames in the same run, an
    AFTER_EVOLUTIONS order, evolutions of one app split around a migration
    (two rebuilds executed, one previewed).  Both sides must read the same
    variable."""
    ctx.rule('R-C14.4')
    p = ctx.program
    from ..flow import ReachingDefs
    ex = p.func('evolve.evolve_app_task', 'EvolveAppTask.execute_tasks')
    g = ctx.cfg(ex)
    rd = ReachingDefs(g, ex.params)
    exec_src = set()
    for n in g.nodes:
        for c in n.calls():
            if call_name(c) == 'execute' and kwarg(c, 'sql') is not None:
                for _, e in rd.origins(n, kwarg(c, 'sql')):
                    txt = unparse(e)
                    if 'batch' in txt or 'task_info' in txt:
                        exec_src.add('batches')
                    if txt.endswith('.sql') and 'task' in txt:
                        exec_src.add('task.sql')
    ctx.floor('sources of executed evolution SQL', len(exec_src), 1)
    pv = p.func('management.commands.evolve', 'Command._display_compiled_sql')
    pg = ctx.cfg(pv)
    prd = ReachingDefs(pg, pv.params)
    prev_src = set()
    for n in pg.nodes:
        for c in n.calls():
            if call_name(c) == 'run_sql' and kwarg(c, 'capture') is not None:
                arg = c.args[0] if c.args else kwarg(c, 'sql')
                for _, e in prd.origins(n, arg):
                    txt = unparse(e)
                    if 'batch' in txt or 'iter_sql' in txt or \
                            'iter_tasks_sql' in txt:
                        prev_src.add('batches')
                    if txt.endswith('.sql') and 'task' in txt:
                        prev_src.add('task.sql')
    ctx.floor('sources of previewed SQL', len(prev_src), 1)
    if prev_src == exec_src:
        ctx.ok(pv, 'the preview prints the SQL execution runs (%s)' %
               ', '.join(sorted(prev_src)))
    else:
        ctx.finding(pv, None, 'the preview prints %s while execution runs the '
                    'SQL of %s: the statements differ whenever tasks '
                    'interact (cross-app state, dependency order, evolutions '
                    'split over two batches)' % (
                        ' / '.join(sorted(prev_src)),
                        ' / '.join(sorted(exec_src))),
                    key='preview-source-differs')


def _task_attrs_into_run_sql(f, capture_only):
    """Attributes of loop/local objects that reach run_sql(...) in f."""
    out = []
    for c in walk_no_nested(f.node):
        if isinstance(c, ast.Call) and call_name(c) == 'run_sql':
            arg = c.args[0] if c.args else kwarg(c, 'sql')
            out.append((c, arg))
    return out


def r3_preview_classes(ctx):
    ctx.rule('R-C14.3')
    p = ctx.program
    # --- execution side: EvolveAppTask.execute_tasks
    ex = p.func('evolve.evolve_app_task', 'EvolveAppTask.execute_tasks')
    g = ctx.cfg(ex)
    rd = ReachingDefs(g, ex.params)
    classes = {}
    for n in g.nodes:
        for c in n.calls():
            nm = call_name(c)
            if nm in ('_create_models', '_apply_deferred_sql', 'execute'):
                v = kwarg(c, 'sql')
                if v is None:
                    continue
                keys = set()
                for _, e in rd.origins(n, v):
                    for x in ast.walk(e):
                        k = subscript_const(x)
                        if k:
                            keys.add(k)
                        if isinstance(x, ast.Call) and call_name(x) == 'get' \
                                and x.args and const_str(x.args[0]):
                            keys.add(const_str(x.args[0]))
                classes[nm] = (c, keys)
    ctx.floor('SQL-executing calls in execute_tasks', len(classes), 3)
    want = {'_create_models': 'new_models_sql',
            '_apply_deferred_sql': 'new_models_deferred_sql',
            'execute': 'sql'}
    for nm, key in want.items():
        if nm not in classes:
            continue
        c, keys = classes[nm]
        if key in keys:
            ctx.ok(ex, '%s(sql=...) is fed from batch key %r' % (nm, key), c)
        else:
            ctx.finding(ex, c, '%s(sql=...) is not fed from batch key %r '
                        '(found %s)' % (nm, key, sorted(keys)))
    # --- both evolution-SQL sites come from generate_mutations_info()['sql']
    bb = p.func('evolve.evolve_app_task', 'EvolveAppTask._build_batches')
    pr = p.func('evolve.evolve_app_task', 'EvolveAppTask.prepare')
    for f, what in ((bb, "batch 'sql'"), (pr, 'task.sql')):
        ok = False
        for n in walk_no_nested(f.node):
            # {'sql': mutations_info['sql']}  or  self.sql = mutations_info['sql']
            val = None
            if isinstance(n, ast.Dict):
                for k, v in zip(n.keys, n.values):
                    if k is not None and const_str(k) == 'sql':
                        val = v
            elif isinstance(n, ast.Assign) and any(
                    isinstance(t, ast.Attribute) and t.attr == 'sql'
                    for t in n.targets):
                val = n.value
            if val is not None and subscript_const(val) == 'sql' and \
                    isinstance(val.value, ast.Name):
                # the subscripted local comes from generate_mutations_info
                name = val.value.id
                for m in walk_no_nested(f.node):
                    if isinstance(m, ast.Assign) and any(
                            isinstance(t, ast.Name) and t.id == name
                            for t in m.targets) and \
                            isinstance(m.value, ast.Call) and \
                            call_name(m.value) == 'generate_mutations_info':
                        ok = True
        if ok:
            ctx.ok(f, "%s is generate_mutations_info(...)['sql']" % what)
        else:
            ctx.finding(f, None, "%s no longer comes from "
                        "generate_mutations_info(...)['sql']" % what,
                        key='evolution-sql-source')
    # preview SQL (prepare) and executed SQL (_build_batches) select their
    # mutations with the same function: both calls must name the database
    # (it selects database-specific .sql evolution files)
    from ..util import unit_walk
    sel = {}
    for f in (pr, bb):
        for g_, c in unit_walk(ctx, f):
            if isinstance(c, ast.Call) and \
                    call_name(c) == 'get_app_pending_mutations':
                sel[f.qualname] = c
    if len(sel) == 2:
        for q, c in sorted(sel.items()):
            db = kwarg(c, 'database')
            if db is not None and 'database' in unparse(db):
                ctx.ok(p.func('evolve.evolve_app_task', q),
                       'pending mutations are selected for the evolved '
                       'database (database=%s)' % unparse(db), c)
            else:
                ctx.finding(p.func('evolve.evolve_app_task', q), c,
                            'get_app_pending_mutations is called without '
                            'database= here but with it at the sibling site: '
                            'preview and execution can load different '
                            'evolution files (<db>_<label>.sql) for the same '
                            'upgrade', key='pending-mutations-no-database')
        labs = {q: unparse(kwarg(c, 'evolution_labels') or ast.Constant(None))
                for q, c in sel.items()}
    else:
        ctx.finding(pr, None, 'prepare and _build_batches no longer both '
                    'select mutations through get_app_pending_mutations',
                    key='pending-selection-sites')
    gmi = p.func('evolve.evolve_app_task',
                 'EvolveAppTask.generate_mutations_info')
    ret_sql = None
    for n in walk_no_nested(gmi.node):
        if isinstance(n, ast.Dict):
            for k, v in zip(n.keys, n.values):
                if k is not None and const_str(k) == 'sql':
                    ret_sql = v
    if isinstance(ret_sql, ast.Call) and call_name(ret_sql) == 'to_sql':
        ctx.ok(gmi, "generate_mutations_info()['sql'] is app_mutator.to_sql()",
               ret_sql)
    else:
        ctx.finding(gmi, ret_sql, "generate_mutations_info()['sql'] is not "
                    "app_mutator.to_sql()", key='gmi-sql')
    # --- preview side
    pv = p.func('management.commands.evolve', 'Command._display_compiled_sql')
    attrs = set()
    for c, arg in _task_attrs_into_run_sql(pv, True):
        if kwarg(c, 'execute') is not None:
            ctx.finding(pv, c, 'the SQL preview executes SQL')
        for x in ast.walk(arg) if arg is not None else []:
            if isinstance(x, ast.Attribute):
                attrs.add(x.attr)
    # the preview walks the tasks in queue order (the order evolve() uses)
    loops = [l for l in walk_no_nested(pv.node) if isinstance(l, ast.For)
             and any(isinstance(c, ast.Call) and call_name(c) == 'run_sql'
                     for c in ast.walk(l))]
    for l in loops[:1]:
        it = l.iter
        while isinstance(it, ast.Call) and call_name(it) in ('enumerate',
                                                             'list', 'iter'):
            it = it.args[0]
        src = it
        if isinstance(it, ast.Name):
            for a in walk_no_nested(pv.node):
                if isinstance(a, ast.Assign) and any(
                        isinstance(t, ast.Name) and t.id == it.id
                        for t in a.targets):
                    src = a.value
        if unparse(src) in ('self.evolver.tasks', 'evolver.tasks'):
            ctx.ok(pv, 'the preview iterates evolver.tasks in queue order',
                   l)
        else:
            ctx.finding(pv, l, 'the preview iterates %s instead of '
                        'evolver.tasks: statements are listed in a different '
                        'order than an execution runs them' % unparse(src),
                        key='preview-order')
    # other task attributes read in the preview
    for x in walk_no_nested(pv.node):
        if isinstance(x, ast.Attribute) and isinstance(x.value, ast.Name) \
                and x.value.id == 'task':
            attrs.add(x.attr)
    ctx.counts['R-C14.3 task attributes read by the preview'] = len(attrs)
    if 'sql' in attrs:
        ctx.ok(pv, 'preview captures task.sql (evolution and purge SQL)')
    else:
        ctx.finding(pv, None, 'preview no longer captures task.sql',
                    key='preview-omits:sql')
    # new-model / deferred SQL
    models_attrs = {a for a in attrs if 'new_models' in a}
    if any('deferred' in a for a in models_attrs):
        ctx.ok(pv, 'preview includes deferred new-model SQL')
    else:
        ctx.finding(pv, None, 'the preview feeds only %s to run_sql(capture='
                    'True); execution also runs deferred new-model SQL '
                    '(_apply_deferred_sql)' % sorted(attrs),
                    key='preview-omits:new_models_deferred_sql')
    if any('deferred' not in a for a in models_attrs):
        ctx.ok(pv, 'preview includes new-model SQL')
    else:
        ctx.finding(pv, None, 'the preview feeds only %s to run_sql(capture='
                    'True); execution also runs model-creation SQL '
                    '(_create_models)' % sorted(attrs),
                    key='preview-omits:new_models_sql')


def r5_task_sql_execution_depends_only_on_sql(ctx, rule_id='R-C14.5'):
    """The preview prints a task's SQL whenever there is some.  The execute
    loop of an evolutions batch runs `task.execute(sql=<batch SQL of the
    task>)`; inside that per-task loop, whether the call happens may depend
    only on that SQL being non-empty.  Any further condition (e.g. "the task
    has recorded evolutions in this batch") makes a class of tasks - hinted
    ones have no recorded evolutions - print SQL that is never run."""
    ctx.rule(rule_id)
    p = ctx.program
    f = p.func('evolve.evolve_app_task', 'EvolveAppTask.execute_tasks')
    g = ctx.cfg(f)
    rd = ReachingDefs(g, f.params)
    n = 0
    loops = [l for l in walk_no_nested(f.node) if isinstance(l, ast.For)]
    for node in g.nodes:
        for c in node.calls():
            sql = kwarg(c, 'sql')
            if call_name(c) != 'execute' or sql is None or \
                    kwarg(c, 'sql_executor') is None:
                continue
            n += 1
            inner = None
            for l in loops:
                if any(x is c for x in ast.walk(l)):
                    if inner is None or any(x is l for x in ast.walk(inner)):
                        inner = l
            if inner is None:
                continue
            sql_names = {x.id for x in ast.walk(sql)
                         if isinstance(x, ast.Name)}
            in_loop = {id(x) for st in inner.body for x in ast.walk(st)}
            bad = []
            for t in g.nodes:
                if t.kind not in ('test', 'operand') or t.ast is None or \
                        id(t.ast) not in in_loop:
                    continue
                if not (g.guarded_by(node, t, 'T') or
                        g.guarded_by(node, t, 'F')):
                    continue
                names = {x.id for x in ast.walk(t.ast)
                         if isinstance(x, ast.Name)}
                if not names <= sql_names | {'len'}:
                    bad.append(' '.join(unparse(t.ast).split()))
            if bad:
                ctx.finding(f, c, 'inside the per-task loop, whether the '
                            'task\'s batch SQL (%s) is executed also depends '
                            'on "%s": the preview prints that SQL, the run '
                            'skips it' % (unparse(sql),
                                          '; '.join(sorted(set(bad)))),
                            key='task-sql-execution-conditional')
            else:
                ctx.ok(f, 'a task\'s batch SQL is executed whenever it is '
                       'non-empty', c)
    ctx.floor('task.execute(sql=...) calls in execute_tasks', n, 1)


def _copy_depth(e):
    """How many container levels of the argument are copied by e."""
    if isinstance(e, ast.Call):
        n = call_name(e)
        if n == 'deepcopy':
            return 99
        if n in ('dict', 'OrderedDict', 'list', 'set') and e.args:
            a = e.args[0]
            if isinstance(a, (ast.GeneratorExp, ast.ListComp)):
                elt = a.elt
                if isinstance(elt, ast.Tuple) and len(elt.elts) == 2:
                    elt = elt.elts[1]
                return 1 + _copy_depth(elt)
            return 1
        if n == 'copy' and isinstance(e.func, ast.Attribute):
            return 1
        if n == 'clone':
            return 99
    if isinstance(e, ast.DictComp):
        return 1 + _copy_depth(e.value)
    if isinstance(e, (ast.ListComp, ast.SetComp)):
        return 1 + _copy_depth(e.elt)
    return 0


def _literal_depth(e):
    if isinstance(e, ast.Dict):
        return 1 + max([_literal_depth(v) for v in e.values] or [0])
    if isinstance(e, (ast.List, ast.Set)):
        return 1 + max([_literal_depth(v) for v in e.elts] or [0])
    if isinstance(e, ast.Call) and call_name(e) in ('dict', 'OrderedDict',
                                                    'list', 'set'):
        return 1
    return 0


def r6_state_clone_shares_nothing(ctx, rule_id='R-C14.6'):
    """The preview SQL (task.sql) is generated on
    evolver.database_state.clone(), the executed SQL afterwards on the live
    state.  The clone must not share a mutable container with the original:
    index bookkeeping done while generating the preview would otherwise land
    in the live state, and the second generation - asking "does this index
    already exist?" - emits nothing for statements the preview printed.
    The nesting depth of DatabaseState._tables is read from add_table(); the
    copy made in clone() must be at least that deep."""
    ctx.rule(rule_id)
    p = ctx.program
    cls = p.cls('db.state', 'DatabaseState')
    need = 0
    for f in cls.methods.values():
        for n in walk_no_nested(f.node):
            if isinstance(n, ast.Assign) and any(
                    isinstance(t, ast.Subscript) and
                    is_self_attr(t.value, '_tables') for t in n.targets):
                need = max(need, 1 + _literal_depth(n.value))
    ctx.floor('container nesting depth of DatabaseState._tables', need, 2)
    f = cls.methods['clone']
    got = None
    for n in walk_no_nested(f.node):
        if isinstance(n, ast.Assign) and any(
                isinstance(t, ast.Attribute) and t.attr == '_tables'
                for t in n.targets):
            got = (_copy_depth(n.value), n)
    if got is None:
        raise AnalysisError('%s: DatabaseState.clone no longer assigns '
                            '_tables' % rule_id)
    depth, node = got
    if depth >= need:
        ctx.ok(f, 'clone() copies _tables to depth %s (needed: %d)' % (
            'all' if depth >= 99 else depth, need), node)
    else:
        ctx.finding(f, node, 'DatabaseState.clone() copies _tables only %d '
                    'level(s) deep (%s) but the structure add_table() builds '
                    'is %d levels of mutable containers: the clone shares '
                    'its per-table index dictionaries with the live state, '
                    'so generating the preview SQL changes what the '
                    'execution pass finds' % (
                        depth, ' '.join(unparse(node.value).split())[:80],
                        need), key='state-clone-shallow')


def r7_published_new_app_flag_is_the_one_used(ctx):
    """prepare() (preview SQL) decides "this app is new here" once, from the
    stored signature lookup, and publishes the decision as
    self.app_sig_is_new for _build_batches() (executed SQL).  The published
    value must be that decision: the local flag itself, or the same test
    evaluated while `app_sig` still is the looked-up value.  Re-deriving it
    after app_sig was rebound (to the clone of the target signature) makes
    the two passes disagree for exactly the apps being installed."""
    ctx.rule('R-C14.7')
    p = ctx.program
    f = p.func('evolve.evolve_app_task', 'EvolveAppTask.prepare')
    g = ctx.cfg(f)
    rd = ReachingDefs(g, f.params)
    n = 0
    for node in g.nodes:
        a = node.ast
        if not (node.kind == 'stmt' and isinstance(a, ast.Assign) and any(
                isinstance(t, ast.Attribute) and t.attr == 'app_sig_is_new'
                and isinstance(t.value, ast.Name) and t.value.id == 'self'
                for t in a.targets)):
            continue
        n += 1
        bad = None
        for x in ast.walk(a.value):
            if isinstance(x, ast.Name) and x.id != 'app_sig_is_new' and \
                    isinstance(x.ctx, ast.Load):
                for d in rd.reaching(node, x.id):
                    v = d.value
                    if not (isinstance(v, ast.Call) and
                            call_name(v) in ('get_app_sig',)):
                        bad = (x.id, d)
        if bad:
            ctx.finding(f, a, 'self.app_sig_is_new is computed from %s after '
                        'it was rebound (line %s): prepare() and '
                        '_build_batches() disagree about whether the app is '
                        'new, so the executed batch contains SQL the preview '
                        'never showed' % (
                            bad[0], getattr(bad[1].node.stmt, 'lineno', '?')),
                        key='new-app-flag-rederived')
        else:
            ctx.ok(f, 'the published flag is the decision prepare() itself '
                   'used', a)
    ctx.floor('stores of self.app_sig_is_new in prepare()', n, 1)


def r8_stored_version_through_the_manager(ctx):
    """Which Version row is "the stored signature" is defined once, by
    VersionManager.current_version() (newest `when`, ties broken by id).
    The preview pass and the execution pass must read it through that
    method: an ad-hoc query (`.latest('when')`, `order_by(...)[0]`) breaks
    ties differently, so with two versions saved in the same second the
    preview filters the pending mutations against another signature than
    the execution does."""
    ctx.rule('R-C14.8')
    p = ctx.program
    n_cur, hit = 0, False
    for m in p.modules.values():
        for f in m.all_funcs():
            if f.cls is not None and f.cls.name == 'VersionManager':
                continue
            for c in walk_no_nested(f.node, include_lambda=True):
                if not isinstance(c, ast.Call):
                    continue
                if call_name(c) == 'current_version':
                    n_cur += 1
                if call_name(c) in ('latest', 'earliest', 'first', 'last') \
                        and 'Version.objects' in unparse(c.func):
                    hit = True
                    ctx.finding(f, c, '%s picks the stored version with %s '
                                'instead of VersionManager.current_version(): '
                                'for versions saved with the same timestamp '
                                'it returns a different row' % (
                                    f.qualname,
                                    ' '.join(unparse(c).split())),
                                key='version-picked-ad-hoc')
    ctx.floor('readers of the current stored version', n_cur, 3)
    if not hit:
        ctx.ok(('django_evolution.models', 'VersionManager'), 'the stored '
               'version is always read through current_version()')


def r9_preview_quoting_rewrites_only_the_delimiter(ctx):
    """Execution binds parameters raw (cursor.execute(sql, params)); the
    preview substitutes them into the text through quote_sql_param().  Every
    character that helper rewrites other than the string delimiter itself
    makes the previewed literal denote a different value from the one the
    execution binds (a doubled backslash is two characters on SQLite and
    standard PostgreSQL).  The helper - base class and every backend
    override - may therefore only wrap the value in quotes and escape the
    quote character."""
    ctx.rule('R-C14.9')
    p = ctx.program
    base = p.cls('db.common', 'BaseEvolutionOperations')
    n = 0
    for cls in [base] + list(base.all_subclasses()):
        f = cls.methods.get('quote_sql_param')
        if f is None:
            continue
        n += 1
        bad = []
        for c in walk_no_nested(f.node):
            if isinstance(c, ast.Call) and isinstance(c.func, ast.Attribute) \
                    and c.func.attr in ('replace', 'translate', 'sub',
                                        'encode', 'escape') and c.args:
                a0 = c.args[0]
                if c.func.attr == 'replace' and \
                        isinstance(a0, ast.Constant) and a0.value == "'":
                    continue
                bad.append(c)
        for c in bad:
            ctx.finding(f, c, '%s.quote_sql_param rewrites more than the '
                        'quote character (%s): the previewed literal no '
                        'longer denotes the value the execution binds' % (
                            cls.name, ' '.join(unparse(c).split())[-70:]),
                        key='preview-quoting-rewrites:%s' % (
                            unparse(c.args[0])[:20]))
        if not bad:
            ctx.ok(f, '%s.quote_sql_param only quotes and escapes the '
                   'delimiter' % cls.name)
    ctx.floor('quote_sql_param implementations', n, 1)


def run(ctx):
    r9_preview_quoting_rewrites_only_the_delimiter(ctx)
    r8_stored_version_through_the_manager(ctx)
    r7_published_new_app_flag_is_the_one_used(ctx)
    r6_state_clone_shares_nothing(ctx)
    r5_task_sql_execution_depends_only_on_sql(ctx)
    r1_determinism(ctx)
    r2_capture_execute(ctx)
    r2b_param_condition_agrees(ctx)
    r3_preview_classes(ctx)
    r4_preview_reads_what_execution_reads(ctx)


def run_thorough(ctx):
    # whole package, out-of-scope sites are information only
    ctx.rule('R-C14.1')
    kinds = ctx._setkinds
    for f in ctx.program.all_funcs():
        if in_scope(f):
            continue
        for s in determinism.analyse_function(ctx, kinds, f):
            ctx.info('out-of-scope set iteration %s %s: %s (%s)' % (
                f.loc(s.node), f.qualname, s.verdict, s.reason))
