"""C08 - each evolution is applied and recorded exactly once."""
from __future__ import annotations

import ast
from typing import Dict, List, Set

from ..flow import ReachingDefs
from ..program import (AnalysisError, Func, call_name, const_str, dotted,
                       kwarg, norm_key, unparse, walk_no_nested)
from ..util import (for_heads, is_self_attr, loop_body_ids, nodes_with_call,
                    subscript_const)

EXPLANATION = (
    'Decided clauses: R-C08.1 (who may record) Evolution rows are created '
    'and saved only by Evolver._save_project_sig, the post-migrate baseline '
    'installer and the mark-evolution-applied command; EvolveAppTask.prepare '
    'only constructs unsaved objects; R-C08.2 in Evolver.evolve the '
    'evolutions of every executed task are accumulated exactly once (inside '
    'the task-class loop, after execute_tasks) and handed to the single save; '
    '_save_project_sig attaches each one to the saved version before '
    'bulk_create; R-C08.3 (provenance) the labels a task records are the '
    'labels it executes: new_evolutions is built from the same variable that '
    'selects the pending mutations; for an app without a stored signature '
    'the whole sequence is recorded and no evolution SQL is generated; '
    'R-C08.4 the applied / unapplied queries are scoped by app label and '
    'database; R-C08.5 the labels a batch executes are exactly the labels of '
    'its graph nodes for that task; R-C08.6 a batch never calls '
    'task.execute() with a possibly-None sql (which would fall back to the '
    'SQL of all pending evolutions of the task); '
    'R-C08.3 also: the batch builder generates no SQL for apps without a stored signature, and the raw sequence recorded for such an app is reduced by the labels already recorded.'
    ' '
    'R-C08.7 whether Evolver._save_project_sig writes the Evolution rows may depend only on there being evolutions to write (guards of the bulk_create call mention nothing but the parameter).'
    ' '
    'R-C08.8 mark-evolution-applied checks and records the same label set (same variable, same reaching definitions, check dominates record).'
    ' '
    'R-C08.9 = R-C07.11.'
    ' '
    'R-C08.10 the post_migrate/post_syncdb baseline handler builds the Evolution rows of every app returned by get_apps(): no path through one loop iteration avoids the get_evolution_sequence() read.')
NOT_DECIDED = (
    'Exactly-once over histories of runs (needs executing several runs '
    'against one database).')
TECHNIQUE = ('who-may-write over the package, CFG loop/dominance facts in '
             'Evolver.evolve, variable-provenance slices in '
             'EvolveAppTask.prepare / _build_batches, sibling agreement of '
             'the applied-set queries')
LEVEL_NOTE = ('Trusted: Python ast, CFG, reaching definitions.')

TASK = 'evolve.evolve_app_task'
ALLOWED_RECORDERS = {
    'Evolver._save_project_sig': 'the single save point of an evolve run',
    '_on_app_models_updated': 'baseline install after syncdb/migrate: '
                              'records the whole sequence of every app',
    'Command.handle': 'management command mark-evolution-applied',
}


def r1_who_may_record(ctx):
    ctx.rule('R-C08.1')
    p = ctx.program
    n = 0
    for f in p.all_funcs():
        ctor = [c for c in walk_no_nested(f.node, include_lambda=True)
                if isinstance(c, ast.Call) and isinstance(c.func, ast.Name)
                and c.func.id == 'Evolution']
        saves = [c for c in walk_no_nested(f.node, include_lambda=True)
                 if isinstance(c, ast.Call) and (
                     (call_name(c) == 'bulk_create' and
                      'Evolution' in unparse(c.func)) or
                     (call_name(c) == 'save' and
                      'evolution' in unparse(c.func.value).lower()
                      and 'version' not in unparse(c.func.value).lower()) or
                     (call_name(c) == 'create' and
                      'Evolution.objects' in unparse(c.func)))]
        if saves:
            n += 1
            ok = f.qualname in ALLOWED_RECORDERS and (
                f.qualname != 'Command.handle' or
                'mark-evolution-applied' in f.module.relpath)
            if ok:
                ctx.ok(f, 'designated recorder of applied evolutions: %s' %
                       ALLOWED_RECORDERS[f.qualname], saves[0])
            else:
                ctx.finding(f, saves[0], 'Evolution rows are written by %s, '
                            'which is not a designated recorder' %
                            f.qualname)
        elif ctor:
            ctx.ok(f, '%s constructs Evolution objects without saving them' %
                   f.qualname, ctor[0])
    ctx.floor('functions saving Evolution rows', n, 3)


def r2_one_accumulation(ctx):
    ctx.rule('R-C08.2')
    p = ctx.program
    f = p.func('evolve.evolver', 'Evolver.evolve')
    g = ctx.cfg(f)
    accs = [n for n in g.nodes if n.kind == 'stmt' and
            isinstance(n.ast, ast.AugAssign) and
            unparse(n.ast.target) == 'new_evolutions']
    accs += [n for n, c in nodes_with_call(g, 'extend')
             if unparse(c.func.value) == 'new_evolutions']
    execs = nodes_with_call(g, 'execute_tasks')
    saves = nodes_with_call(g, '_save_project_sig')
    if len(accs) != 1:
        ctx.finding(f, None, 'expected one accumulation of task.'
                    'new_evolutions in Evolver.evolve, found %d' % len(accs),
                    key='acc-count-%d' % len(accs))
        return
    a = accs[0]
    val = a.ast.value if isinstance(a.ast, ast.AugAssign) else \
        [c for c in a.calls() if call_name(c) == 'extend'][0].args[0]
    # flattened form: [e for task in <tasks> for e in task.new_evolutions]
    comp_tasks = None
    if isinstance(val, (ast.ListComp, ast.GeneratorExp)) and \
            len(val.generators) == 2 and \
            not val.generators[0].ifs and not val.generators[1].ifs and \
            isinstance(val.elt, ast.Name) and \
            isinstance(val.generators[1].target, ast.Name) and \
            val.elt.id == val.generators[1].target.id and \
            isinstance(val.generators[0].target, ast.Name) and \
            isinstance(val.generators[1].iter, ast.Attribute) and \
            val.generators[1].iter.attr == 'new_evolutions' and \
            isinstance(val.generators[1].iter.value, ast.Name) and \
            val.generators[1].iter.value.id == val.generators[0].target.id:
        comp_tasks = unparse(val.generators[0].iter)
    if unparse(val).endswith('.new_evolutions') or comp_tasks is not None:
        ctx.ok(f, 'accumulates task.new_evolutions', a.ast)
    else:
        ctx.finding(f, a.ast, 'the accumulated value is not '
                    'task.new_evolutions')
    # inside the outer loop, in an inner loop over the same tasks passed to
    # execute_tasks, and after execute_tasks
    outer = [h for h in for_heads(g)
             if all(en.id in loop_body_ids(g, h) for en, _ in execs)]
    inner = [h for h in for_heads(g) if a.id in loop_body_ids(g, h) and
             h not in outer]
    ec = execs[0][1] if execs else None
    tasks_arg = unparse(kwarg(ec, 'tasks')) if ec is not None and \
        kwarg(ec, 'tasks') is not None else None
    per_task = (inner and unparse(inner[-1].ast.iter) == tasks_arg) or \
        (comp_tasks is not None and comp_tasks == tasks_arg and
         all(a.id in loop_body_ids(g, h) for h in outer) and
         not [h for h in for_heads(g) if a.id in loop_body_ids(g, h) and
              h not in outer])
    if outer and per_task and \
            all(g.dominates(en, a) for en, _ in execs):
        ctx.ok(f, 'every task of the executed class contributes once, after '
               'execute_tasks', a.ast)
    else:
        ctx.finding(f, a.ast, 'new_evolutions is not accumulated once per '
                    'task of the class that was just executed',
                    key='acc-shape')
    # initialised empty once, before the loop
    inits = [n for n in g.nodes if n.kind == 'stmt' and
             isinstance(n.ast, ast.Assign) and
             unparse(n.ast.targets[0]) == 'new_evolutions']
    if len(inits) == 1 and isinstance(inits[0].ast.value, ast.List) and \
            not inits[0].ast.value.elts and not g.in_loop(inits[0]):
        ctx.ok(f, 'new_evolutions starts empty, outside the loops',
               inits[0].ast)
    else:
        ctx.finding(f, None, 'new_evolutions is not initialised exactly once '
                    'to an empty list outside the loops', key='acc-init')
    if len(saves) == 1 and unparse(kwarg(saves[0][1], 'new_evolutions') or
                                   (saves[0][1].args[0] if saves[0][1].args
                                    else ast.Constant(None))) == \
            'new_evolutions' and not g.in_loop(saves[0][0]):
        ctx.ok(f, 'the accumulated list is saved once', saves[0][1])
    else:
        ctx.finding(f, None, 'the accumulated evolutions are not handed to a '
                    'single _save_project_sig call', key='save-shape')
    s = p.func('evolve.evolver', 'Evolver._save_project_sig')
    sg = ctx.cfg(s)
    vs = [n for n, c in nodes_with_call(sg, 'save')]
    bc = [n for n, c in nodes_with_call(sg, 'bulk_create')]
    at = [n for n in sg.nodes if n.kind == 'stmt' and
          isinstance(n.ast, ast.Assign) and
          unparse(n.ast.targets[0]).endswith('.version')]
    heads = [h for h in for_heads(sg)
             if any(x.id in loop_body_ids(sg, h) for x in at)]
    same_list = heads and bc and all(
        unparse(h.ast.iter) == unparse(
            [c for c in b.calls() if call_name(c) == 'bulk_create'][0].args[0])
        for h in heads for b in bc)
    if vs and bc and at and all(sg.dominates(v, b) for v in vs for b in bc) \
            and heads and same_list and \
            all(sg.dominates(h, b) for h in heads for b in bc):
        ctx.ok(s, 'version is saved and attached to every evolution before '
               'bulk_create')
    else:
        ctx.finding(s, None, '_save_project_sig does not save the version '
                    'and attach it to the evolutions before bulk_create',
                    key='attach-order')
    c = [c for n, c in nodes_with_call(sg, 'bulk_create')]
    if c and c[0].args and unparse(c[0].args[0]) == s.params[1]:
        ctx.ok(s, 'exactly the evolutions handed in are recorded', c[0])
    else:
        ctx.finding(s, c[0] if c else None, 'bulk_create does not record the '
                    'new_evolutions parameter')


def r3_label_provenance(ctx):
    ctx.rule('R-C08.3')
    p = ctx.program
    f = p.func(TASK, 'EvolveAppTask.prepare')
    g = ctx.cfg(f)
    rd = ReachingDefs(g, f.params)
    # self.new_evolutions = [Evolution(app_label=..., label=label) for label
    # in <V>]
    rec = None
    for n in g.nodes:
        if n.kind == 'stmt' and isinstance(n.ast, ast.Assign) and any(
                is_self_attr(t, 'new_evolutions') for t in n.ast.targets):
            rec = n
    if rec is None:
        ctx.finding(f, None, 'prepare never sets self.new_evolutions',
                    key='no-new-evolutions')
        return
    comp = rec.ast.value
    if not (isinstance(comp, ast.ListComp) and
            isinstance(comp.elt, ast.Call) and
            call_name(comp.elt) == 'Evolution' and
            isinstance(comp.generators[0].iter, ast.Name)):
        ctx.finding(f, rec.ast, 'self.new_evolutions is not built as '
                    '[Evolution(label=label) for label in <labels>]',
                    key='new-evolutions-shape')
        return
    V = comp.generators[0].iter.id
    lab = kwarg(comp.elt, 'label')
    if lab is not None and unparse(lab) == unparse(comp.generators[0].target):
        ctx.ok(f, 'one Evolution(label=label) per label in %s' % V, rec.ast)
    else:
        ctx.finding(f, rec.ast, 'recorded labels are not the iterated labels')
    if kwarg(comp.elt, 'app_label') is not None and \
            unparse(kwarg(comp.elt, 'app_label')) == 'app_label':
        ctx.ok(f, 'recorded under the task\'s own app label')
    else:
        ctx.finding(f, rec.ast, 'recorded evolutions do not carry the '
                    'task\'s app label', key='app-label')
    # definitions of V reaching the record
    defs = rd.reaching(rec, V)
    ctx.floor('definitions of the recorded label list', len(defs), 3)
    for d in sorted(defs, key=lambda x: x.node.id):
        v = d.value
        if d.kind == 'mutate':
            # evolutions.append(evolution['label']) for custom evolutions
            if isinstance(v, ast.Subscript) and subscript_const(v) == 'label':
                ctx.ok(f, 'custom evolutions: labels appended next to their '
                       'mutations', d.node.ast)
            else:
                ctx.finding(f, d.node.ast, 'the recorded label list is '
                            'extended with %s' % unparse(v))
            continue
        if isinstance(v, ast.List) and not v.elts:
            ctx.ok(f, 'path recording nothing (%s = [])' % V, d.node.ast)
            continue
        if isinstance(v, ast.Call) and call_name(v) == 'get_evolution_sequence':
            # fresh app: whole sequence recorded, nothing executed
            gens = [n for n, c in nodes_with_call(g, 'generate_mutations_info')]
            reach = g.reachable([d.node], follow_exc=False)
            if any(x.id in reach for x in gens):
                ctx.finding(f, d.node.ast, 'after recording the whole '
                            'sequence for an app without a stored signature, '
                            'evolution SQL can still be generated',
                            key='fresh-app-executes')
            else:
                ctx.ok(f, 'app without a stored signature: the whole '
                       'sequence is recorded and no evolution SQL is '
                       'generated on that path', d.node.ast)
            # "no stored signature" does not mean "nothing recorded": an app
            # that never has a model to install on this database (no models,
            # or all routed elsewhere) never gets a signature and takes this
            # branch on every run.  Unless the Evolution table does not
            # exist yet, the raw sequence must not reach the record without
            # being reduced by what is already recorded.
            redefs = [x for x in g.nodes if x is not d.node and any(
                dd.var == V and dd.kind != 'mutate'
                for dd in rd.defs_of_node.get(x.id, []))]
            exist_tests = [t for t in g.nodes if t.kind in ('test', 'operand')
                           and ('has_model' in unparse(t.ast) or
                                unparse(t.ast) == V)]
            drop = {(t.id, 'F') for t in exist_tests}
            starts = [s_ for s_, l in d.node.succ if l != 'exc']
            reach = g.reachable(starts, avoid=redefs, follow_exc=False,
                                drop_edges=drop)
            guarded = exist_tests and any(g.guarded_by(d.node, t, 'F')
                                          for t in exist_tests)
            if rec.id in reach and not guarded:
                ctx.finding(f, d.node.ast, 'for an app without a stored '
                            'signature the whole sequence is recorded '
                            'without consulting the Evolution table: an app '
                            'that never gets a signature on this database '
                            '(no models here) has its whole history recorded '
                            'again by every run', key='fresh-app-rerecorded')
            else:
                ctx.ok(f, 'the recorded sequence is reduced by the labels '
                       'already recorded (when the table exists)', d.node.ast)
            continue
        if isinstance(v, ast.Call) and call_name(v) == \
                'get_unapplied_evolutions':
            # same variable selects the pending mutations
            uses = [c for n, c in nodes_with_call(
                g, 'get_app_pending_mutations')
                if n.id in g.reachable([d.node], follow_exc=False)]
            good = [c for c in uses
                    if unparse(kwarg(c, 'evolution_labels') or
                               ast.Constant(None)) == V]
            if good:
                ctx.ok(f, 'the unapplied labels that are recorded are the '
                       'labels whose mutations are executed '
                       '(evolution_labels=%s)' % V, good[0])
            else:
                ctx.finding(f, d.node.ast, 'the labels recorded (%s) are not '
                            'the labels passed to get_app_pending_mutations: '
                            'evolutions would be recorded without being '
                            'executed or executed without being recorded' %
                            V, key='labels-diverge')
            continue
        if isinstance(v, ast.ListComp) and len(v.generators) == 1 and \
                isinstance(v.generators[0].iter, ast.Name) and \
                v.generators[0].iter.id == V and \
                unparse(v.elt) == unparse(v.generators[0].target) and \
                v.generators[0].ifs and all(
                    isinstance(t, ast.Compare) and
                    isinstance(t.ops[0], ast.NotIn)
                    for t in v.generators[0].ifs):
            flt = ' '.join(unparse(e) for t in v.generators[0].ifs
                           for _, e in rd.origins(d.node, t.comparators[0]))
            if 'get_applied_evolutions' in flt:
                ctx.ok(f, 'the recorded labels are reduced by the labels '
                       'already recorded', d.node.ast)
                continue
        ctx.finding(f, d.node.ast, 'the recorded label list is bound from '
                    '%s, which is not a recognised source' % unparse(v)[:50])
    # ... and the batch builder, which decides independently what to execute,
    # must agree: a task whose app has no stored signature (app_sig_is_new)
    # only *records* its sequence, so no SQL may be generated for it there
    # either (model-less mutations such as SQLMutation survive the
    # changed-model filter of get_app_pending_mutations).
    from ..util import unit
    bb = p.func(TASK, 'EvolveAppTask._build_batches')
    gens = 0
    for fn in unit(ctx, bb):
        bg = ctx.cfg(fn)
        tests = [t for t in bg.nodes if t.kind == 'test' and
                 'app_sig_is_new' in unparse(t.ast)]
        for n in bg.nodes:
            for c in n.calls():
                if call_name(c) not in ('get_app_pending_mutations',
                                        'generate_mutations_info'):
                    continue
                gens += 1
                if any(bg.guarded_by(n, t, 'F') for t in tests):
                    ctx.ok(fn, '%s in the batch builder is skipped for apps '
                           'without a stored signature' % call_name(c), c)
                else:
                    ctx.finding(fn, c, 'the batch builder calls %s for every '
                                'task of the batch, including apps that are '
                                'being installed for the first time '
                                '(app_sig_is_new): their recorded-only '
                                'sequence is turned into SQL (SQLMutation, '
                                'RenameAppLabel survive the changed-model '
                                'filter) and executed against the freshly '
                                'created tables' % call_name(c),
                                key='fresh-app-sql-in-batches:%s' %
                                call_name(c))
    ctx.floor('SQL generation calls in the batch builder', gens, 2)
    # the pending mutations actually run are the ones selected above
    gm = nodes_with_call(g, 'generate_mutations_info')
    if gm and all(c.args and unparse(c.args[0]) == 'pending_mutations'
                  for _, c in gm):
        ctx.ok(f, 'generate_mutations_info runs the selected '
               'pending_mutations', gm[0][1])
    else:
        ctx.finding(f, None, 'generate_mutations_info is not fed the '
                    'selected pending mutations', key='pending-arg')


def r4_queries_scoped(ctx):
    ctx.rule('R-C08.4')
    p = ctx.program
    for q in ('get_applied_evolutions', 'get_unapplied_evolutions'):
        f = p.func('utils.evolutions', q)
        txt = ' '.join(unparse(f.node).split())
        ok_app = 'filter(app_label=get_app_label(app))' in txt
        ok_db = '.using(database)' in txt
        if ok_app and ok_db:
            ctx.ok(f, '%s filters by app_label=get_app_label(app) on '
                   '.using(database)' % q)
        else:
            ctx.finding(f, None, '%s is not scoped by %s: evolutions of '
                        'another app / database would count as applied' % (
                            q, ' and '.join(
                                x for x, ok in (('app label', ok_app),
                                                ('database', ok_db))
                                if not ok)), key='query-scope')
        if 'values_list(\'label\', flat=True)' in txt:
            ctx.ok(f, '%s compares labels' % q)
    f = p.func('utils.evolutions', 'get_unapplied_evolutions')
    if 'get_evolution_sequence(app)' in unparse(f.node) and \
            'not in applied' in unparse(f.node):
        ctx.ok(f, 'unapplied = sequence order minus applied labels')
    else:
        ctx.finding(f, None, 'get_unapplied_evolutions is no longer '
                    '"sequence minus applied"', key='unapplied-shape')


def r5_batch_labels(ctx, rule_id='R-C08.5'):
    ctx.rule(rule_id)
    p = ctx.program
    f = p.func(TASK, 'EvolveAppTask._build_batches')
    # producer: task_info.setdefault('evolutions', []).append(evolution.label)
    prod = [c for c in walk_no_nested(f.node)
            if isinstance(c, ast.Call) and call_name(c) == 'append' and
            "setdefault('evolutions'" in unparse(c.func)]
    if prod and unparse(prod[0].args[0]) == 'evolution.label':
        # evolution = node.state['evolution'], task = node.state['task']
        txt = unparse(f.node)
        if "evolution = node.state['evolution']" in txt and \
                "task = node.state['task']" in txt:
            ctx.ok(f, 'batch labels are the labels of the batch\'s graph '
                   'nodes, keyed by the node\'s task', prod[0])
        else:
            ctx.finding(f, prod[0], 'batch labels are not taken from the '
                        'graph node state')
    else:
        ctx.finding(f, None, 'batch labels are not collected from '
                    'evolution.label', key='no-batch-labels')
    from ..util import unit_walk, param_argument, through_copies

    def trace(expr, fn):
        """Follow a helper parameter back to the argument at the call site
        in _build_batches (and single-assignment local copies)."""
        expr = through_copies(fn, expr)
        if isinstance(expr, ast.Attribute) and isinstance(expr.value,
                                                          ast.Name):
            base = through_copies(fn, expr.value)
            if base is not expr.value and isinstance(base, ast.Name):
                expr = ast.Attribute(value=base, attr=expr.attr,
                                     ctx=ast.Load())
        if fn is not f and isinstance(expr, ast.Name) and \
                expr.id in fn.params:
            args = param_argument(ctx, f, fn, expr.id)
            if args:
                return args[0]
        if fn is not f and isinstance(expr, ast.Attribute) and \
                isinstance(expr.value, ast.Name) and \
                expr.value.id in fn.params:
            args = param_argument(ctx, f, fn, expr.value.id)
            if args:
                return ast.Attribute(value=args[0], attr=expr.attr,
                                     ctx=ast.Load())
        return expr

    # the (task, info) pairs of a batch
    pairs = set()
    for l in walk_no_nested(f.node):
        if isinstance(l, ast.For) and isinstance(l.target, ast.Tuple) and \
                len(l.target.elts) == 2 and all(
                    isinstance(e, ast.Name) for e in l.target.elts) and \
                'task_evolutions' in unparse(l.iter):
            pairs.add((l.target.elts[0].id, l.target.elts[1].id))
    cons = [(g, c) for g, c in unit_walk(ctx, f)
            if isinstance(c, ast.Call) and
            call_name(c) == 'get_app_pending_mutations']
    ctx.floor('get_app_pending_mutations calls in _build_batches', len(cons),
              1)
    for g, c in cons:
        lab = kwarg(c, 'evolution_labels')
        app = kwarg(c, 'app')
        lab_t = trace(lab, g) if lab is not None else None
        app_t = trace(app, g) if app is not None else None
        ok = False
        if isinstance(lab_t, ast.Subscript) and \
                subscript_const(lab_t) == 'evolutions' and \
                isinstance(lab_t.value, ast.Name) and \
                isinstance(app_t, ast.Attribute) and app_t.attr == 'app' and \
                isinstance(app_t.value, ast.Name) and \
                (app_t.value.id, lab_t.value.id) in pairs:
            ok = True
        if ok:
            ctx.ok(g, 'pending mutations are selected by exactly the batch\'s '
                   'labels for that task', c)
        else:
            ctx.finding(g, c, 'the batch executes mutations selected by %s '
                        'for %s, not by its own labels' % (
                            unparse(lab_t) if lab_t is not None else '?',
                            unparse(app_t) if app_t is not None else '?'))
    # custom evolutions path: mutations_map[<label>] for <label> in <labels>
    custom = False
    for g, n in unit_walk(ctx, f):
        if isinstance(n, (ast.GeneratorExp, ast.ListComp)) and \
                isinstance(n.elt, ast.Subscript) and \
                isinstance(n.elt.slice, ast.Name) and \
                isinstance(n.generators[0].target, ast.Name) and \
                n.elt.slice.id == n.generators[0].target.id:
            it = trace(n.generators[0].iter, g)
            if isinstance(it, ast.Subscript) and \
                    subscript_const(it) == 'evolutions':
                custom = True
        # nested form: [m for label in <labels> for m in map[label]]
        if isinstance(n, (ast.GeneratorExp, ast.ListComp)) and \
                len(n.generators) >= 2:
            for a, b in zip(n.generators, n.generators[1:]):
                if isinstance(a.target, ast.Name) and \
                        isinstance(b.iter, ast.Subscript) and \
                        isinstance(b.iter.slice, ast.Name) and \
                        b.iter.slice.id == a.target.id:
                    it = trace(a.iter, g)
                    if isinstance(it, ast.Subscript) and \
                            subscript_const(it) == 'evolutions':
                        custom = True
    if custom:
        ctx.ok(f, 'custom evolutions are selected by the batch\'s labels too')
    else:
        ctx.finding(f, None, 'custom evolutions in a batch are not selected '
                    'by the batch labels', key='custom-labels')


def r6_no_fallback_to_task_sql(ctx):
    """EvolveAppTask.execute(sql=None) means "run the whole task's SQL".  A
    batch must therefore never call it with a possibly-missing value."""
    ctx.rule('R-C08.6')
    p = ctx.program
    ex = p.func(TASK, 'EvolveAppTask.execute')
    fallback = any(
        isinstance(n, ast.If) and 'sql is None' in unparse(n.test) and
        'self.sql' in unparse(n) for n in walk_no_nested(ex.node))
    f = p.func(TASK, 'EvolveAppTask.execute_tasks')
    g = ctx.cfg(f)
    rd = ReachingDefs(g, f.params)
    calls = [(n, c) for n, c in nodes_with_call(g, 'execute')
             if kwarg(c, 'sql') is not None]
    ctx.floor('task.execute(sql=...) calls in execute_tasks', len(calls), 1)
    for n, c in calls:
        v = kwarg(c, 'sql')
        maybe_none = any(
            isinstance(e, ast.Call) and call_name(e) == 'get' and
            len(e.args) < 2 for _, e in rd.origins(n, v))
        if not (fallback and maybe_none):
            ctx.ok(f, 'the batch SQL handed to execute() cannot be None', c)
            continue
        tests = [t for t in g.nodes if t.kind == 'test' and
                 unparse(t.ast) == unparse(v)]
        if any(g.guarded_by(n, t, 'T') for t in tests):
            ctx.ok(f, 'task.execute(sql=%s) only when the batch has SQL for '
                   'that task' % unparse(v), c)
        else:
            ctx.finding(f, c, 'task.execute(sql=%s) can receive None (the '
                        'batch has no SQL for the task): execute() then '
                        'falls back to self.sql and re-runs every pending '
                        'evolution of the task, including ones already '
                        'executed in an earlier batch' % unparse(v),
                        key='sql-none-fallback')


def r7_recording_unconditional(ctx):
    """Evolver._save_project_sig() is the one place where the evolutions of a
    run become Evolution rows.  Whether the rows are written may depend only
    on there being evolutions to write: every other condition (hinted mode,
    simulation flags, ...) makes some run save a signature that contains an
    app while recording none of the evolutions that signature already
    reflects - the next run applies all of them again."""
    ctx.rule('R-C08.7')
    p = ctx.program
    f = p.func('evolve.evolver', 'Evolver._save_project_sig')
    g = ctx.cfg(f)
    params = [x for x in f.params if x != 'self']
    n = 0
    for node in g.nodes:
        for c in node.calls():
            if call_name(c) not in ('bulk_create', 'create'):
                continue
            if not any(isinstance(x, ast.Name) and x.id in params
                       for a in list(c.args) + [k.value for k in c.keywords]
                       for x in ast.walk(a)):
                continue
            n += 1
            bad = []
            for t in g.nodes:
                if t.kind not in ('test', 'operand') or not (
                        g.guarded_by(node, t, 'T') or
                        g.guarded_by(node, t, 'F')):
                    continue
                names = {x.id for x in ast.walk(t.ast)
                         if isinstance(x, ast.Name)}
                if not names <= set(params) | {'len'} or any(
                        isinstance(x, ast.Attribute) for x in ast.walk(t.ast)):
                    bad.append(' '.join(unparse(t.ast).split()))
            if bad:
                ctx.finding(f, c, 'whether the evolutions of a run are '
                            'recorded also depends on "%s": a run that saves '
                            'the new signature without the records makes the '
                            'next run apply every evolution of a freshly '
                            'installed app again' % '; '.join(sorted(set(bad))),
                            key='recording-conditional')
            else:
                ctx.ok(f, 'the evolutions handed to _save_project_sig are '
                       'always recorded', c)
    ctx.floor('writes of Evolution rows in _save_project_sig', n, 1)


def r8_mark_applied_checks_what_it_records(ctx):
    """mark-evolution-applied refuses labels that are already recorded and
    then records the labels.  The set it checks must be the set it records:
    the same variable with the same reaching definitions at the query
    (`label__in=X`) and at the creation loop.  Checking the labels as typed
    and recording the `--all` expansion writes a second Evolution row for
    every label that was already applied."""
    ctx.rule('R-C08.8')
    p = ctx.program
    mod = None
    for m in p.modules.values():
        if m.relpath.endswith('management/commands/mark-evolution-applied.py'):
            mod = m
    if mod is None:
        raise AnalysisError('R-C08.8: mark-evolution-applied command not '
                            'found')
    f = mod.classes['Command'].methods['handle']
    g = ctx.cfg(f)
    rd = ReachingDefs(g, f.params)
    check = act = None
    for node in g.nodes:
        for c in node.calls():
            if call_name(c) == 'filter' and kwarg(c, 'label__in') is not None \
                    and isinstance(kwarg(c, 'label__in'), ast.Name):
                check = (node, kwarg(c, 'label__in').id, c)
            if call_name(c) == 'bulk_create' and c.args:
                a = c.args[0]
                it = None
                if isinstance(a, (ast.GeneratorExp, ast.ListComp)):
                    it = a.generators[0].iter
                elif isinstance(a, ast.Name):
                    it = a
                if isinstance(it, ast.Name):
                    act = (node, it.id, c)
    if check is None or act is None:
        raise AnalysisError('R-C08.8: the already-applied query or the '
                            'bulk_create of mark-evolution-applied was not '
                            'recognised')
    ctx.counts['R-C08.8 check/record pairs'] = 1
    dc = {(d.node.id, d.kind) for d in rd.reaching(check[0], check[1])}
    da = {(d.node.id, d.kind) for d in rd.reaching(act[0], act[1])}
    if check[1] == act[1] and dc == da and \
            g.dominates(check[0], act[0]):
        ctx.ok(f, 'the labels checked against the recorded evolutions are '
               'the labels that get recorded', check[2])
    else:
        ctx.finding(f, check[2], 'the already-applied check reads %s as '
                    'defined at %s, the rows are created from %s as defined '
                    'at %s: labels that are recorded without having been '
                    'checked get a second Evolution row' % (
                        check[1], sorted(x for x, _ in dc), act[1],
                        sorted(x for x, _ in da)),
                    key='check-and-record-differ')


def r9_only_the_executor_ends_transactions(ctx):
    from .c07 import r11_only_the_executor_ends_transactions
    r11_only_the_executor_ends_transactions(ctx, rule_id='R-C08.9')


def r10_baseline_records_every_app(ctx):
    """The baseline installed by the post_migrate / post_syncdb handler (a
    database set up outside an Evolver run: flush, a plain migrate) says
    "everything that exists now is applied".  The stored signature it saves
    has an entry for every app with a models module, so EvolveAppTask.prepare
    treats each of them as installed; an app whose labels are not recorded at
    the same time has its whole sequence - SQL evolutions included - executed
    by the next upgrade, on a fresh install.  Inside the handler's loop over
    get_apps() the Evolution rows are therefore built for every app: no path
    through one iteration goes round the get_evolution_sequence() read."""
    ctx.rule('R-C08.10')
    p = ctx.program
    f = p.func('management', '_on_app_models_updated')
    g = ctx.cfg(f)
    n = 0
    for node in g.nodes:
        for c in node.calls():
            if call_name(c) != 'get_evolution_sequence':
                continue
            for h in g.nodes:
                if h.kind != 'for' or \
                        node.id not in loop_body_ids(g, h) | {h.id}:
                    continue
                n += 1
                bad = []
                for b in [s_ for s_, l in h.succ if l == 'T']:
                    if b is node:
                        continue
                    skip = g.path(b, h, avoid=[node], follow_exc=False)
                    if skip is not None:
                        tests = [x for x in skip
                                 if x.kind in ('test', 'operand') and
                                 x.ast is not None]
                        bad.append(' / '.join(
                            ' '.join(unparse(x.ast).split())
                            for x in tests) or 'an unconditional jump')
                if bad:
                    ctx.finding(f, c, 'the baseline handler records an '
                                'app\'s evolution labels only when "%s": an '
                                'app that is skipped has a stored signature '
                                'but no applied labels, so the next upgrade '
                                'executes its whole sequence on a freshly '
                                'installed database' % '; '.join(
                                    sorted(set(bad))),
                                key='baseline-recording-conditional')
                else:
                    ctx.ok(f, 'every app\'s sequence is recorded by the '
                           'baseline handler', c)
    ctx.floor('get_evolution_sequence reads inside the baseline loop', n, 1)


def run(ctx):
    r10_baseline_records_every_app(ctx)
    r9_only_the_executor_ends_transactions(ctx)
    r8_mark_applied_checks_what_it_records(ctx)
    r7_recording_unconditional(ctx)
    r6_no_fallback_to_task_sql(ctx)
    r1_who_may_record(ctx)
    r2_one_accumulation(ctx)
    r3_label_provenance(ctx)
    r4_queries_scoped(ctx)
    r5_batch_labels(ctx)
