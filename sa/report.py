"""Findings, obligations, known-findings matching and evidence writing."""
from __future__ import annotations

import ast
import json
import os
import time
from typing import Dict, List, Optional

from .cfg import CFG, fmt_path
from .program import AnalysisError, Func, Program, norm_key

VERIF = os.path.dirname(os.path.dirname(os.path.abspath(__file__)))
KNOWN_FILE = os.path.join(VERIF, 'known_findings.json')


class Finding(object):
    def __init__(self, prop, rule, module, qualname, key, message, loc,
                 path=None, extra=None):
        self.prop, self.rule = prop, rule
        self.module, self.qualname, self.key = module, qualname, key
        self.message, self.loc = message, loc
        self.path = path
        self.extra = extra or {}
        self.known = None     # matching known-findings entry

    def ident(self):
        return (self.prop, self.rule, self.module, self.qualname, self.key)

    def as_dict(self):
        d = {'property': self.prop, 'rule': self.rule, 'module': self.module,
             'qualname': self.qualname, 'key': self.key,
             'message': self.message, 'loc': self.loc}
        if self.path:
            d['path'] = self.path
        if self.extra:
            d['extra'] = self.extra
        return d


def load_known(path=KNOWN_FILE) -> List[dict]:
    if not os.path.exists(path):
        return []
    with open(path) as fp:
        return json.load(fp)


class Ctx(object):
    """Per-check context handed to rule functions."""

    def __init__(self, prop: str, program: Program, tier='quick',
                 known: Optional[List[dict]] = None):
        self.prop = prop
        self.program = program
        self.tier = tier
        self.findings: List[Finding] = []
        self.obligations: List[dict] = []
        self.infos: List[str] = []
        self.rules_run: List[str] = []
        self.counts: Dict[str, int] = {}
        self.funcs_analysed: Dict[str, int] = {}
        self._cfgs: Dict[str, CFG] = {}
        self.cfg_nodes = 0
        self.calls_resolved = 0
        self.calls_approx = 0
        self.known = [k for k in (known if known is not None else load_known())
                      if k.get('property') == prop]
        self.cur_rule = None

    # -- engine helpers ---------------------------------------------------
    def cfg(self, func: Func) -> CFG:
        if func.fq not in self._cfgs:
            g = CFG(func.node)
            self._cfgs[func.fq] = g
            self.cfg_nodes += len(g.nodes)
            self.funcs_analysed[func.fq] = len(g.nodes)
        return self._cfgs[func.fq]

    def touch(self, func: Func):
        self.funcs_analysed.setdefault(func.fq, 0)

    def resolve(self, func: Func, call: ast.Call):
        targets, prec = self.program.resolve_call(func, call)
        if prec == 'approx':
            self.calls_approx += 1
        elif prec in ('exact', 'cha'):
            self.calls_resolved += 1
        return targets, prec

    # -- results ---------------------------------------------------------------
    def rule(self, rule_id: str):
        self.cur_rule = rule_id
        if rule_id not in self.rules_run:
            self.rules_run.append(rule_id)

    def ok(self, where, what: str, node=None, **extra):
        """Record a discharged obligation."""
        loc = self._loc(where, node)
        ob = {'rule': self.cur_rule, 'site': loc, 'what': what,
              'verdict': 'holds'}
        ob.update(extra)
        self.obligations.append(ob)

    def finding(self, where, node, message: str, key: str = None, path=None,
                **extra):
        """Record a violated obligation."""
        if isinstance(where, Func):
            module, qualname = where.module.name, where.qualname
        else:
            module, qualname = where
        if key is None:
            key = norm_key(node) if node is not None else message
        loc = self._loc(where, node)
        f = Finding(self.prop, self.cur_rule, module, qualname, key, message,
                    loc, path=fmt_path(path) if path else None, extra=extra)
        for k in self.known:
            if (k.get('rule') == f.rule and k.get('module') == f.module and
                    k.get('qualname') == f.qualname and k.get('key') == f.key):
                f.known = k
                break
        # de-duplicate
        for g in self.findings:
            if g.ident() == f.ident():
                return g
        self.findings.append(f)
        ob = {'rule': self.cur_rule, 'site': loc, 'what': message,
              'verdict': 'known-finding'
              if f.known and f.known.get('status') == 'known'
              else 'VIOLATED', 'key': key}
        self.obligations.append(ob)
        return f

    def info(self, msg: str):
        self.infos.append('%s: %s' % (self.cur_rule, msg))

    def floor(self, what: str, count: int, minimum: int):
        self.counts['%s %s' % (self.cur_rule, what)] = count
        if count < minimum:
            raise AnalysisError(
                '%s: instance floor not met for %s: found %d, need >= %d '
                '(the matcher no longer recognises the code; update the rule)'
                % (self.cur_rule, what, count, minimum))

    def _loc(self, where, node=None):
        if isinstance(where, Func):
            return '%s %s' % (where.loc(node), where.qualname)
        if isinstance(where, tuple):
            try:
                m = self.program.modules[where[0]]
                return '%s:%d %s' % (m.relpath, getattr(node, 'lineno', 0),
                                     where[1])
            except KeyError:
                return '%s %s' % where
        return str(where)

    # -- summary -----------------------------------------------------------
    def unlisted(self) -> List[Finding]:
        return [f for f in self.findings
                if not (f.known and f.known.get('status') == 'known')]

    def listed(self) -> List[Finding]:
        return [f for f in self.findings
                if f.known and f.known.get('status') == 'known']

    def stale_known(self) -> List[dict]:
        seen = {f.ident() for f in self.findings}
        out = []
        for k in self.known:
            if k.get('status') != 'known':
                continue
            ident = (k['property'], k['rule'], k['module'], k['qualname'],
                     k['key'])
            if ident not in seen and k['rule'] in self.rules_run:
                out.append(k)
        return out


def write_evidence(ctx: Ctx, explanation: str, not_decided: str,
                   assumptions: List[str], wall_s: float, seed: int,
                   extra_cov: dict = None, path: str = None):
    ev_dir = os.path.join(VERIF, 'evidence')
    os.makedirs(ev_dir, exist_ok=True)
    path = path or os.path.join(ev_dir, '%s.json' % ctx.prop)
    obligations = len(ctx.obligations)
    discharged = sum(1 for o in ctx.obligations if o['verdict'] == 'holds')
    distinct = len({(o['rule'], o['site'], o['what'])
                    for o in ctx.obligations})
    samples = []
    per_rule: Dict[str, int] = {}
    for o in ctx.obligations:
        c = per_rule.get(o['rule'], 0)
        per_rule[o['rule']] = c + 1
        if c < 6 or o['verdict'] != 'holds':
            samples.append(o)
    cov = {
        'explanation': explanation,
        'not_decided': not_decided,
        'rules': ctx.rules_run,
        'obligations': obligations,
        'discharged': discharged,
        'evaluations': obligations,
        'distinct_nontrivial': distinct,
        'rule': 'one obligation per (rule, construct) instance enumerated '
                'from /repo\'s parsed source; distinct = distinct (rule, site, '
                'statement) triples; every instance is a non-trivial proof '
                'obligation about a concrete construct',
        'samples': samples,
        'obligations_per_rule': per_rule,
        'instance_counts': ctx.counts,
        'modules_parsed': len(ctx.program.modules),
        'functions_analysed': len(ctx.funcs_analysed),
        'cfg_nodes': ctx.cfg_nodes,
        'call_sites_resolved': ctx.calls_resolved,
        'call_sites_approximate': ctx.calls_approx,
        'known_findings': [f.as_dict() for f in ctx.listed()],
        'stale_known_findings': ctx.stale_known(),
        'violations': [f.as_dict() for f in ctx.unlisted()],
        'info': ctx.infos,
        'exhaustive': True,
        'analysed_root': ctx.program.root,
        'alpha_normalised_functions': [
            '%s:%s %s' % (m, q, ren)
            for m, q, ren in getattr(ctx.program, 'alpha_renamed', [])],
        'inlined': ['%s:%s <- %s' % (m, q, h)
                    for m, q, h in getattr(ctx.program, 'inlined', [])],
        'inline_skipped': ['%s (%s)' % (w, why) for w, why in
                           getattr(ctx.program, 'inline_skipped', [])][:40],
    }
    if extra_cov:
        cov.update(extra_cov)
    ev = {
        'property_id': ctx.prop,
        'tier': ctx.tier,
        'seed': seed,
        'level': 'other',
        'coverage': cov,
        'assumptions': assumptions,
        'wall_s': round(wall_s, 3),
        'violations': len(ctx.unlisted()),
    }
    tmp = path + '.tmp'
    with open(tmp, 'w') as fp:
        json.dump(ev, fp, indent=1, sort_keys=True, default=str)
    os.replace(tmp, path)
    return path
