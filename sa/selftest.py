"""Both-way self-test of the checker (thorough tier).

Variants are single edits of a *pinned snapshot* of the package
(selftest/pristine/, the non-test modules as of the last fix: commit).  Each
variant still compiles.  'fire' variants break one rule instance and the
named rule must report an unlisted finding; 'silent' variants are
behaviour-preserving refactors and the verdict must not change.  The
property verdict itself never comes from here - it comes from /repo.
"""
from __future__ import annotations

import json
import os
import shutil
import sys
import tempfile
from concurrent.futures import ProcessPoolExecutor

VERIF = os.path.dirname(os.path.dirname(os.path.abspath(__file__)))
PRISTINE = os.path.join(VERIF, 'selftest', 'pristine')
VARIANTS = os.path.join(VERIF, 'selftest', 'variants.json')


def load_variants(prop=None):
    out = []
    d = os.path.join(VERIF, 'selftest')
    for fn in sorted(os.listdir(d)):
        if fn.startswith('variants') and fn.endswith('.json'):
            with open(os.path.join(d, fn)) as fp:
                out += json.load(fp)
    if prop:
        out = [v for v in out if v['property'] == prop]
    return out


def apply_variant(root, v):
    if v.get('patch_file'):
        import subprocess
        r = subprocess.run(['git', 'apply', os.path.join(VERIF,
                                                         v['patch_file'])],
                           cwd=root, stdout=subprocess.PIPE,
                           stderr=subprocess.STDOUT)
        if r.returncode != 0:
            raise RuntimeError('variant %s: patch does not apply: %s' % (
                v['id'], r.stdout.decode()[:200]))
        return
    edits = v.get('edits') or [{'file': v['file'], 'old': v['old'],
                                'new': v['new']}]
    for e in edits:
        path = os.path.join(root, e['file'])
        with open(path) as fp:
            src = fp.read()
        n = src.count(e['old'])
        if n != e.get('count', 1):
            raise RuntimeError('variant %s: pattern occurs %d times in %s' %
                               (v['id'], n, e['file']))
        src = src.replace(e['old'], e['new'])
        compile(src, path, 'exec')
        with open(path, 'w') as fp:
            fp.write(src)


def _unlisted(prop, root):
    sys.path.insert(0, VERIF)
    from check import run_check
    ctx, mod, wall = run_check(prop, 'quick', root)
    return sorted((f.rule, f.qualname, f.key) for f in ctx.unlisted())


def _run_one(v):
    tmp = tempfile.mkdtemp(prefix='sa_selftest_')
    try:
        root = os.path.join(tmp, 'r')
        shutil.copytree(PRISTINE, root)
        try:
            base = _unlisted(v['property'], root)
            apply_variant(root, v)
            got = _unlisted(v['property'], root)
        except Exception as e:  # analysis error on a variant
            if v['expect'] == 'fire' and v.get('accept_analysis_error') and \
                    'AnalysisError' in type(e).__name__:
                return {'id': v['id'], 'ok': True,
                        'got': ['analysis-error: %s' % e]}
            return {'id': v['id'], 'ok': False,
                    'why': '%s: %s' % (type(e).__name__, e)}
        new = [g for g in got if g not in base]
        if v['expect'] == 'fire':
            hit = [g for g in new if g[0] == v['rule'] and
                   (not v.get('qualname') or g[1] == v['qualname'])]
            if hit:
                return {'id': v['id'], 'ok': True, 'got': hit[:3]}
            return {'id': v['id'], 'ok': False,
                    'why': 'expected %s to fire; new findings: %r' %
                    (v['rule'], new[:5])}
        gone = [b for b in base if b not in got]
        if not new and not gone:
            return {'id': v['id'], 'ok': True, 'got': []}
        return {'id': v['id'], 'ok': False,
                'why': 'refactor changed the verdict: new=%r gone=%r' %
                (new[:5], gone[:5])}
    finally:
        shutil.rmtree(tmp, ignore_errors=True)


def _robust_one(args):
    prop, rel, kind, payload, base = args
    import ast as _ast
    sys.path.insert(0, VERIF)
    from selftest import rename_fuzz, refactor_fuzz
    tmp = tempfile.mkdtemp(prefix='sa_robust_')
    try:
        root = os.path.join(tmp, 'r')
        shutil.copytree(PRISTINE, root)
        path = os.path.join(root, rel)
        tree = _ast.parse(open(path).read())
        if kind == 'rename':
            fname, lineno, name = payload
            for node in _ast.walk(tree):
                if isinstance(node, (_ast.FunctionDef,
                                     _ast.AsyncFunctionDef)) and \
                        node.name == fname and node.lineno == lineno:
                    rename_fuzz.Renamer(name, name + '_rn').visit(node)
        else:
            tree = refactor_fuzz.transform(tree, kind, payload)
            if tree is None:
                return None
        src = _ast.unparse(tree)
        compile(src, path, 'exec')
        open(path, 'w').write(src)
        try:
            got = _unlisted(prop, root)
        except Exception as e:
            got = ['%s: %s' % (type(e).__name__, str(e)[:120])]
        return {'site': '%s %s %s' % (rel, kind, payload),
                'unchanged': got == base, 'got': got[:3]}
    finally:
        shutil.rmtree(tmp, ignore_errors=True)


def robustness_sample(prop, analysed_funcs, seed=0, n=40, jobs=16):
    """Sampled behaviour-preserving edits (local renames, negated if/else,
    swapped pure operands, inserted no-op) inside the functions this
    property's rules analysed; the verdict must not change.  Reported in the
    evidence; never changes the exit code (it measures the checker, not the
    code)."""
    import ast as _ast
    import random
    sys.path.insert(0, VERIF)
    from selftest import rename_fuzz, refactor_fuzz
    if not os.path.isdir(PRISTINE):
        return {'variants': 0, 'unchanged': 0}
    wanted = {}
    for fq in analysed_funcs:
        mod, q = fq.split(':', 1)
        wanted.setdefault(mod, set()).add(q.split('.')[-1])
    cands = []
    for mod, names in wanted.items():
        rel = mod.replace('.', '/') + '.py'
        if not os.path.exists(os.path.join(PRISTINE, rel)):
            rel = mod.replace('.', '/') + '/__init__.py'
        path = os.path.join(PRISTINE, rel)
        if not os.path.exists(path):
            continue
        tree = _ast.parse(open(path).read())
        inside = set()
        for node in _ast.walk(tree):
            if isinstance(node, (_ast.FunctionDef, _ast.AsyncFunctionDef)) \
                    and node.name in names:
                for nm in rename_fuzz.locals_of(node):
                    cands.append((rel, 'rename', (node.name, node.lineno,
                                                  nm)))
                inside |= {id(x) for x in _ast.walk(node)}
        for i, node in enumerate(_ast.walk(tree)):
            if id(node) not in inside:
                continue
            for kind, idx in refactor_fuzz.sites(
                    _ast.Module(body=[], type_ignores=[]), ()):
                pass
        for kind, idx in refactor_fuzz.sites(tree, ('neg-if', 'swap-and',
                                                    'noop')):
            node = list(_ast.walk(tree))[idx]
            if id(node) in inside:
                cands.append((rel, kind, idx))
    rnd = random.Random(seed)
    rnd.shuffle(cands)
    cands = cands[:n]
    if not cands:
        return {'variants': 0, 'unchanged': 0}
    tmp = tempfile.mkdtemp(prefix='sa_robust_base_')
    try:
        root = os.path.join(tmp, 'r')
        shutil.copytree(PRISTINE, root)
        base = _unlisted(prop, root)
    finally:
        shutil.rmtree(tmp, ignore_errors=True)
    work = [(prop, rel, kind, payload, base) for rel, kind, payload in cands]
    with ProcessPoolExecutor(max_workers=min(jobs, len(work))) as ex:
        res = [r for r in ex.map(_robust_one, work) if r is not None]
    changed = [r for r in res if not r['unchanged']]
    return {'variants': len(res),
            'unchanged': len(res) - len(changed),
            'kinds': sorted({r['site'].split(' ')[1] for r in res}),
            'changed': changed[:10], 'seed': seed,
            'samples': [r['site'] for r in res[:5]]}


def run_for_property(prop, jobs=16):
    vs = load_variants(prop)
    if not os.path.isdir(PRISTINE):
        return {'variants': 0, 'as_expected': 0, 'broken': [],
                'note': 'no pristine snapshot'}
    results = []
    if vs:
        with ProcessPoolExecutor(max_workers=min(jobs, len(vs))) as ex:
            results = list(ex.map(_run_one, vs))
    broken = [r for r in results if not r['ok']]
    return {
        'variants': len(vs),
        'as_expected': len(vs) - len(broken),
        'fire_variants': sum(1 for v in vs if v['expect'] == 'fire'),
        'silent_variants': sum(1 for v in vs if v['expect'] == 'silent'),
        'broken': broken,
        'results': [{'id': v['id'], 'expect': v['expect'],
                     'rule': v.get('rule'), 'note': v.get('note', ''),
                     'ok': r['ok']} for v, r in zip(vs, results)],
    }


if __name__ == '__main__':
    props = sys.argv[1:] or sorted({v['property'] for v in load_variants()})
    rc = 0
    for p in props:
        r = run_for_property(p)
        print(p, r['variants'], 'variants,', r['as_expected'], 'as expected')
        for b in r['broken']:
            print('   BROKEN', b['id'], b['why'])
            rc = 2
    sys.exit(rc)
