"""Alpha-normalisation of local variable names against a reference snapshot.

The rules name a few *local variables* of the anchored functions (they were
written by reading today's code).  Renaming a local is behaviour-preserving,
so before the rules run, every function of the analysed tree is aligned with
the function of the same qualified name in the pinned reference snapshot
(selftest/pristine): statements are matched by their shape with all local
names blanked out, the matched statements yield a mapping  current local ->
reference local, and if that mapping is a consistent bijection that does not
collide with any other name of the function it is applied to the function's
ast (in memory only).  Parameters, globals, attributes and keyword names are
never touched.  A function that is not alpha-equivalent in its matched
statements is left exactly as it is.

This is a sound normalisation (alpha-renaming preserves meaning); it only
widens the set of programs on which the rules can be evaluated.
"""
from __future__ import annotations

import ast
import difflib
from typing import Dict, List, Optional, Set, Tuple


def _params(fn) -> Set[str]:
    a = fn.args
    out = {x.arg for x in a.posonlyargs + a.args + a.kwonlyargs}
    if a.vararg:
        out.add(a.vararg.arg)
    if a.kwarg:
        out.add(a.kwarg.arg)
    return out


def _locals(fn) -> Set[str]:
    params = _params(fn)
    declared = set()
    for n in ast.walk(fn):
        if isinstance(n, (ast.Global, ast.Nonlocal)):
            declared |= set(n.names)
    out = set()
    for n in ast.walk(fn):
        if isinstance(n, ast.Name) and isinstance(n.ctx, (ast.Store, ast.Del)):
            out.add(n.id)
        elif isinstance(n, ast.ExceptHandler) and n.name:
            out.add(n.name)
        elif isinstance(n, (ast.FunctionDef, ast.AsyncFunctionDef,
                            ast.ClassDef)) and n is not fn:
            out.add(n.name)
    return out - params - declared


class _Blank(ast.NodeTransformer):
    def __init__(self, names):
        self.names = names

    def visit_Name(self, node):
        if node.id in self.names:
            return ast.copy_location(ast.Name(id='_', ctx=node.ctx), node)
        return node

    def visit_ExceptHandler(self, node):
        self.generic_visit(node)
        if node.name in self.names:
            node.name = '_'
        return node


def _shape(stmt, names) -> str:
    import copy
    return ast.dump(_Blank(names).visit(copy.deepcopy(stmt)),
                    annotate_fields=False)


def _name_seq(stmt, names) -> List[str]:
    out = []
    for n in ast.walk(stmt):
        if isinstance(n, ast.Name) and n.id in names:
            out.append(n.id)
        elif isinstance(n, ast.ExceptHandler) and n.name in names:
            out.append(n.name)
    return out


def _flatten(body) -> List[ast.stmt]:
    """Statements in source order, compound statements followed by the
    statements they contain (so that edits inside one branch do not prevent
    matching its siblings)."""
    out = []
    for st in body:
        out.append(st)
        for field in ('body', 'orelse', 'finalbody'):
            sub = getattr(st, field, None)
            if isinstance(sub, list) and sub and isinstance(sub[0], ast.stmt):
                out += _flatten(sub)
        for h in getattr(st, 'handlers', []) or []:
            out += _flatten(h.body)
    return out


def _header_shape(st, names) -> str:
    """Shape of a statement without its nested statement lists."""
    import copy
    c = copy.copy(st)
    for field in ('body', 'orelse', 'finalbody', 'handlers'):
        if hasattr(c, field) and isinstance(getattr(c, field), list):
            setattr(c, field, [])
    return _shape(c, names)


def _header_names(st, names) -> List[str]:
    import copy
    c = copy.copy(st)
    for field in ('body', 'orelse', 'finalbody', 'handlers'):
        if hasattr(c, field) and isinstance(getattr(c, field), list):
            setattr(c, field, [])
    return _name_seq(c, names)


def mapping_for(cur_fn, ref_fn) -> Optional[Dict[str, str]]:
    """current local -> reference local, or None when nothing to do / not
    safely determinable."""
    cl, rl = _locals(cur_fn), _locals(ref_fn)
    if cl == rl and ast.dump(cur_fn) == ast.dump(ref_fn):
        return None
    cs, rs = _flatten(cur_fn.body), _flatten(ref_fn.body)
    ch = [_header_shape(s, cl) for s in cs]
    rh = [_header_shape(s, rl) for s in rs]
    sm = difflib.SequenceMatcher(a=ch, b=rh, autojunk=False)
    fwd: Dict[str, str] = {}
    bwd: Dict[str, str] = {}
    for blk in sm.get_matching_blocks():
        for k in range(blk.size):
            a, b = cs[blk.a + k], rs[blk.b + k]
            na, nb = _header_names(a, cl), _header_names(b, rl)
            if len(na) != len(nb):
                continue
            for x, y in zip(na, nb):
                if fwd.setdefault(x, y) != y or bwd.setdefault(y, x) != x:
                    return None           # inconsistent: leave untouched
    ren = {x: y for x, y in fwd.items() if x != y}
    if not ren:
        return None
    # collisions with names that stay
    staying = (cl - set(ren)) | _params(cur_fn)
    if any(y in staying for y in ren.values()):
        return None
    other_names = {n.id for n in ast.walk(cur_fn) if isinstance(n, ast.Name)}
    if any(y in other_names and y not in ren for y in ren.values()):
        return None
    return ren


class _Rename(ast.NodeTransformer):
    def __init__(self, ren):
        self.ren = ren

    def visit_Name(self, node):
        if node.id in self.ren:
            node.id = self.ren[node.id]
        return node

    def visit_ExceptHandler(self, node):
        if node.name in self.ren:
            node.name = self.ren[node.name]
        self.generic_visit(node)
        return node


def _functions(tree) -> Dict[str, ast.AST]:
    out = {}

    def rec(body, prefix):
        for st in body:
            if isinstance(st, (ast.FunctionDef, ast.AsyncFunctionDef)):
                k, i = prefix + st.name, 0
                while k in out:          # property getter / setter pairs
                    i += 1
                    k = '%s%s#%d' % (prefix, st.name, i)
                out[k] = st
            elif isinstance(st, ast.ClassDef):
                rec(st.body, prefix + st.name + '.')
            elif isinstance(st, (ast.If, ast.Try)):
                rec(st.body, prefix)
                rec(getattr(st, 'orelse', []), prefix)
                for h in getattr(st, 'handlers', []) or []:
                    rec(h.body, prefix)
    rec(tree.body, '')
    return out


def normalise_module(cur_tree, ref_tree) -> List[Tuple[str, Dict[str, str]]]:
    """Rename locals of cur_tree's functions in place; returns what was
    renamed."""
    done = []
    cur, ref = _functions(cur_tree), _functions(ref_tree)
    for q, fn in cur.items():
        r = ref.get(q)
        if r is None:
            continue
        try:
            ren = mapping_for(fn, r)
        except RecursionError:      # pragma: no cover
            ren = None
        if ren:
            _Rename(ren).visit(fn)
            done.append((q, ren))
    return done
