"""Reaching definitions and backward data slices over a CFG."""
from __future__ import annotations

import ast
from typing import Dict, Iterable, Iterator, List, Optional, Set, Tuple

from .cfg import CFG, Node
from .program import call_name, dotted, walk_no_nested

_MUTATORS = {'append', 'extend', 'add', 'update', 'insert', 'setdefault',
             'appendleft', 'add_sql', 'add_pre_sql', 'add_post_sql',
             'add_alter_table'}


def target_names(t) -> Iterator[Tuple[str, ast.AST]]:
    if isinstance(t, ast.Name):
        yield t.id, t
    elif isinstance(t, (ast.Tuple, ast.List)):
        for e in t.elts:
            for x in target_names(e):
                yield x
    elif isinstance(t, ast.Starred):
        for x in target_names(t.value):
            yield x


def base_name(node) -> Optional[str]:
    """'x' for x, x.a, x[k], x.a[k].b ..."""
    while isinstance(node, (ast.Attribute, ast.Subscript)):
        node = node.value
    if isinstance(node, ast.Name):
        return node.id
    return None


class Def(object):
    """One definition of a local name."""
    __slots__ = ('var', 'node', 'value', 'kind', 'target')

    def __init__(self, var, node, value, kind, target=None):
        self.var, self.node, self.value, self.kind = var, node, value, kind
        self.target = target

    def __repr__(self):
        return '<Def %s@N%d %s>' % (self.var, self.node.id, self.kind)


class ReachingDefs(object):
    """Classic reaching definitions; container mutations are weak defs."""

    def __init__(self, cfg: CFG, params: Iterable[str] = (),
                 follow_exc=True):
        self.cfg = cfg
        self.defs_of_node: Dict[int, List[Def]] = {}
        self.in_: Dict[int, Dict[str, Set[Def]]] = {}
        entry_defs = [Def(p, cfg.entry, None, 'param') for p in params]
        self.defs_of_node[cfg.entry.id] = entry_defs
        for n in cfg.nodes:
            if n is cfg.entry:
                continue
            self.defs_of_node[n.id] = list(self._node_defs(n))
        out: Dict[int, Dict[str, Set[Def]]] = {n.id: {} for n in cfg.nodes}
        self.in_ = {n.id: {} for n in cfg.nodes}
        work = list(cfg.nodes)
        inq = {n.id for n in work}
        while work:
            n = work.pop(0)
            inq.discard(n.id)
            cur: Dict[str, Set[Def]] = {}
            for p, l in n.pred:
                if l == 'exc' and not follow_exc:
                    continue
                # along exceptional edges the node's own strong defs may not
                # have happened: use IN ∪ OUT of the predecessor.
                srcs = [out[p.id]] if l != 'exc' else [out[p.id],
                                                       self.in_[p.id]]
                for src in srcs:
                    for v, ds in src.items():
                        cur.setdefault(v, set()).update(ds)
            self.in_[n.id] = cur
            new = {v: set(ds) for v, ds in cur.items()}
            for d in self.defs_of_node[n.id]:
                if d.kind in ('mutate',):
                    new.setdefault(d.var, set()).add(d)
                else:
                    new[d.var] = {d}
            # multiple strong defs of same var in one node (tuple unpack): keep
            strong = {}
            for d in self.defs_of_node[n.id]:
                if d.kind != 'mutate':
                    strong.setdefault(d.var, set()).add(d)
            for v, ds in strong.items():
                new[v] = set(ds) | {d for d in new.get(v, ())
                                    if d.kind == 'mutate' and d.node is n}
            if new != out[n.id]:
                out[n.id] = new
                for s, _ in n.succ:
                    if s.id not in inq:
                        work.append(s)
                        inq.add(s.id)
        self.out = out

    def _node_defs(self, n: Node) -> Iterator[Def]:
        a = n.ast
        if n.kind == 'stmt':
            if isinstance(a, ast.Assign):
                for t in a.targets:
                    for v, tn in target_names(t):
                        yield Def(v, n, a.value,
                                  'assign' if isinstance(t, ast.Name)
                                  else 'unpack', t)
                    if isinstance(t, (ast.Subscript, ast.Attribute)):
                        b = base_name(t)
                        if b:
                            yield Def(b, n, a.value, 'mutate', t)
            elif isinstance(a, ast.AugAssign):
                b = base_name(a.target)
                if b:
                    yield Def(b, n, a.value, 'mutate', a.target)
            elif isinstance(a, ast.AnnAssign) and a.value is not None:
                for v, tn in target_names(a.target):
                    yield Def(v, n, a.value, 'assign', a.target)
            elif isinstance(a, (ast.Import, ast.ImportFrom)):
                for al in a.names:
                    yield Def((al.asname or al.name).split('.')[0], n, None,
                              'import')
        elif n.kind == 'for':
            for v, tn in target_names(a.target):
                yield Def(v, n, a.iter, 'iter', a.target)
        elif n.kind == 'with':
            if a.optional_vars is not None:
                for v, tn in target_names(a.optional_vars):
                    yield Def(v, n, a.context_expr, 'with')
        elif n.kind == 'except':
            if a.name:
                yield Def(a.name, n, a.type, 'except')
        elif n.kind == 'def':
            yield Def(a.name, n, None, 'def')
        # container mutation through method calls: x.append(v) etc.
        if n.kind in ('stmt', 'test', 'operand'):
            for c in n.walk():
                if isinstance(c, ast.Call) and \
                        isinstance(c.func, ast.Attribute) and \
                        c.func.attr in _MUTATORS:
                    b = base_name(c.func.value)
                    if b:
                        for arg in list(c.args) + [k.value for k in c.keywords]:
                            yield Def(b, n, arg, 'mutate', c.func.value)
        # walrus / comprehension targets are ignored (not used in this repo)

    def reaching(self, n: Node, var: str) -> Set[Def]:
        return self.in_.get(n.id, {}).get(var, set())

    # -- backward slice --------------------------------------------------------
    def origins(self, n: Node, expr: ast.AST, max_steps=400
                ) -> List[Tuple[Node, ast.AST]]:
        """All (node, expression) pairs the value of *expr* at *n* may be
        computed from, following local names through reaching definitions
        (data dependence only).  Includes (n, expr) itself."""
        out: List[Tuple[Node, ast.AST]] = []
        seen: Set[Tuple[int, int]] = set()
        work: List[Tuple[Node, ast.AST]] = [(n, expr)]
        steps = 0
        while work and steps < max_steps:
            steps += 1
            cn, ce = work.pop()
            if ce is None or (cn.id, id(ce)) in seen:
                continue
            seen.add((cn.id, id(ce)))
            out.append((cn, ce))
            for x in _walk_expr(ce):
                if isinstance(x, ast.Name) and isinstance(x.ctx, ast.Load):
                    for d in self.reaching(cn, x.id):
                        if d.value is not None:
                            work.append((d.node, d.value))
                        elif d.kind == 'param':
                            out.append((d.node, ast.Name(id='<param:%s>' %
                                                         d.var,
                                                         ctx=ast.Load())))
        return out

    def param_origins(self, n: Node, expr: ast.AST) -> Set[str]:
        out = set()
        for _, e in self.origins(n, expr):
            if isinstance(e, ast.Name) and e.id.startswith('<param:'):
                out.add(e.id[7:-1])
        return out


def _walk_expr(e) -> Iterator[ast.AST]:
    stack = [e]
    while stack:
        x = stack.pop()
        yield x
        if isinstance(x, (ast.Lambda,)):
            continue
        stack.extend(ast.iter_child_nodes(x))


def names_loaded(e) -> Set[str]:
    return {x.id for x in _walk_expr(e)
            if isinstance(x, ast.Name) and isinstance(x.ctx, ast.Load)}


def attr_reads(e, base='self') -> Set[str]:
    """Attributes read directly off a name: base.<attr>."""
    out = set()
    for x in _walk_expr(e):
        if isinstance(x, ast.Attribute) and isinstance(x.value, ast.Name) \
                and x.value.id == base:
            out.add(x.attr)
    return out


def always_raises(cfg: CFG, entry_nodes: List[Node]) -> bool:
    """True if no RETURN-EXIT is reachable from the given nodes."""
    r = cfg.reachable(entry_nodes)
    return cfg.exit.id not in r


def body_entry(cfg: CFG, stmt: ast.AST) -> Optional[Node]:
    """First CFG node belonging to an ast statement (by lineno order)."""
    best = None
    for n in cfg.nodes:
        if n.stmt is stmt or n.ast is stmt:
            if best is None or n.id > best.id:
                best = n
    return best


def nodes_in(cfg: CFG, stmts: List[ast.AST]) -> List[Node]:
    """CFG nodes whose ast lies inside the given statement list."""
    ids = set()
    for s in stmts:
        for x in ast.walk(s):
            ids.add(id(x))
    out = []
    for n in cfg.nodes:
        a = n.ast
        if a is None:
            continue
        if isinstance(a, ast.withitem):
            a = a.context_expr
        if id(a) in ids:
            out.append(n)
    return out
