"""Inlining of helper functions that are new relative to the reference
snapshot ("undo extract-method").

The rules were written against the shape of today's functions.  The most
common behaviour-preserving edit - moving a block of a long function into a
new private helper - changes that shape without changing behaviour.  Before
the rules run, every function that does not exist in the pinned reference
snapshot (selftest/pristine), whose name is unique in the analysed tree and
whose body has a simple enough structure, is substituted back into its call
sites (in memory only):

* parameters bound to plain names / constants / attribute paths are
  substituted, other arguments are bound to a local first (evaluation order
  is kept: a call is only hoisted out of a statement when nothing with a
  possible side effect is evaluated before it in that statement);
* the helper's locals are renamed when they collide with a name of the
  caller, except "re-derived aliases" (`qn = connection.ops.quote_name` in
  both) which are unified with the caller's alias;
* `return` statements are turned into assignments of the result (structured
  conversion of early-return guards; helpers that return from inside a loop
  are not inlined);
* a `@contextmanager` helper with a single `yield` is expanded around the
  body of the `with` statement that uses it;
* a helper whose every reference has been inlined is removed.

Inlining is a semantics-preserving normalisation (beta-reduction under the
stated side conditions); a helper that does not meet them is simply left in
place and the rules fall back to their wrapper summaries.  Bound: three
rounds (helpers calling new helpers calling new helpers).
"""
from __future__ import annotations

import ast
import copy
from typing import Dict, List, Optional, Set, Tuple


class CannotInline(Exception):
    pass


EFFECT = (ast.Call, ast.Yield, ast.YieldFrom, ast.Await, ast.NamedExpr)
COMPS = (ast.ListComp, ast.SetComp, ast.DictComp, ast.GeneratorExp)
OK_DECORATORS = {'classmethod', 'staticmethod', 'contextmanager',
                 'contextlib.contextmanager'}


def _dotted(n) -> Optional[str]:
    if isinstance(n, ast.Name):
        return n.id
    if isinstance(n, ast.Attribute):
        b = _dotted(n.value)
        return '%s.%s' % (b, n.attr) if b else None
    return None


def is_stable(e) -> bool:
    if isinstance(e, (ast.Name, ast.Constant)):
        return True
    if isinstance(e, ast.Attribute):
        return is_stable(e.value)
    return False


def is_pure_display(e) -> bool:
    """A tuple/list/dict/set display over plain names and constants."""
    if isinstance(e, (ast.Name, ast.Constant)):
        return True
    if isinstance(e, (ast.Tuple, ast.List, ast.Set)):
        return all(is_pure_display(x) for x in e.elts)
    if isinstance(e, ast.Dict):
        return all(k is not None and is_pure_display(k) for k in e.keys) and \
            all(is_pure_display(v) for v in e.values)
    return False


def _single_use_outside_loops(body, name) -> bool:
    """True when *name* is loaded exactly once in body and that load is
    evaluated at most once (not inside a loop body or a comprehension's
    repeated part)."""
    uses = []

    def rec(n, looped):
        if isinstance(n, ast.Name) and n.id == name:
            uses.append(looped)
            return
        if isinstance(n, (ast.For, ast.While)):
            if isinstance(n, ast.For):
                rec(n.target, looped)
                rec(n.iter, looped)
            else:
                rec(n.test, True)
            for x in n.body + n.orelse:
                rec(x, True)
            return
        if isinstance(n, COMPS):
            first = n.generators[0]
            rec(first.iter, looped)
            rec(first.target, True)
            for i in first.ifs:
                rec(i, True)
            for g in n.generators[1:]:
                rec(g, True)
            for f in ('elt', 'key', 'value'):
                if hasattr(n, f):
                    rec(getattr(n, f), True)
            return
        if isinstance(n, ast.Lambda):
            for c in ast.iter_child_nodes(n):
                rec(c, True)
            return
        for c in ast.iter_child_nodes(n):
            rec(c, looped)
    for st in body:
        rec(st, False)
    return len(uses) == 1 and uses[0] is False


def _walk_funcs(tree):
    """(qualname, node, parent_body, in_class) for every function reachable
    through classes and top-level if/try wrappers."""
    out = []

    def rec(body, prefix, in_class):
        for st in body:
            if isinstance(st, (ast.FunctionDef, ast.AsyncFunctionDef)):
                out.append((prefix + st.name, st, body, in_class))
            elif isinstance(st, ast.ClassDef):
                rec(st.body, prefix + st.name + '.', True)
            elif isinstance(st, (ast.If, ast.Try)):
                rec(st.body, prefix, in_class)
                rec(getattr(st, 'orelse', []), prefix, in_class)
                for h in getattr(st, 'handlers', []) or []:
                    rec(h.body, prefix, in_class)
    rec(tree.body, '', False)
    return out


def _stored_names(fn) -> Set[str]:
    out = set()
    for n in ast.walk(fn):
        if isinstance(n, ast.Name) and isinstance(n.ctx, (ast.Store, ast.Del)):
            out.add(n.id)
        elif isinstance(n, ast.ExceptHandler) and n.name:
            out.add(n.name)
        elif isinstance(n, (ast.Import, ast.ImportFrom)):
            for a in n.names:
                out.add(a.asname or a.name.split('.')[0])
    return out


def _store_count(fn) -> Dict[str, int]:
    out: Dict[str, int] = {}
    for n in ast.walk(fn):
        if isinstance(n, ast.Name) and isinstance(n.ctx, (ast.Store, ast.Del)):
            out[n.id] = out.get(n.id, 0) + 1
        elif isinstance(n, ast.ExceptHandler) and n.name:
            out[n.name] = out.get(n.name, 0) + 1
    return out


def _all_names(fn) -> Set[str]:
    out = {n.id for n in ast.walk(fn) if isinstance(n, ast.Name)}
    a = fn.args
    out |= {x.arg for x in a.posonlyargs + a.args + a.kwonlyargs}
    if a.vararg:
        out.add(a.vararg.arg)
    if a.kwarg:
        out.add(a.kwarg.arg)
    for n in ast.walk(fn):
        if isinstance(n, ast.ExceptHandler) and n.name:
            out.add(n.name)
    return out


def _has_return(x) -> bool:
    nodes = x if isinstance(x, list) else [x]
    for s in nodes:
        for n in ast.walk(s):
            if isinstance(n, ast.Return):
                return True
    return False


def always_exits(stmts) -> bool:
    if not stmts:
        return False
    s = stmts[-1]
    if isinstance(s, (ast.Return, ast.Raise)):
        return True
    if isinstance(s, ast.If):
        return always_exits(s.body) and always_exits(s.orelse)
    if isinstance(s, ast.With):
        return always_exits(s.body)
    if isinstance(s, ast.Try):
        if s.finalbody and always_exits(s.finalbody):
            return True
        main = always_exits(s.orelse) if s.orelse else always_exits(s.body)
        return main and all(always_exits(h.body) for h in s.handlers)
    return False


class Helper(object):
    def __init__(self, modname, qualname, node, parent_body, in_class):
        self.modname, self.qualname = modname, qualname
        self.node, self.parent_body = node, parent_body
        self.name = node.name
        decs = [_dotted(d) for d in node.decorator_list]
        self.decorators = decs
        self.is_ctx = any(d in ('contextmanager', 'contextlib.contextmanager')
                          for d in decs)
        if not in_class:
            self.kind = 'function'
        elif 'staticmethod' in decs:
            self.kind = 'staticmethod'
        elif 'classmethod' in decs:
            self.kind = 'classmethod'
        else:
            self.kind = 'method'
        self.inlined_sites = 0

    def body(self):
        b = self.node.body
        if b and isinstance(b[0], ast.Expr) and isinstance(
                b[0].value, ast.Constant) and isinstance(b[0].value.value, str):
            b = b[1:]
        return b

    def eligible(self) -> Optional[str]:
        n = self.node
        if isinstance(n, ast.AsyncFunctionDef):
            return 'async'
        if any(d is None or d not in OK_DECORATORS for d in self.decorators):
            return 'decorator'
        if n.args.vararg:
            return 'varargs'
        if n.name.startswith('__') and n.name.endswith('__'):
            return 'dunder'
        yields = 0
        for x in ast.walk(n):
            if x is n:
                continue
            if isinstance(x, (ast.FunctionDef, ast.AsyncFunctionDef,
                              ast.ClassDef, ast.Global, ast.Nonlocal,
                              ast.Await, ast.YieldFrom)):
                return 'nested def / global / await'
            if isinstance(x, ast.Yield):
                yields += 1
            if isinstance(x, ast.Name) and x.id in ('super', n.name,
                                                   'locals', 'vars'):
                return 'super / recursion'
            if isinstance(x, ast.Attribute) and x.attr == n.name:
                return 'recursion'
        if self.is_ctx:
            if yields != 1:
                return 'contextmanager without exactly one yield'
            if any(isinstance(x, ast.Return) for x in ast.walk(n)):
                return 'contextmanager with a return statement'
        elif yields:
            return 'generator'
        if not self.body():
            return 'empty'
        return None


class _Subst(ast.NodeTransformer):
    """Replace Name nodes according to a map name -> expression."""

    def __init__(self, sub: Dict[str, ast.AST]):
        self.sub = sub

    def visit_Name(self, node):
        if node.id in self.sub:
            new = self.sub[node.id]
            if isinstance(node.ctx, ast.Load):
                return ast.copy_location(copy.deepcopy(new), node)
            if isinstance(new, ast.Name):
                return ast.copy_location(ast.Name(id=new.id, ctx=node.ctx),
                                         node)
            raise CannotInline('store to substituted parameter %s' % node.id)
        return node

    def visit_ExceptHandler(self, node):
        if node.name in self.sub:
            new = self.sub[node.name]
            if not isinstance(new, ast.Name):
                raise CannotInline('except name')
            node.name = new.id
        self.generic_visit(node)
        return node

    def visit_Lambda(self, node):
        a = node.args
        names = {x.arg for x in a.posonlyargs + a.args + a.kwonlyargs}
        shadowed = names & set(self.sub)
        if shadowed:
            # the lambda's own parameters hide the outer names inside its
            # body: substitute the rest only, unless a replacement expression
            # would be captured by one of the parameters
            rest = {k: v for k, v in self.sub.items() if k not in shadowed}
            for v in rest.values():
                if any(isinstance(x, ast.Name) and x.id in names
                       for x in ast.walk(v)):
                    raise CannotInline('lambda parameter captures')
            inner = type(self).__new__(type(self))
            inner.__dict__.update(self.__dict__)
            inner.sub = rest
            node.body = inner.visit(node.body)
            for d in list(a.defaults) + [d for d in a.kw_defaults if d]:
                self.visit(d)
            return node
        self.generic_visit(node)
        return node


class _FoldAlias(ast.NodeTransformer):
    """Replace attribute paths that are the value of a caller alias by the
    alias (`self.model._meta.db_table` -> `table_name`)."""

    def __init__(self, alias, alias_dump):
        self.alias, self.alias_dump = alias, alias_dump

    def visit_Attribute(self, node):
        if isinstance(node.ctx, ast.Load) and is_stable(node):
            key = _dump(_resolve(node, self.alias))
            if key in self.alias_dump:
                return ast.copy_location(
                    ast.Name(id=self.alias_dump[key], ctx=ast.Load()), node)
        self.generic_visit(node)
        return node


class _Swap(ast.NodeTransformer):
    def __init__(self, old, new):
        self.old, self.new = old, new
        self.done = False

    def visit(self, node):
        if node is self.old:
            self.done = True
            return self.new
        return super(_Swap, self).visit(node)


def _post_order_effects(e) -> List[ast.AST]:
    out = []

    def rec(n):
        for c in ast.iter_child_nodes(n):
            rec(c)
        if isinstance(n, EFFECT):
            out.append(n)
    rec(e)
    return out


def _resolve(e, alias: Dict[str, ast.AST], depth=6):
    """Expand single-assignment stable aliases in a stable path."""
    if depth <= 0:
        return e
    if isinstance(e, ast.Name) and e.id in alias:
        return _resolve(alias[e.id], alias, depth - 1)
    if isinstance(e, ast.Attribute):
        return ast.Attribute(value=_resolve(e.value, alias, depth),
                             attr=e.attr, ctx=ast.Load())
    return e


def _dump(e) -> str:
    return ast.dump(e, annotate_fields=False, include_attributes=False)


_FLIP = {ast.Eq: ast.NotEq, ast.NotEq: ast.Eq, ast.Is: ast.IsNot,
         ast.IsNot: ast.Is, ast.In: ast.NotIn, ast.NotIn: ast.In,
         ast.Lt: ast.GtE, ast.GtE: ast.Lt, ast.Gt: ast.LtE, ast.LtE: ast.Gt}


def negate(e):
    if isinstance(e, ast.UnaryOp) and isinstance(e.op, ast.Not):
        return e.operand
    if isinstance(e, ast.BoolOp):
        op = ast.Or() if isinstance(e.op, ast.And) else ast.And()
        return ast.BoolOp(op=op, values=[negate(v) for v in e.values])
    if isinstance(e, ast.Compare) and len(e.ops) == 1 and \
            type(e.ops[0]) in _FLIP and \
            not isinstance(e.ops[0], (ast.Lt, ast.GtE, ast.Gt, ast.LtE)):
        return ast.Compare(left=e.left, ops=[_FLIP[type(e.ops[0])]()],
                           comparators=e.comparators)
    return ast.UnaryOp(op=ast.Not(), operand=e)


def _simplify(stmts):
    """`if not c: pass else: B`  ->  `if c: B` (artefact of converting guard
    clauses), recursively."""
    out = []
    for st in stmts:
        for field in ('body', 'orelse', 'finalbody'):
            sub = getattr(st, field, None)
            if isinstance(sub, list) and sub and isinstance(sub[0], ast.stmt):
                setattr(st, field, _simplify(sub))
        for h in getattr(st, 'handlers', []) or []:
            h.body = _simplify(h.body)
        if isinstance(st, ast.If) and len(st.body) == 1 and \
                isinstance(st.body[0], ast.Pass):
            if st.orelse:
                st = ast.If(test=negate(st.test), body=st.orelse, orelse=[])
            elif is_stable(st.test):
                continue
        out.append(st)
    return out


class Inliner(object):
    def __init__(self, trees: Dict[str, ast.Module],
                 ref_trees: Dict[str, Optional[ast.Module]]):
        self.trees = trees
        self.records: List[Tuple[str, str, str]] = []
        self.skipped: List[Tuple[str, str]] = []
        self._fresh = 0
        ref_names: Set[str] = set()
        ref_quals: Dict[str, Set[str]] = {}
        for mod, t in ref_trees.items():
            if t is None:
                continue
            qs = set()
            for q, node, _b, _c in _walk_funcs(t):
                qs.add(q)
                ref_names.add(node.name)
            ref_quals[mod] = qs
        count: Dict[str, int] = {}
        allf = []
        for mod, t in trees.items():
            for q, node, body, in_class in _walk_funcs(t):
                count[node.name] = count.get(node.name, 0) + 1
                allf.append((mod, q, node, body, in_class))
        self.all_funcs = allf
        self.helpers: Dict[str, Helper] = {}
        for mod, q, node, body, in_class in allf:
            if mod not in ref_quals or q in ref_quals[mod]:
                continue
            if node.name in ref_names or count[node.name] != 1:
                continue
            h = Helper(mod, q, node, body, in_class)
            why = h.eligible()
            if why:
                self.skipped.append(('%s:%s' % (mod, q), why))
                continue
            self.helpers[node.name] = h

    # ------------------------------------------------------------------
    def fresh(self, base, avoid: Set[str]) -> str:
        while True:
            self._fresh += 1
            n = '%s__i%d' % (base, self._fresh)
            if n not in avoid:
                avoid.add(n)
                return n

    def callee(self, call) -> Optional[Helper]:
        f = call.func
        name = f.attr if isinstance(f, ast.Attribute) else \
            f.id if isinstance(f, ast.Name) else None
        return self.helpers.get(name) if name else None

    def _calls_helper(self, node, exclude=None) -> bool:
        for n in ast.walk(node):
            if isinstance(n, ast.Call):
                h = self.callee(n)
                if h is not None and h is not exclude:
                    return True
        return False

    # ------------------------------------------------------------------
    def run(self):
        if not self.helpers:
            return
        for _round in range(3):
            progress = False
            # leaves first: helpers that do not call other candidate helpers
            ready = [h for h in self.helpers.values()
                     if not self._calls_helper(h.node, exclude=h)]
            ready_names = {h.name for h in ready}
            for mod, q, node, body, in_class in self.all_funcs:
                if node.name in ready_names and node.name in self.helpers:
                    continue
                if self.process_function(mod, q, node, ready_names):
                    progress = True
            if not progress:
                break
        self.remove_unreferenced()

    def remove_unreferenced(self):
        for h in list(self.helpers.values()):
            if not h.inlined_sites:
                continue
            refs = 0
            for t in self.trees.values():
                for n in ast.walk(t):
                    if n is h.node:
                        continue
                    if isinstance(n, ast.Attribute) and n.attr == h.name:
                        refs += 1
                    elif isinstance(n, ast.Name) and n.id == h.name:
                        refs += 1
                    elif isinstance(n, ast.alias) and n.name == h.name:
                        refs += 1
            own = sum(1 for n in ast.walk(h.node)
                      if (isinstance(n, ast.Attribute) and n.attr == h.name)
                      or (isinstance(n, ast.Name) and n.id == h.name))
            if refs - own == 0 and h.node in h.parent_body:
                h.parent_body.remove(h.node)
                if not h.parent_body:
                    h.parent_body.append(ast.Pass())

    # ------------------------------------------------------------------
    def process_function(self, mod, qual, fn, ready: Set[str]) -> bool:
        self.cur = (mod, qual)
        self.caller = fn
        self.caller_names = _all_names(fn)
        self.ready = ready
        self.changed = False
        self.failed: Set[int] = set()
        self.try_depth = 0
        fn.body = self.block(fn.body, top=True)
        if self.changed:
            ast.fix_missing_locations(fn)
            try:
                coalesce(fn)
            except RecursionError:      # pragma: no cover
                pass
        return self.changed

    def block(self, stmts, top=False) -> List[ast.stmt]:
        out: List[ast.stmt] = []
        for st in stmts:
            if top:
                self.top_prefix = list(out)
            for field in ('body', 'orelse', 'finalbody'):
                sub = getattr(st, field, None)
                if isinstance(sub, list) and sub and \
                        isinstance(sub[0], ast.stmt) and \
                        not isinstance(st, (ast.FunctionDef, ast.ClassDef,
                                            ast.AsyncFunctionDef)):
                    saved = getattr(self, 'top_prefix', [])
                    guarded = isinstance(st, ast.Try) and field == 'body'
                    self.try_depth += 1 if guarded else 0
                    setattr(st, field, self.block(sub))
                    self.try_depth -= 1 if guarded else 0
                    self.top_prefix = saved
            for h in getattr(st, 'handlers', []) or []:
                h.body = self.block(h.body)
            out += self.statement(st)
        return out

    def headers(self, st):
        if isinstance(st, (ast.Expr, ast.Assign, ast.AugAssign, ast.Return,
                           ast.AnnAssign)):
            return [st.value] if st.value is not None else []
        if isinstance(st, ast.If):
            return [st.test]
        if isinstance(st, ast.For):
            return [st.iter]
        if isinstance(st, ast.With):
            return [i.context_expr for i in st.items[:1]]
        return []

    def candidates(self, e):
        res = []

        def rec(n, ok):
            if isinstance(n, (ast.Lambda,) + COMPS):
                ok = False
            if isinstance(n, ast.IfExp):
                rec(n.test, ok)
                rec(n.body, False)
                rec(n.orelse, False)
                return
            if isinstance(n, ast.BoolOp):
                rec(n.values[0], ok)
                for v in n.values[1:]:
                    rec(v, False)
                return
            if isinstance(n, ast.Compare) and len(n.comparators) > 1:
                rec(n.left, ok)
                rec(n.comparators[0], ok)
                for v in n.comparators[1:]:
                    rec(v, False)
                return
            if isinstance(n, ast.Call):
                h = self.callee(n)
                if h is not None and h.name in self.ready and \
                        id(n) not in self.failed:
                    res.append((n, ok))
            for c in ast.iter_child_nodes(n):
                rec(c, ok)
        rec(e, True)
        return res

    def statement(self, st) -> List[ast.stmt]:
        pre: List[ast.stmt] = []
        # contextmanager helper used by a with statement
        if isinstance(st, ast.With) and len(st.items) == 1 and \
                isinstance(st.items[0].context_expr, ast.Call):
            call = st.items[0].context_expr
            h = self.callee(call)
            if h is not None and h.is_ctx and h.name in self.ready and \
                    id(call) not in self.failed:
                try:
                    new = self.expand_ctx(h, call, st)
                    h.inlined_sites += 1
                    self.changed = True
                    self.records.append((self.cur[0], self.cur[1], h.name))
                    return new
                except CannotInline as e:
                    self.failed.add(id(call))
                    self.skipped.append(('%s:%s -> %s' % (
                        self.cur[0], self.cur[1], h.name), str(e)))
        # all-or-nothing per statement and helper: inlining one of two calls
        # to the same helper (`h(a) and h(b)`) would destroy the symmetry
        # the source has
        for e in self.headers(st):
            cands = self.candidates(e)
            blocked = {self.callee(c).name for c, ok in cands if not ok}
            for c, ok in cands:
                if self.callee(c).name in blocked:
                    self.failed.add(id(c))
        guard = 0
        while guard < 20:
            guard += 1
            found = None
            for e in self.headers(st):
                for call, ok in self.candidates(e):
                    h = self.callee(call)
                    if h.is_ctx:
                        continue
                    if not ok:
                        self.failed.add(id(call))
                        continue
                    effects = _post_order_effects(e)
                    inside = {id(x) for x in ast.walk(call)}
                    bad = False
                    for x in effects:
                        if x is call:
                            break
                        if id(x) not in inside:
                            bad = True
                            break
                    if bad:
                        self.failed.add(id(call))
                        self.skipped.append(('%s:%s -> %s' % (
                            self.cur[0], self.cur[1], h.name),
                            'effects evaluated before the call'))
                        continue
                    found = (e, call, h)
                    break
                if found:
                    break
            if not found:
                break
            e, call, h = found
            try:
                stmts, replacement = self.expand(h, call, st)
            except CannotInline as ex:
                self.failed.add(id(call))
                self.skipped.append(('%s:%s -> %s' % (
                    self.cur[0], self.cur[1], h.name), str(ex)))
                continue
            h.inlined_sites += 1
            self.changed = True
            self.records.append((self.cur[0], self.cur[1], h.name))
            pre += stmts
            if replacement is None:
                # the statement itself was consumed (Expr / direct forms)
                return pre
            sw = _Swap(call, replacement)
            sw.visit(st)
            if not sw.done:
                raise CannotInline('internal: call not found')
        return pre + [st]

    # ------------------------------------------------------------------
    def bind(self, h: Helper, call) -> List[Tuple[str, ast.AST]]:
        a = h.node.args
        pos = [x.arg for x in a.posonlyargs + a.args]
        defaults: Dict[str, ast.AST] = {}
        for name, d in zip(reversed(pos), reversed(a.defaults)):
            defaults[name] = d
        kwonly = [x.arg for x in a.kwonlyargs]
        for name, d in zip(kwonly, a.kw_defaults):
            if d is not None:
                defaults[name] = d
        for d in defaults.values():
            if not is_stable(d) and not isinstance(d, (ast.Tuple, ast.List,
                                                      ast.Dict)):
                raise CannotInline('non-trivial default')
        if any(isinstance(x, ast.Starred) for x in call.args) or \
                any(k.arg is None for k in call.keywords):
            raise CannotInline('star arguments at the call site')
        bound: List[Tuple[str, ast.AST]] = []
        if h.kind in ('method', 'classmethod'):
            if not isinstance(call.func, ast.Attribute) or not pos:
                raise CannotInline('method not called through an object')
            bound.append((pos[0], call.func.value))
            pos = pos[1:]
        if len(call.args) > len(pos):
            raise CannotInline('too many positional arguments')
        seen = set()
        for name, arg in zip(pos, call.args):
            bound.append((name, arg))
            seen.add(name)
        extra_keys, extra_vals = [], []
        for k in call.keywords:
            if a.kwarg is not None and k.arg not in seen and \
                    k.arg not in pos + kwonly:
                extra_keys.append(ast.Constant(value=k.arg))
                extra_vals.append(k.value)
                continue
            if k.arg in seen or k.arg not in pos + kwonly:
                raise CannotInline('keyword %s' % k.arg)
            if k.arg in [x.arg for x in a.posonlyargs]:
                raise CannotInline('positional-only by keyword')
            bound.append((k.arg, k.value))
            seen.add(k.arg)
        for name in pos + kwonly:
            if name not in seen:
                if name not in defaults:
                    raise CannotInline('missing argument %s' % name)
                bound.append((name, copy.deepcopy(defaults[name])))
        if a.kwarg is not None:
            # **kw collects the remaining keywords of this call, in order
            bound.append((a.kwarg.arg,
                          ast.Dict(keys=extra_keys, values=extra_vals)))
        return bound

    def caller_aliases(self) -> Dict[str, ast.AST]:
        """Single-assignment stable aliases at the top level of the caller
        that precede the top-level statement being rewritten."""
        counts = _store_count(self.caller)
        a = self.caller.args
        params = {x.arg for x in a.posonlyargs + a.args + a.kwonlyargs}
        out: Dict[str, ast.AST] = {}
        for st in getattr(self, 'top_prefix', []):
            if isinstance(st, ast.Assign) and len(st.targets) == 1 and \
                    isinstance(st.targets[0], ast.Name) and \
                    is_stable(st.value) and \
                    not isinstance(st.value, ast.Constant):
                n = st.targets[0].id
                if counts.get(n, 0) == 1 and n not in params:
                    out[n] = st.value
        return out

    def prepare(self, h: Helper, call, same_target=None):
        """Common part of expand / expand_ctx: parameter binding, renaming.
        Returns (pre, body, sub, arg_names, helper_locals, same_var)."""
        bound = self.bind(h, call)
        stored = _stored_names(h.node)
        counts = _store_count(h.node)
        body = copy.deepcopy(h.body())
        arg_names: Set[str] = set()
        for _p, e in bound:
            arg_names |= {n.id for n in ast.walk(e) if isinstance(n, ast.Name)}
        sub: Dict[str, ast.AST] = {}
        pre: List[ast.stmt] = []
        avoid = self.caller_names
        # x = helper(x): the helper's parameter *is* the caller's variable
        same_var = None
        if same_target:
            cands = [p for p, e in bound
                     if isinstance(e, ast.Name) and e.id == same_target]
            others = set()
            for p, e in bound:
                if not (cands and p == cands[0]):
                    others |= {n.id for n in ast.walk(e)
                               if isinstance(n, ast.Name)}
            rets = [n for x in body for n in ast.walk(x)
                    if isinstance(n, ast.Return)]
            if len(cands) == 1 and cands[0] in stored and rets and \
                    always_exits(body) and same_target not in others and \
                    (self.try_depth == 0 or
                     all(isinstance(r.value, ast.Name) and
                         r.value.id == cands[0] for r in rets)):
                same_var = cands[0]
                sub[same_var] = ast.Name(id=same_target, ctx=ast.Load())
        for p, e in bound:
            if p == same_var:
                continue
            if p not in stored and is_stable(e):
                sub[p] = e
            elif p not in stored and is_pure_display(e) and \
                    _single_use_outside_loops(body, p):
                sub[p] = e
            else:
                tgt = p if p not in avoid and p not in arg_names else \
                    self.fresh(p, avoid)
                avoid.add(tgt)
                pre.append(ast.Assign(
                    targets=[ast.Name(id=tgt, ctx=ast.Store())], value=e))
                sub[p] = ast.Name(id=tgt, ctx=ast.Load())
        params = {p for p, _e in bound}
        # re-derived aliases
        alias = self.caller_aliases()
        alias_dump = {}
        for n, v in alias.items():
            alias_dump.setdefault(_dump(_resolve(v, alias)), n)
        new_body: List[ast.stmt] = []
        unified: Set[str] = set()
        for st in body:
            if isinstance(st, ast.Assign) and len(st.targets) == 1 and \
                    isinstance(st.targets[0], ast.Name) and \
                    is_stable(st.value) and \
                    not isinstance(st.value, ast.Constant) and \
                    counts.get(st.targets[0].id, 0) == 1 and \
                    st.targets[0].id not in params:
                name = st.targets[0].id
                try:
                    v = _Subst(sub).visit(copy.deepcopy(st.value))
                except CannotInline:
                    v = None
                if v is not None:
                    key = _dump(_resolve(v, alias))
                    if key in alias_dump:
                        sub[name] = ast.Name(id=alias_dump[key],
                                             ctx=ast.Load())
                        unified.add(name)
                        continue
            new_body.append(st)
        body = new_body
        self._fold = (alias, alias_dump)
        # remaining locals
        for name in sorted(stored - params - unified):
            if name in avoid or name in arg_names:
                sub[name] = ast.Name(id=self.fresh(name, avoid),
                                     ctx=ast.Load())
            else:
                avoid.add(name)
        return pre, body, sub, arg_names, stored - params - unified, same_var

    def site_kind(self, st, call):
        if isinstance(st, ast.Expr) and st.value is call:
            return 'expr', None
        if isinstance(st, ast.Return) and st.value is call:
            return 'return', None
        if isinstance(st, ast.Assign) and st.value is call and \
                len(st.targets) == 1:
            t = st.targets[0]
            if isinstance(t, ast.Name):
                return 'assign_name', t.id
            if isinstance(t, (ast.Tuple, ast.List)) and all(
                    isinstance(x, ast.Name) for x in t.elts) and \
                    len({x.id for x in t.elts}) == len(t.elts):
                return 'assign_tuple', [x.id for x in t.elts]
        return 'value', None

    def expand(self, h: Helper, call, st):
        kind, target = self.site_kind(st, call)
        if isinstance(st, ast.AugAssign) and not isinstance(st.target,
                                                            ast.Name):
            raise CannotInline('augmented assignment to a non-local')
        pre, body, sub, arg_names, h_locals, same_var = self.prepare(
            h, call, same_target=target if kind == 'assign_name' else None)
        avoid = self.caller_names
        returns = [n for x in body for n in ast.walk(x)
                   if isinstance(n, ast.Return)]
        all_exit = always_exits(body)
        emitted = []
        result_name = None

        def plain(v):
            return v if v is not None else ast.Constant(value=None)

        if kind == 'return':
            body = [_Subst(sub).visit(x) for x in body]
            if not all_exit:
                body.append(ast.Return(value=ast.Constant(value=None)))
            return pre + body, None

        def same_name_lists(rs):
            first = rs[0].value
            if not isinstance(first, ast.Tuple) or not all(
                    isinstance(x, ast.Name) for x in first.elts):
                return None
            ids = [x.id for x in first.elts]
            for r in rs:
                if not isinstance(r.value, ast.Tuple) or \
                        [getattr(x, 'id', None) for x in r.value.elts] != ids:
                    return None
            return ids

        mode = 'value'
        if kind == 'expr':
            mode = 'expr'
        elif kind == 'assign_name' and same_var is not None:
            mode = 'same'
        elif kind == 'assign_name' and returns and all_exit and \
                all(isinstance(r.value, ast.Name) and
                    r.value.id == returns[0].value.id for r in returns) and \
                returns[0].value.id in h_locals and \
                target not in arg_names and \
                target not in (h_locals - {returns[0].value.id}):
            sub[returns[0].value.id] = ast.Name(id=target, ctx=ast.Load())
            mode = 'renamed'
        elif kind == 'assign_tuple' and returns and all_exit and \
                same_name_lists(returns) is not None and \
                len(same_name_lists(returns)) == len(target) and \
                len(set(same_name_lists(returns))) == len(target) and \
                all(x in h_locals for x in same_name_lists(returns)) and \
                not (set(target) & arg_names) and \
                not (set(target) & (h_locals - set(same_name_lists(returns)))):
            for x, t in zip(same_name_lists(returns), target):
                sub[x] = ast.Name(id=t, ctx=ast.Load())
            mode = 'renamed'
        elif kind in ('assign_name', 'assign_tuple'):
            mode = 'direct'
        else:
            result_name = self.fresh('_ret', avoid)

        body = [_Subst(sub).visit(x) for x in body]
        if self._fold[1]:
            body = [_FoldAlias(*self._fold).visit(x) for x in body]

        def mk(v):
            if mode == 'expr':
                if v is None or is_stable(v):
                    return []
                return [ast.Expr(value=v)]
            if mode == 'renamed':
                return []
            if mode == 'same':
                if isinstance(v, ast.Name) and v.id == target:
                    return []
                a = ast.Assign(targets=[ast.Name(id=target, ctx=ast.Store())],
                               value=plain(v))
                return [a]
            if mode == 'direct':
                a = ast.Assign(targets=[copy.deepcopy(st.targets[0])],
                               value=plain(v))
                emitted.append(a)
                return [a]
            a = ast.Assign(targets=[ast.Name(id=result_name, ctx=ast.Store())],
                           value=plain(v))
            emitted.append(a)
            return [a]

        new_body = _simplify(self.conv(body, mk))
        if mode in ('direct', 'value') and not all_exit:
            new_body = mk(None)[:1] + new_body
            emitted.pop()            # the default is not a "return" emission
        if mode != 'value':
            return pre + new_body, None
        # generic value: substitute the tail expression back when possible
        if len(emitted) == 1 and new_body and new_body[-1] is emitted[0] \
                and all_exit:
            return pre + new_body[:-1], emitted[0].value
        return pre + new_body, ast.Name(id=result_name, ctx=ast.Load())

    def conv(self, stmts, mk) -> List[ast.stmt]:
        out: List[ast.stmt] = []
        for i, st in enumerate(stmts):
            if isinstance(st, ast.Return):
                out += mk(st.value)
                return out
            if not _has_return(st):
                out.append(st)
                continue
            rest = stmts[i + 1:]
            if isinstance(st, ast.If):
                b_exit, o_exit = always_exits(st.body), always_exits(st.orelse)
                if b_exit and o_exit:
                    nb, no = self.conv(st.body, mk), self.conv(st.orelse, mk)
                elif b_exit:
                    nb = self.conv(st.body, mk)
                    no = self.conv(st.orelse + rest, mk)
                elif o_exit:
                    nb = self.conv(st.body + rest, mk)
                    no = self.conv(st.orelse, mk)
                else:
                    if len(rest) > 2:
                        raise CannotInline('conditional return with a long '
                                           'continuation')
                    nb = self.conv(st.body + rest, mk)
                    no = self.conv(st.orelse + copy.deepcopy(rest), mk)
                out.append(ast.If(test=st.test, body=nb or [ast.Pass()],
                                  orelse=no))
                return out
            if isinstance(st, ast.With):
                if rest and not always_exits(st.body):
                    raise CannotInline('return inside with, code after it')
                out.append(ast.With(items=st.items,
                                    body=self.conv(st.body, mk) or
                                    [ast.Pass()]))
                return out
            if isinstance(st, ast.Try):
                if st.orelse or _has_return(st.finalbody) or \
                        (rest and not always_exits([st])):
                    raise CannotInline('return inside try')
                handlers = []
                for h in st.handlers:
                    handlers.append(ast.ExceptHandler(
                        type=h.type, name=h.name,
                        body=self.conv(h.body, mk) or [ast.Pass()]))
                out.append(ast.Try(body=self.conv(st.body, mk) or [ast.Pass()],
                                   handlers=handlers, orelse=[],
                                   finalbody=st.finalbody))
                return out
            raise CannotInline('return inside %s' % type(st).__name__)
        return out

    def expand_ctx(self, h: Helper, call, with_st) -> List[ast.stmt]:
        pre, body, sub, arg_names, h_locals, _sv = self.prepare(h, call)
        body = [_Subst(sub).visit(x) for x in body]
        as_var = with_st.items[0].optional_vars
        placed = []

        def place(stmts, in_loop) -> List[ast.stmt]:
            out = []
            for st in stmts:
                if isinstance(st, ast.Expr) and isinstance(st.value,
                                                           ast.Yield):
                    if in_loop:
                        raise CannotInline('yield inside a loop')
                    if as_var is not None:
                        out.append(ast.Assign(
                            targets=[as_var],
                            value=st.value.value or ast.Constant(value=None)))
                    out += with_st.body
                    placed.append(1)
                    continue
                if any(isinstance(n, ast.Yield) for n in ast.walk(st)):
                    if isinstance(st, (ast.For, ast.While)):
                        raise CannotInline('yield inside a loop')
                    if isinstance(st, (ast.Try, ast.With, ast.If)):
                        for field in ('body', 'orelse', 'finalbody'):
                            sub_ = getattr(st, field, None)
                            if isinstance(sub_, list) and sub_:
                                setattr(st, field, place(sub_, in_loop))
                        for hd in getattr(st, 'handlers', []) or []:
                            hd.body = place(hd.body, in_loop)
                        out.append(st)
                        continue
                    raise CannotInline('yield is not a statement')
                out.append(st)
            return out
        new = place(body, False)
        if len(placed) != 1:
            raise CannotInline('yield not placed exactly once')
        return pre + new


class _RenameOne(ast.NodeTransformer):
    def __init__(self, old, new):
        self.old, self.new = old, new

    def visit_Name(self, node):
        if node.id == self.old:
            node.id = self.new
        return node

    def visit_ExceptHandler(self, node):
        if node.name == self.old:
            node.name = self.new
        self.generic_visit(node)
        return node


def _comp_bound(fn) -> Set[int]:
    """ids of Name nodes that refer to a comprehension variable."""
    out: Set[int] = set()
    for c in ast.walk(fn):
        if not isinstance(c, COMPS):
            continue
        targets = set()
        for g in c.generators:
            for x in ast.walk(g.target):
                if isinstance(x, ast.Name):
                    targets.add(x.id)
        first_iter = {id(x) for x in ast.walk(c.generators[0].iter)}
        for x in ast.walk(c):
            if isinstance(x, ast.Name) and x.id in targets and \
                    id(x) not in first_iter:
                out.add(id(x))
    return out


def _use_def_map(fn, names: Set[str]):
    """[(node id, frozenset of defining node ids)] for every use of one of
    *names* in the CFG nodes of fn (strong definitions only)."""
    from .cfg import CFG
    from .flow import ReachingDefs
    g = CFG(fn)
    a = fn.args
    params = [x.arg for x in a.posonlyargs + a.args + a.kwonlyargs]
    if a.vararg:
        params.append(a.vararg.arg)
    if a.kwarg:
        params.append(a.kwarg.arg)
    rd = ReachingDefs(g, params)
    bound = _comp_bound(fn)
    out = []
    for n in g.nodes:
        used = set()
        for x in n.walk():
            if isinstance(x, ast.Name) and isinstance(x.ctx, ast.Load) and \
                    x.id in names and id(x) not in bound:
                used.add(x.id)
        for v in sorted(used):
            ds = frozenset(d.node.id for d in rd.reaching(n, v)
                           if d.kind != 'mutate')
            out.append((n.id, ds))
    return len(g.nodes), out


def coalesce(fn):
    """Rename the fresh names introduced by inlining (x__iN) back to x when
    the two variables do not interfere: every use sees exactly the same
    definitions before and after merging (reaching definitions on the CFG)."""
    import re
    fresh = sorted({n.id for n in ast.walk(fn) if isinstance(n, ast.Name) and
                    re.match(r'^.+__i\d+$', n.id)} |
                   {n.name for n in ast.walk(fn)
                    if isinstance(n, ast.ExceptHandler) and n.name and
                    re.match(r'^.+__i\d+$', n.name)})
    deleted = {n.id for n in ast.walk(fn)
               if isinstance(n, ast.Name) and isinstance(n.ctx, ast.Del)}

    def captured(f, base):
        for c in ast.walk(fn):
            if not isinstance(c, COMPS):
                continue
            targets, loads = set(), set()
            for g in c.generators:
                for x in ast.walk(g.target):
                    if isinstance(x, ast.Name):
                        targets.add(x.id)
            for x in ast.walk(c):
                if isinstance(x, ast.Name):
                    loads.add(x.id)
            if (base in targets and f in loads and f not in targets) or \
                    (f in targets and base in loads and base not in targets):
                return True
        return False
    done = []
    for f in fresh:
        base = re.sub(r'__i\d+$', '', f)
        if base.startswith('_ret') or f in deleted or base in deleted or \
                captured(f, base):
            continue
        a = fn.args
        try:
            n1, before = _use_def_map(fn, {f, base})
            trial = copy.deepcopy(fn)
            _RenameOne(f, base).visit(trial)
            n2, after = _use_def_map(trial, {base})
        except Exception:
            continue
        if n1 != n2:
            continue
        # uses are listed per node in sorted name order; merge per node
        def per_node(lst):
            d = {}
            for nid, ds in lst:
                d.setdefault(nid, []).append(ds)
            return d
        b, c = per_node(before), per_node(after)
        ok = set(b) == set(c)
        if ok:
            for nid in b:
                # after merging there is one entry; before there may be two
                # (one per name) which must then agree with it
                if any(x != c[nid][0] for x in b[nid]):
                    ok = False
                    break
        if ok:
            _RenameOne(f, base).visit(fn)
            done.append((f, base))
    return done


def _level_assigns(tree):
    """(name, value, body) of class-level and module-level single-name
    assignments."""
    out = []

    def rec(body):
        for st in body:
            if isinstance(st, ast.Assign) and len(st.targets) == 1 and \
                    isinstance(st.targets[0], ast.Name):
                out.append((st.targets[0].id, st.value, body))
            elif isinstance(st, ast.ClassDef):
                rec(st.body)
            elif isinstance(st, (ast.If, ast.Try)):
                rec(st.body)
                rec(getattr(st, 'orelse', []))
    rec(tree.body)
    return out


def undo_dict_dispatch(trees, ref_trees) -> List[Tuple[str, str, str]]:
    """Rewrite

        h = self.TABLE.get(k)            (TABLE = {'a': 'meth_a', ...}, new
        if h is None: raise ...           relative to the reference)
        <stmt using getattr(self, h)(args)>

    back into the if/elif chain over k that it encodes, so that the rules
    (and the helper inliner) see one call site per handler."""
    ref_names: Set[str] = set()
    for t in ref_trees.values():
        if t is not None:
            ref_names |= {n for n, _v, _b in _level_assigns(t)}
    tables: Dict[str, ast.Dict] = {}
    seen: Dict[str, int] = {}
    for t in trees.values():
        for name, value, _b in _level_assigns(t):
            seen[name] = seen.get(name, 0) + 1
            if name in ref_names or not isinstance(value, ast.Dict) or \
                    not value.keys:
                continue
            if not all(isinstance(k, ast.Constant) for k in value.keys):
                continue
            if all(isinstance(v, ast.Constant) and isinstance(v.value, str)
                   for v in value.values) or \
                    all(isinstance(v, ast.Name) for v in value.values):
                tables[name] = value
    tables = {n: v for n, v in tables.items() if seen[n] == 1}
    records = []
    if not tables:
        return records

    def table_of(x):
        if isinstance(x, ast.Name):
            return tables.get(x.id)
        if isinstance(x, ast.Attribute):
            return tables.get(x.attr)
        return None

    def lookup(st):
        """(h, table, key_expr, form) for `h = TABLE.get(k)` / TABLE[k]."""
        if not (isinstance(st, ast.Assign) and len(st.targets) == 1 and
                isinstance(st.targets[0], ast.Name)):
            return None
        v = st.value
        if isinstance(v, ast.Call) and isinstance(v.func, ast.Attribute) and \
                v.func.attr == 'get' and len(v.args) == 1 and \
                not v.keywords and table_of(v.func.value) is not None and \
                is_stable(v.args[0]):
            return st.targets[0].id, table_of(v.func.value), v.args[0], 'get'
        if isinstance(v, ast.Subscript) and table_of(v.value) is not None \
                and is_stable(v.slice):
            return st.targets[0].id, table_of(v.value), v.slice, 'index'
        return None

    def is_none_guard(st, h):
        if not (isinstance(st, ast.If) and not st.orelse and
                always_exits(st.body)):
            return False
        t = st.test
        if isinstance(t, ast.UnaryOp) and isinstance(t.op, ast.Not) and \
                isinstance(t.operand, ast.Name) and t.operand.id == h:
            return True
        return isinstance(t, ast.Compare) and len(t.ops) == 1 and \
            isinstance(t.ops[0], ast.Is) and \
            isinstance(t.left, ast.Name) and t.left.id == h and \
            isinstance(t.comparators[0], ast.Constant) and \
            t.comparators[0].value is None

    def is_some_guard(st, h):
        if not isinstance(st, ast.If):
            return False
        t = st.test
        if isinstance(t, ast.Name) and t.id == h:
            return True
        return isinstance(t, ast.Compare) and len(t.ops) == 1 and \
            isinstance(t.ops[0], ast.IsNot) and \
            isinstance(t.left, ast.Name) and t.left.id == h and \
            isinstance(t.comparators[0], ast.Constant) and \
            t.comparators[0].value is None

    def dispatch_calls(st, h, by_name):
        out = []
        for n in ast.walk(st):
            if not isinstance(n, ast.Call):
                continue
            f = n.func
            if by_name and isinstance(f, ast.Call) and \
                    isinstance(f.func, ast.Name) and f.func.id == 'getattr' \
                    and len(f.args) == 2 and isinstance(f.args[1], ast.Name) \
                    and f.args[1].id == h:
                out.append(n)
            elif not by_name and isinstance(f, ast.Name) and f.id == h:
                out.append(n)
        return out

    def rewrite(fn, stmts):
        out = []
        i = 0
        while i < len(stmts):
            st = stmts[i]
            for field in ('body', 'orelse', 'finalbody'):
                sub = getattr(st, field, None)
                if isinstance(sub, list) and sub and \
                        isinstance(sub[0], ast.stmt) and not isinstance(
                            st, (ast.FunctionDef, ast.ClassDef)):
                    setattr(st, field, rewrite(fn, sub))
            for hd in getattr(st, 'handlers', []) or []:
                hd.body = rewrite(fn, hd.body)
            lk = lookup(st)
            if lk is not None:
                h, table, key, form = lk
                j = i + 1
                guard = None
                # form C: `if h is None: <other> else: <use>` is form B with
                # the branches the other way round
                if form == 'get' and j < len(stmts) and \
                        isinstance(stmts[j], ast.If) and stmts[j].orelse:
                    t = stmts[j].test
                    none_test = (
                        isinstance(t, ast.UnaryOp) and
                        isinstance(t.op, ast.Not) and
                        isinstance(t.operand, ast.Name) and
                        t.operand.id == h) or (
                        isinstance(t, ast.Compare) and len(t.ops) == 1 and
                        isinstance(t.ops[0], ast.Is) and
                        isinstance(t.left, ast.Name) and t.left.id == h and
                        isinstance(t.comparators[0], ast.Constant) and
                        t.comparators[0].value is None)
                    if none_test:
                        stmts[j].test = ast.Compare(
                            left=ast.Name(id=h, ctx=ast.Load()),
                            ops=[ast.IsNot()],
                            comparators=[ast.Constant(value=None)])
                        stmts[j].body, stmts[j].orelse = \
                            stmts[j].orelse, stmts[j].body
                        ast.fix_missing_locations(stmts[j])
                # form B: `if h is not None: <use>` / `if h: <use>`
                if form == 'get' and j < len(stmts) and \
                        is_some_guard(stmts[j], h):
                    wrapper = stmts[j]
                    by_name_b = isinstance(table.values[0], ast.Constant)
                    calls_b = [c for b in wrapper.body
                               for c in dispatch_calls(b, h, by_name_b)]
                    loads_b = sum(1 for n in ast.walk(fn)
                                  if isinstance(n, ast.Name) and n.id == h
                                  and isinstance(n.ctx, ast.Load))
                    if len(calls_b) == 1 and loads_b == 2:
                        chain = list(wrapper.orelse)
                        for k, v in reversed(list(zip(table.keys,
                                                      table.values))):
                            body = copy.deepcopy(wrapper.body)
                            c = [c for b in body for c in
                                 dispatch_calls(b, h, by_name_b)][0]
                            if by_name_b:
                                c.func = ast.Attribute(
                                    value=c.func.args[0], attr=v.value,
                                    ctx=ast.Load())
                            else:
                                c.func = ast.Name(id=v.id, ctx=ast.Load())
                            chain = [ast.If(
                                test=ast.Compare(
                                    left=copy.deepcopy(key), ops=[ast.Eq()],
                                    comparators=[copy.deepcopy(k)]),
                                body=body, orelse=chain)]
                        out.append(ast.copy_location(chain[0], st))
                        records.append(h)
                        i = j + 1
                        continue
                if form == 'get' and j < len(stmts) and \
                        is_none_guard(stmts[j], h):
                    guard = stmts[j]
                    j += 1
                by_name = isinstance(table.values[0], ast.Constant)
                loads = sum(1 for n in ast.walk(fn) if isinstance(n, ast.Name)
                            and n.id == h and isinstance(n.ctx, ast.Load))
                stores = sum(1 for n in ast.walk(fn) if isinstance(n, ast.Name)
                             and n.id == h and isinstance(n.ctx, ast.Store))
                if j < len(stmts) and (guard is not None or form == 'index') \
                        and stores == 1 and \
                        loads == (2 if guard is not None else 1) and \
                        not isinstance(stmts[j], (ast.For, ast.While,
                                                  ast.FunctionDef)):
                    use = stmts[j]
                    calls = dispatch_calls(use, h, by_name)
                    if len(calls) == 1:
                        chain = None
                        last = guard.body if guard is not None else [
                            ast.Raise(exc=ast.Call(
                                func=ast.Name(id='KeyError', ctx=ast.Load()),
                                args=[copy.deepcopy(key)], keywords=[]),
                                cause=None)]
                        for k, v in reversed(list(zip(table.keys,
                                                      table.values))):
                            u = copy.deepcopy(use)
                            c = dispatch_calls(u, h, by_name)[0]
                            if by_name:
                                c.func = ast.Attribute(
                                    value=c.func.args[0], attr=v.value,
                                    ctx=ast.Load())
                            else:
                                c.func = ast.Name(id=v.id, ctx=ast.Load())
                            node = ast.If(
                                test=ast.Compare(
                                    left=copy.deepcopy(key), ops=[ast.Eq()],
                                    comparators=[copy.deepcopy(k)]),
                                body=[u],
                                orelse=[chain] if chain is not None else last)
                            chain = node
                        out.append(ast.copy_location(chain, st))
                        records.append(h)
                        i = j + 1
                        continue
            out.append(st)
            i += 1
        return out

    for mod, t in trees.items():
        for q, node, _b, _c in _walk_funcs(t):
            before = len(records)
            node.body = rewrite(node, node.body)
            if len(records) > before:
                ast.fix_missing_locations(node)
                records[before:] = [(mod, q, 'dict-dispatch via %s' % r)
                                    for r in records[before:]]
    return records


def _all_nodes_post_order(e) -> List[ast.AST]:
    out = []

    def rec(n):
        for c in ast.iter_child_nodes(n):
            rec(c)
        out.append(n)
    rec(e)
    return out


def fold_dict_updates(fn) -> int:
    """`d = {A}` immediately followed by `d.update({B})` (both displays with
    constant keys) is `d = {A, B}`; later keys replace earlier ones.  This is
    what a **kwargs helper looks like after inlining."""
    done = 0

    def const_keys(d):
        return isinstance(d, ast.Dict) and all(
            isinstance(k, ast.Constant) for k in d.keys)

    def block(stmts):
        nonlocal done
        out = []
        for st in stmts:
            for field in ('body', 'orelse', 'finalbody'):
                sub = getattr(st, field, None)
                if isinstance(sub, list) and sub and \
                        isinstance(sub[0], ast.stmt) and not isinstance(
                            st, (ast.FunctionDef, ast.ClassDef,
                                 ast.AsyncFunctionDef)):
                    setattr(st, field, block(sub))
            for h in getattr(st, 'handlers', []) or []:
                h.body = block(h.body)
            prev = out[-1] if out else None
            if isinstance(st, ast.Expr) and isinstance(st.value, ast.Call) and \
                    isinstance(st.value.func, ast.Attribute) and \
                    st.value.func.attr == 'update' and \
                    isinstance(st.value.func.value, ast.Name) and \
                    len(st.value.args) == 1 and not st.value.keywords and \
                    const_keys(st.value.args[0]) and \
                    isinstance(prev, ast.Assign) and \
                    len(prev.targets) == 1 and \
                    isinstance(prev.targets[0], ast.Name) and \
                    prev.targets[0].id == st.value.func.value.id and \
                    const_keys(prev.value):
                base, add = prev.value, st.value.args[0]
                for k, v in zip(add.keys, add.values):
                    hit = [i for i, bk in enumerate(base.keys)
                           if bk.value == k.value]
                    if hit:
                        base.values[hit[0]] = v
                    else:
                        base.keys.append(k)
                        base.values.append(v)
                done += 1
                continue
            out.append(st)
        return out
    fn.body = block(fn.body)
    return done


def unfold_mapping_comprehensions(fn, ref_fn) -> List[str]:
    """Undo "loop -> comprehension" for an ordered mapping: where the
    reference creates `X = OrderedDict()` (or dict() / {}) and fills it in a
    loop, and the current function has `X = OrderedDict((k, v) for t in it
    if c)` (or a dict comprehension), rewrite it as the loop

        X = OrderedDict()
        for t in it:
            if c:
                X[k] = v

    Evaluation order is the same (k before v per element, elements in
    iteration order)."""
    ref_empty = set()
    for n in ast.walk(ref_fn):
        if isinstance(n, ast.Assign) and len(n.targets) == 1 and \
                isinstance(n.targets[0], ast.Name):
            v = n.value
            if (isinstance(v, ast.Call) and isinstance(v.func, ast.Name) and
                    v.func.id in ('OrderedDict', 'dict') and not v.args and
                    not v.keywords) or (isinstance(v, ast.Dict) and
                                        not v.keys):
                ref_empty.add(n.targets[0].id)
    done: List[str] = []
    if not ref_empty:
        return done

    def block(stmts):
        out = []
        for st in stmts:
            for field in ('body', 'orelse', 'finalbody'):
                sub = getattr(st, field, None)
                if isinstance(sub, list) and sub and \
                        isinstance(sub[0], ast.stmt) and not isinstance(
                            st, (ast.FunctionDef, ast.ClassDef,
                                 ast.AsyncFunctionDef)):
                    setattr(st, field, block(sub))
            for h in getattr(st, 'handlers', []) or []:
                h.body = block(h.body)
            if isinstance(st, ast.Assign) and len(st.targets) == 1 and \
                    isinstance(st.targets[0], ast.Name) and \
                    st.targets[0].id in ref_empty:
                x = st.targets[0].id
                v = st.value
                comp = ctor = None
                if isinstance(v, ast.Call) and isinstance(v.func, ast.Name) \
                        and v.func.id in ('OrderedDict', 'dict') and \
                        len(v.args) == 1 and not v.keywords and \
                        isinstance(v.args[0], (ast.GeneratorExp,
                                               ast.ListComp)) and \
                        isinstance(v.args[0].elt, ast.Tuple) and \
                        len(v.args[0].elt.elts) == 2:
                    comp, ctor = v.args[0], v.func.id
                    key, val = comp.elt.elts
                elif isinstance(v, ast.DictComp):
                    comp, ctor = v, 'dict'
                    key, val = v.key, v.value
                if comp is not None and len(comp.generators) == 1 and \
                        not comp.generators[0].is_async:
                    gen = comp.generators[0]
                    store = ast.Assign(
                        targets=[ast.Subscript(
                            value=ast.Name(id=x, ctx=ast.Load()),
                            slice=key, ctx=ast.Store())],
                        value=val)
                    body = [store]
                    for c in reversed(gen.ifs):
                        body = [ast.If(test=c, body=body, orelse=[])]
                    tgt = copy.deepcopy(gen.target)
                    for n in ast.walk(tgt):
                        if isinstance(n, ast.Name):
                            n.ctx = ast.Store()
                    loop = ast.For(target=tgt, iter=gen.iter, body=body,
                                   orelse=[])
                    create = ast.Assign(
                        targets=[ast.Name(id=x, ctx=ast.Store())],
                        value=ast.Call(func=ast.Name(id=ctor, ctx=ast.Load()),
                                       args=[], keywords=[]))
                    for n in (create, loop):
                        ast.copy_location(n, st)
                        ast.fix_missing_locations(n)
                    out.extend([create, loop])
                    done.append(x)
                    continue
            out.append(st)
        return out
    fn.body = block(fn.body)
    return done


def unfold_flattening_generators(fn, ref_fn) -> List[str]:
    """Undo "nested loops -> one loop over a flattening generator":

        G = (e for a in A for b in a.B ...)       (G new relative to the
        for x in G: body                           reference, used once)

    becomes the nested loops `for a in A: for b in a.B: ...: x = e; body`
    (no assignment when e is the innermost loop variable and has x's name).
    A generator expression is lazy, so the interleaving of iteration and
    body is the same as in the nested loops."""
    ref_names = _all_names(ref_fn)
    done: List[str] = []

    def block(stmts):
        out = []
        i = 0
        while i < len(stmts):
            st = stmts[i]
            for field in ('body', 'orelse', 'finalbody'):
                sub = getattr(st, field, None)
                if isinstance(sub, list) and sub and \
                        isinstance(sub[0], ast.stmt) and not isinstance(
                            st, (ast.FunctionDef, ast.ClassDef,
                                 ast.AsyncFunctionDef)):
                    setattr(st, field, block(sub))
            for h in getattr(st, 'handlers', []) or []:
                h.body = block(h.body)
            nxt = stmts[i + 1] if i + 1 < len(stmts) else None
            if isinstance(st, ast.Assign) and len(st.targets) == 1 and \
                    isinstance(st.targets[0], ast.Name) and \
                    isinstance(st.value, ast.GeneratorExp) and \
                    len(st.value.generators) >= 2 and \
                    not any(g.is_async for g in st.value.generators) and \
                    isinstance(nxt, ast.For) and \
                    isinstance(nxt.iter, ast.Name) and \
                    nxt.iter.id == st.targets[0].id and not nxt.orelse and \
                    st.targets[0].id not in ref_names:
                name = st.targets[0].id
                loads = [n for n in ast.walk(fn) if isinstance(n, ast.Name)
                         and n.id == name and isinstance(n.ctx, ast.Load)]
                if len(loads) == 1:
                    gen = st.value
                    body = list(nxt.body)
                    same = isinstance(gen.elt, ast.Name) and \
                        isinstance(nxt.target, ast.Name) and \
                        gen.elt.id == nxt.target.id
                    if not same:
                        body = [ast.Assign(targets=[nxt.target],
                                           value=gen.elt)] + body
                    for g in reversed(gen.generators):
                        for c in reversed(g.ifs):
                            body = [ast.If(test=c, body=body, orelse=[])]
                        tgt = copy.deepcopy(g.target)
                        for n in ast.walk(tgt):
                            if isinstance(n, ast.Name):
                                n.ctx = ast.Store()
                        body = [ast.For(target=tgt, iter=g.iter, body=body,
                                        orelse=[])]
                    loop = body[0]
                    ast.copy_location(loop, nxt)
                    ast.fix_missing_locations(loop)
                    out.append(loop)
                    done.append(name)
                    i += 2
                    continue
            out.append(st)
            i += 1
        return out
    fn.body = block(fn.body)
    return done


def forward_new_temps(fn, ref_fn) -> List[str]:
    """Undo "introduce variable": a local that does not exist in the
    reference function, is bound exactly once by `x = <expr>` and is read
    exactly once, in the statement that immediately follows, at a position
    that is evaluated once and before anything with a side effect, is
    substituted back (`_rv = f(); return _rv`  ->  `return f()`)."""
    ref_names = _all_names(ref_fn)
    counts = _store_count(fn)
    done: List[str] = []

    def header_of(st):
        if isinstance(st, (ast.Expr, ast.Assign, ast.AugAssign, ast.Return,
                           ast.AnnAssign)):
            return st.value
        if isinstance(st, ast.If):
            return st.test
        if isinstance(st, ast.For):
            return st.iter
        if isinstance(st, ast.With) and len(st.items) == 1:
            return st.items[0].context_expr
        if isinstance(st, ast.Raise):
            return st.exc
        return None

    def block(stmts):
        out = []
        i = 0
        while i < len(stmts):
            st = stmts[i]
            for field in ('body', 'orelse', 'finalbody'):
                sub = getattr(st, field, None)
                if isinstance(sub, list) and sub and \
                        isinstance(sub[0], ast.stmt) and not isinstance(
                            st, (ast.FunctionDef, ast.ClassDef,
                                 ast.AsyncFunctionDef)):
                    setattr(st, field, block(sub))
            for h in getattr(st, 'handlers', []) or []:
                h.body = block(h.body)
            nxt = stmts[i + 1] if i + 1 < len(stmts) else None
            if isinstance(st, ast.Assign) and len(st.targets) == 1 and \
                    isinstance(st.targets[0], ast.Name) and nxt is not None:
                x = st.targets[0].id
                hdr = header_of(nxt)
                loads = [n for n in ast.walk(fn) if isinstance(n, ast.Name)
                         and n.id == x and isinstance(n.ctx, ast.Load)]
                if x not in ref_names and counts.get(x, 0) == 1 and \
                        len(loads) == 1 and hdr is not None and \
                        any(n is loads[0] for n in ast.walk(hdr)) and \
                        _single_use_outside_loops([ast.Expr(value=hdr)], x):
                    order = _all_nodes_post_order(hdr)
                    pos = [k for k, n in enumerate(order) if n is loads[0]][0]
                    cond = False
                    for n in ast.walk(hdr):
                        if isinstance(n, ast.IfExp) and any(
                                m is loads[0] for b in (n.body, n.orelse)
                                for m in ast.walk(b)):
                            cond = True
                        if isinstance(n, ast.BoolOp) and any(
                                m is loads[0] for v in n.values[1:]
                                for m in ast.walk(v)):
                            cond = True
                    if not cond and not any(isinstance(n, EFFECT)
                                            for n in order[:pos]):
                        sw = _Swap(loads[0], st.value)
                        sw.visit(nxt)
                        if sw.done:
                            done.append(x)
                            i += 1
                            continue      # drop the assignment
            out.append(st)
            i += 1
        return out

    fn.body = block(fn.body)
    if done:
        ast.fix_missing_locations(fn)
    return done


def inline_new_helpers(trees: Dict[str, ast.Module],
                       ref_trees: Dict[str, Optional[ast.Module]]):
    """Inline in place; returns (records, skipped)."""
    dd = undo_dict_dispatch(trees, ref_trees)
    inl = Inliner(trees, ref_trees)
    inl.records += dd
    inl.run()
    return inl.records, inl.skipped
