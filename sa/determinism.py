"""Order-taint analysis: iteration order of sets must not reach ordered output.

A *site* is an expression that consumes the iteration order of a set-kinded
value: a for statement, a comprehension generator, list()/tuple()/enumerate()/
str.join() of it.  Each site is classified:

  sanitised    - never a site: the iterable is wrapped in sorted(...)
  insensitive  - the consumer cannot observe the order (reason recorded)
  SENSITIVE    - order can reach a list / SQL / yield / ordered mapping
"""
from __future__ import annotations

import ast
from typing import Dict, List, Optional, Set, Tuple

from .flow import ReachingDefs
from .program import (Class, Func, Program, call_name, dotted, unparse,
                      walk_no_nested)

SET_CTORS = {'set', 'frozenset'}
SET_METHODS = {'difference', 'union', 'intersection', 'symmetric_difference',
               'copy'}
ORDER_FREE_CONSUMERS = {'set', 'frozenset', 'sorted', 'any', 'all', 'sum',
                        'min', 'max', 'len'}
SET_MUTATORS = {'add', 'discard', 'remove', 'update', 'difference_update',
                'intersection_update', 'add_dependency'}


class SetKinds(object):
    """Which expressions are set-valued (may analysis)."""

    def __init__(self, program: Program):
        self.program = program
        self.set_attr_names: Set[str] = set()
        self.set_returning: Set[str] = set()   # function names
        for c in program.all_classes():
            init = c.methods.get('__init__')
            if not init:
                continue
            for n in walk_no_nested(init.node):
                if isinstance(n, ast.Assign):
                    for t in n.targets:
                        if isinstance(t, ast.Attribute) and \
                                isinstance(t.value, ast.Name) and \
                                t.value.id == 'self' and \
                                self._syntactic_set(n.value):
                            self.set_attr_names.add(t.attr)
        for f in program.all_funcs():
            for n in walk_no_nested(f.node):
                if isinstance(n, ast.Return) and n.value is not None and \
                        self._syntactic_set(n.value):
                    self.set_returning.add(f.name)

    def _syntactic_set(self, e) -> bool:
        if isinstance(e, (ast.Set, ast.SetComp)):
            return True
        if isinstance(e, ast.Call):
            if isinstance(e.func, ast.Name) and e.func.id in SET_CTORS:
                return True
            if isinstance(e.func, ast.Attribute) and \
                    e.func.attr in SET_METHODS and \
                    self._syntactic_set(e.func.value):
                return True
        if isinstance(e, ast.BinOp) and isinstance(
                e.op, (ast.Sub, ast.BitOr, ast.BitAnd, ast.BitXor)):
            return self._syntactic_set(e.left) or self._syntactic_set(e.right)
        return False

    def is_set(self, e, rd: Optional[ReachingDefs], node, depth=0) -> bool:
        if depth > 6:
            return False
        if self._syntactic_set(e):
            return True
        if isinstance(e, ast.Call):
            if isinstance(e.func, ast.Attribute) and \
                    e.func.attr in SET_METHODS and \
                    self.is_set(e.func.value, rd, node, depth + 1):
                return True
            n = call_name(e)
            if n in self.set_returning and n not in ('get', 'copy'):
                return True
            return False
        if isinstance(e, ast.BinOp) and isinstance(
                e.op, (ast.Sub, ast.BitOr, ast.BitAnd, ast.BitXor)):
            return self.is_set(e.left, rd, node, depth + 1) or \
                self.is_set(e.right, rd, node, depth + 1)
        if isinstance(e, ast.IfExp):
            return self.is_set(e.body, rd, node, depth + 1) or \
                self.is_set(e.orelse, rd, node, depth + 1)
        if isinstance(e, ast.BoolOp):
            return any(self.is_set(v, rd, node, depth + 1) for v in e.values)
        if isinstance(e, ast.Attribute):
            return e.attr in self.set_attr_names
        if isinstance(e, ast.Name) and rd is not None and node is not None:
            for d in rd.reaching(node, e.id):
                if d.kind in ('assign',) and d.value is not None and \
                        self.is_set(d.value, rd, d.node, depth + 1):
                    return True
                if d.kind == 'mutate' and isinstance(d.node.ast,
                                                     ast.AugAssign) and \
                        d.value is not None and \
                        self.is_set(d.value, rd, d.node, depth + 1):
                    return True
        return False


def _is_sorted_call(e) -> bool:
    return isinstance(e, ast.Call) and isinstance(e.func, ast.Name) and \
        e.func.id == 'sorted'


def _parents(root) -> Dict[int, ast.AST]:
    out = {}
    for n in ast.walk(root):
        for c in ast.iter_child_nodes(n):
            out[id(c)] = n
    return out


def _body_insensitive(stmts: List[ast.stmt], is_set=None,
                      only_subscripted=None,
                      order_free_local=None) -> Optional[str]:
    """None if every statement is order-insensitive, else a description of
    the first order-sensitive statement."""
    for st in stmts:
        # L.append(x) onto a local list that only ever escapes through
        # sorted()/set()/len() (the loop form of `L = [x for x in a_set if
        # ...]` followed by `return sorted(L)`)
        if isinstance(st, ast.Expr) and isinstance(st.value, ast.Call) and \
                isinstance(st.value.func, ast.Attribute) and \
                st.value.func.attr in ('append', 'extend') and \
                isinstance(st.value.func.value, ast.Name) and \
                order_free_local is not None and \
                order_free_local(st.value.func.value.id) and \
                not any(isinstance(x, ast.Call) and call_name(x) not in (
                    'get', 'len', 'tuple', 'get_attr_value')
                    for a in st.value.args for x in ast.walk(a)):
            continue
        # d[k] = <call-free value> into a mapping that is only ever
        # subscripted (the loop form of dict((k, v) for k in a_set))
        if isinstance(st, ast.Assign) and len(st.targets) == 1 and \
                isinstance(st.targets[0], ast.Subscript) and \
                isinstance(st.targets[0].value, ast.Name) and \
                only_subscripted is not None and \
                only_subscripted(st.targets[0].value.id) and \
                not any(isinstance(x, ast.Call) for x in ast.walk(st.value)):
            continue
        if isinstance(st, ast.Return) and (st.value is None or isinstance(
                st.value, ast.Constant)):
            continue   # existential / universal test over the elements
        if isinstance(st, (ast.Assert, ast.Pass, ast.Continue, ast.Break)):
            continue
        if isinstance(st, ast.Assign) and all(isinstance(t, (ast.Name,
                                                             ast.Tuple))
                                              for t in st.targets):
            if any(isinstance(x, ast.Call) and call_name(x) not in (
                    'get', 'get_node', 'get_field', 'len', 'isinstance',
                    'tuple', 'qn', '_make_evolution_key', '_make_migration_key')
                   and not (isinstance(x.func, ast.Attribute) and
                            x.func.attr.startswith(('get_', 'find_')))
                   for x in ast.walk(st.value)):
                return unparse(st)
            continue
        if isinstance(st, ast.Expr) and isinstance(st.value, ast.Call) and \
                call_name(st.value) in SET_MUTATORS:
            c = st.value
            if call_name(c) == 'add_dependency' or is_set is None or (
                    isinstance(c.func, ast.Attribute) and
                    is_set(c.func.value)):
                continue
            return unparse(st).split('\n')[0]
        if isinstance(st, ast.If):
            r = _body_insensitive(st.body, is_set, only_subscripted,
                                  order_free_local) or \
                _body_insensitive(st.orelse, is_set, only_subscripted,
                                  order_free_local)
            if r:
                return r
            continue
        if isinstance(st, ast.Raise):
            continue
        return unparse(st).split('\n')[0]
    return None


class Site(object):
    def __init__(self, func, node, iter_expr, verdict, reason):
        self.func, self.node, self.iter_expr = func, node, iter_expr
        self.verdict, self.reason = verdict, reason

    def key(self):
        return 'for ... in %s' % ' '.join(unparse(self.iter_expr).split())


def analyse_function(ctx, kinds: SetKinds, f: Func) -> List[Site]:
    # cheap pre-filter: does the function mention a set at all?
    src_has = False
    for n in walk_no_nested(f.node, include_lambda=True):
        if kinds._syntactic_set(n) or (isinstance(n, ast.Attribute) and
                                       n.attr in kinds.set_attr_names) or \
                (isinstance(n, ast.Call) and
                 call_name(n) in kinds.set_returning):
            src_has = True
            break
    if not src_has:
        return []
    g = ctx.cfg(f)
    rd = ReachingDefs(g, f.params)
    parents = _parents(f.node)
    # map ast expr -> cfg node that evaluates it
    owner: Dict[int, object] = {}
    for n in g.nodes:
        for a in n.walk():
            owner.setdefault(id(a), n)
    sites: List[Site] = []

    def node_for(e):
        cur = e
        while cur is not None and id(cur) not in owner:
            cur = parents.get(id(cur))
        return owner.get(id(cur)) if cur is not None else None

    def is_set(e):
        return kinds.is_set(e, rd, node_for(e))

    def only_subscripted(name):
        for u in walk_no_nested(f.node, include_lambda=True):
            if isinstance(u, ast.Name) and u.id == name and \
                    isinstance(u.ctx, ast.Load):
                up = parents.get(id(u))
                if isinstance(up, ast.Subscript) and up.value is u:
                    continue
                if isinstance(up, ast.Attribute) and \
                        up.attr in ('get', 'setdefault', 'pop'):
                    continue
                if isinstance(up, ast.Compare):
                    continue
                return False
        return True

    def order_free_local(name):
        if name in f.params:
            return False
        for u in walk_no_nested(f.node, include_lambda=True):
            if isinstance(u, ast.Name) and u.id == name and \
                    isinstance(u.ctx, ast.Load):
                up = parents.get(id(u))
                if isinstance(up, ast.Attribute) and \
                        up.attr in ('append', 'extend'):
                    continue
                if isinstance(up, ast.Call) and isinstance(
                        up.func, ast.Name) and \
                        up.func.id in ORDER_FREE_CONSUMERS:
                    continue
                if isinstance(up, ast.Compare):
                    continue
                return False
        return True

    for n in walk_no_nested(f.node, include_lambda=True):
        if isinstance(n, ast.For):
            if _is_sorted_call(n.iter) or not is_set(n.iter):
                continue
            why = _body_insensitive(n.body, is_set, only_subscripted,
                                    order_free_local)
            if why is None:
                sites.append(Site(f, n, n.iter, 'insensitive',
                                  'loop body only updates sets / asserts'))
            else:
                sites.append(Site(f, n, n.iter, 'SENSITIVE',
                                  'loop body is order-sensitive: %s' % why))
        elif isinstance(n, (ast.ListComp, ast.GeneratorExp, ast.DictComp,
                            ast.SetComp)):
            for gen in n.generators:
                if _is_sorted_call(gen.iter) or not is_set(gen.iter):
                    continue
                if isinstance(n, ast.SetComp):
                    sites.append(Site(f, n, gen.iter, 'insensitive',
                                      'set comprehension'))
                    continue
                par = parents.get(id(n))
                if isinstance(par, ast.Call) and (
                        (isinstance(par.func, ast.Name) and
                         par.func.id in ORDER_FREE_CONSUMERS) or
                        call_name(par) in SET_MUTATORS or
                        call_name(par) in SET_METHODS):
                    sites.append(Site(f, n, gen.iter, 'insensitive',
                                      'consumed by %s()' % call_name(par)))
                    continue
                if (isinstance(par, ast.Call) and isinstance(
                        par.func, ast.Name) and par.func.id == 'dict') or \
                        isinstance(n, ast.DictComp):
                    gp = parents.get(id(par)) if not isinstance(
                        n, ast.DictComp) else par
                    if isinstance(gp, ast.Assign) and len(gp.targets) == 1 \
                            and isinstance(gp.targets[0], ast.Name):
                        name = gp.targets[0].id
                        bad = None
                        for u in walk_no_nested(f.node, include_lambda=True):
                            if isinstance(u, ast.Name) and u.id == name and \
                                    isinstance(u.ctx, ast.Load):
                                up = parents.get(id(u))
                                if isinstance(up, ast.Subscript) and \
                                        up.value is u:
                                    continue
                                if isinstance(up, ast.Attribute) and \
                                        up.attr in ('get', 'setdefault',
                                                    'pop'):
                                    continue
                                if isinstance(up, ast.Compare):
                                    continue
                                bad = unparse(up) if up is not None else name
                                break
                        if bad is None:
                            sites.append(Site(
                                f, n, gen.iter, 'insensitive',
                                'builds a plain dict that is only '
                                'subscripted'))
                            continue
                if isinstance(par, ast.AugAssign) and isinstance(
                        par.op, (ast.Sub, ast.BitOr, ast.BitAnd)):
                    sites.append(Site(f, n, gen.iter, 'insensitive',
                                      'set algebra operand'))
                    continue
                # assigned to a local that only ever escapes through sorted()
                if isinstance(par, ast.Assign) and len(par.targets) == 1 and \
                        isinstance(par.targets[0], ast.Name):
                    name = par.targets[0].id
                    bad = None
                    for u in walk_no_nested(f.node, include_lambda=True):
                        if isinstance(u, ast.Name) and u.id == name and \
                                isinstance(u.ctx, ast.Load):
                            up = parents.get(id(u))
                            if isinstance(up, ast.Attribute) and \
                                    up.attr in ('append', 'extend'):
                                continue
                            if isinstance(up, ast.Call) and isinstance(
                                    up.func, ast.Name) and \
                                    up.func.id in ORDER_FREE_CONSUMERS:
                                continue
                            if isinstance(up, ast.Compare):
                                continue
                            bad = unparse(up) if up is not None else name
                            break
                    if bad is None:
                        sites.append(Site(f, n, gen.iter, 'insensitive',
                                          'result only escapes through '
                                          'sorted()/set()/len()'))
                        continue
                    sites.append(Site(f, n, gen.iter, 'SENSITIVE',
                                      'ordered result of a set iteration '
                                      'escapes via: %s' % bad[:80]))
                    continue
                sites.append(Site(f, n, gen.iter, 'SENSITIVE',
                                  'ordered comprehension over a set'))
        elif isinstance(n, ast.Call) and n.args:
            fn = n.func
            if isinstance(fn, ast.Name) and fn.id in (
                    'list', 'tuple', 'enumerate', 'iter', 'reversed', 'zip',
                    'OrderedDict'):
                a = n.args[0]
                if not _is_sorted_call(a) and is_set(a):
                    par = parents.get(id(n))
                    if isinstance(par, ast.Call) and isinstance(
                            par.func, ast.Name) and \
                            par.func.id in ORDER_FREE_CONSUMERS:
                        continue
                    # for x in list(S): handled as the loop's iterable
                    if isinstance(par, ast.For) and par.iter is n:
                        why = _body_insensitive(par.body, is_set)
                        sites.append(Site(
                            f, par, a,
                            'insensitive' if why is None else 'SENSITIVE',
                            'loop body only updates sets / asserts'
                            if why is None else
                            'loop body is order-sensitive: %s' % why))
                        continue
                    sites.append(Site(f, n, a, 'SENSITIVE',
                                      '%s() of a set' % fn.id))
            elif isinstance(fn, ast.Attribute) and fn.attr == 'join':
                a = n.args[0]
                if not _is_sorted_call(a) and is_set(a):
                    # error / log messages are not part of SQL or hints
                    par = parents.get(id(n))
                    in_msg = False
                    cur = n
                    while cur is not None:
                        if isinstance(cur, (ast.Raise, ast.Assert)):
                            in_msg = True
                        cur = parents.get(id(cur))
                    sites.append(Site(
                        f, n, a, 'insensitive' if in_msg else 'SENSITIVE',
                        'only formats an error message' if in_msg else
                        'str.join of a set'))
    return sites


# Sites reviewed by reading the code: (module suffix, qualname, iterable text)
REVIEWED = {
    ('utils.evolutions', 'get_app_upgrade_info', 'mutation.mark_applied'):
        'fills a MigrationList that is only consumed as a set of targets '
        '(to_targets / has_migration_info / set(names) in '
        'AppSignature.applied_migrations); within-app order only decides the '
        'row order of django_migrations inserts, never SQL text or hints',
}


def run_rule(ctx, scope_pred, floor=0, what='set-iteration sites'):
    """Report every set-iteration site in the functions accepted by
    scope_pred; SENSITIVE ones are findings."""
    kinds = getattr(ctx, '_setkinds', None)
    if kinds is None:
        kinds = ctx._setkinds = SetKinds(ctx.program)
    n = 0
    for f in ctx.program.all_funcs():
        if not scope_pred(f):
            continue
        for s in analyse_function(ctx, kinds, f):
            n += 1
            rk = (f.module.name.split('django_evolution.')[-1], f.qualname,
                  ' '.join(unparse(s.iter_expr).split()))
            if s.verdict == 'SENSITIVE' and rk in REVIEWED:
                ctx.ok(f, 'set iteration over %s reviewed as order-'
                       'insensitive: %s' % (rk[2], REVIEWED[rk]), s.node)
            elif s.verdict == 'SENSITIVE':
                ctx.finding(f, s.node, 'iteration order of a set (%s) reaches '
                            'ordered output: %s' % (unparse(s.iter_expr)[:60],
                                                    s.reason), key=s.key())
            else:
                ctx.ok(f, 'set iteration over %s is order-%s: %s' % (
                    unparse(s.iter_expr)[:60], s.verdict, s.reason), s.node)
    ctx.floor(what, n, floor)
    return n
